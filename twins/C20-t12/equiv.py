# -*- coding: UTF-8 -*-
"""
Equivalence transcript for property C20 (configuration precedence, userdata).

Exercises behave.configuration / behave.userdata through their public
behaviour and prints a canonical transcript (no temp-dir names, no ids).
"""
from __future__ import print_function
import sys
sys.path.insert(0, "/tmp/wtV/C20")

import contextlib
import io
import itertools
import os
import re
import shutil
import tempfile

ORIG_CWD = os.getcwd()
SCRATCH = os.path.realpath(tempfile.mkdtemp(prefix="c20equiv_"))
HOME = os.path.join(SCRATCH, "home")
os.makedirs(HOME)
os.environ["HOME"] = HOME
os.environ.pop("BEHAVE_STAGE", None)
os.environ.pop("BEHAVE_COLOR", None)
os.environ.pop("APPDATA", None)

from behave import configuration as cfg            # noqa: E402
from behave.configuration import Configuration     # noqa: E402
from behave import userdata as ud                  # noqa: E402
from behave.userdata import UserData, UserDataNamespace, parse_user_define  # noqa: E402

assert cfg.__file__.startswith("/tmp/wtV/C20/"), cfg.__file__


def canon(text):
    text = text.replace(SCRATCH, "<TMP>")
    text = re.sub(r" at 0x[0-9a-fA-F]+", " at 0x?", text)
    text = re.sub(r"Took \d+m\d+\.\d+s", "Took <TIME>", text)
    return text


def show(*parts):
    print(canon(" ".join(str(p) for p in parts)))


def section(title):
    print("")
    print("=" * 8 + " " + title)


@contextlib.contextmanager
def captured():
    out, err = io.StringIO(), io.StringIO()
    old = sys.stdout, sys.stderr
    sys.stdout, sys.stderr = out, err
    try:
        yield out, err
    finally:
        sys.stdout, sys.stderr = old


def call(func, *args, **kwargs):
    """Returns canonical text for result / exception of a call."""
    try:
        return "-> %r" % (func(*args, **kwargs),)
    except SystemExit as e:
        return "!! SystemExit(%r)" % (e.code,)
    except BaseException as e:  # noqa
        return "!! %s: %s" % (type(e).__name__, e)


def write(path, text):
    dirname = os.path.dirname(path)
    if dirname and not os.path.isdir(dirname):
        os.makedirs(dirname)
    with open(path, "w") as f:
        f.write(text)


def fresh_dir(name):
    path = os.path.join(SCRATCH, name)
    if os.path.isdir(path):
        shutil.rmtree(path)
    os.makedirs(path)
    return path


# ---------------------------------------------------------------------------
# PART 1: userdata
# ---------------------------------------------------------------------------
section("parse_user_define")
NAMES = ["foo", " foo ", "foo.bar", "", "f=o", '"foo"', "'foo'", "foo bar"]
VALUES = ["bar", " bar ", "", '"bar"', "'bar'", '"bar', "bar'", "a=b", "=",
          '" padded "', "'a=b'", '"\'x\'"', "'", '"', '""', "''", "'\"",
          "true", "0", "\tx\n"]
DEFINES = ["", " ", "=", "==", "foo", " foo ", "'foo'", '"foo"', '"', "'",
           '""', "''", '"="', "'='", '"foo=bar"', "'foo=bar'", '"foo=bar',
           "foo=bar\"", ' "foo = bar" ', " ' foo = \" bar \" ' ",
           '"foo"="bar"', "'foo'='bar'", "foo='bar\"", "foo=\"bar'",
           "\"'foo=bar'\"", "foo==bar", "=bar", "foo=", '"foo="', "'=bar'",
           "foo = 'a = b'", u"caf\xe9=\xfc", "a=b=c=d", " = ", '"" = ""',
           "'\"'=x", "x='", 'x="', "\"x='\"", "foo='  '", "foo=' a '"]
for name, value in itertools.product(NAMES, VALUES):
    DEFINES.append("%s=%s" % (name, value))
    DEFINES.append('"%s=%s"' % (name, value))
    DEFINES.append(" '%s = %s' " % (name, value))
for text in DEFINES:
    show(repr(text), call(parse_user_define, text))
for bad in [None, 3, b"foo=bar", ["a=b"]]:
    show(repr(bad), call(parse_user_define, bad))

section("unqote")
for text in ["", '"', "'", '""', "''", '"a"', "'a'", '"a\'', "'a\"", "a",
             '"a', "a'", '""a""', "'\"a\"'", " 'a' ", '"a" ', "\"'\"", "'''"]:
    show(repr(text), call(ud.unqote, text))
for bad in [None, 3, b'"a"']:
    show(repr(bad), call(ud.unqote, bad))

section("parse_bool")
for text in ["yes", "YES", " true ", "on", "1", "no", "False", "off", "0",
             "", "2", "y", "n", "tru e", " Off\n"]:
    show(repr(text), call(ud.parse_bool, text))

section("UserData getters")
RAW = {
    "int": "42", "neg": "-7", "padint": " 12 ", "float": "1.5", "exp": "1e3",
    "empty": "", "text": "abc", "yes": "yes", "no": "No", "on": "ON",
    "off": "off", "one": "1", "zero": "0", "two": "2", "true": " True ",
    "pre_int": 12, "pre_float": 2.5, "pre_true": True, "pre_false": False,
    "pre_none": None, "pre_list": [1], "hex": "0x10", "inf": "inf",
    "unknown": cfg.Unknown,
}
data = UserData(RAW)
GETTERS = [
    ("getint", lambda d, n: d.getint(n)),
    ("getint/default", lambda d, n: d.getint(n, 99)),
    ("getint/default=None", lambda d, n: d.getint(n, default=None)),
    ("getfloat", lambda d, n: d.getfloat(n)),
    ("getfloat/default", lambda d, n: d.getfloat(n, -1.25)),
    ("getbool", lambda d, n: d.getbool(n)),
    ("getbool/default", lambda d, n: d.getbool(n, True)),
    ("getas(str)", lambda d, n: d.getas(str, n)),
    ("getas(int,valuetype=(int,float))",
     lambda d, n: d.getas(int, n, default="D", valuetype=(int, float))),
    ("getas(len,valuetype=int)", lambda d, n: d.getas(len, n, valuetype=int)),
    ("getas(None,valuetype=str)",
     lambda d, n: d.getas(None, n, valuetype=str)),
    ("getas(None)", lambda d, n: d.getas(None, n, "dflt")),
    ("get", lambda d, n: d.get(n, "MISSING")),
]
for name in sorted(RAW) + ["missing", ""]:
    for label, getter in GETTERS:
        show("%-10s %-34s" % (name, label), call(getter, data, name))

section("UserData.make / UserDataNamespace")
for arg in [None, {}, {"a": "1"}, UserData(b="2"), [("c", "3")]]:
    made = UserData.make(arg)
    show(repr(arg), type(made).__name__, sorted(made.items()),
         "same" if made is arg else "new")
nsdata = UserData({"my.int": "3", "my.flag": "on", "my.bad": "x", "other": "1",
                   "my": "self", "my.my.x": "2.5"})
for namespace in ["my", "", None, "my.my", "nope"]:
    ns = UserDataNamespace(namespace, nsdata)
    show("namespace", repr(namespace), "len", call(len, ns),
         "keys", call(lambda: sorted(ns.keys())),
         "items", call(lambda: sorted(ns.items())),
         "values", call(lambda: sorted(ns.values())))
    for name in ["int", "flag", "bad", "x", "my.x", "other", "missing"]:
        show("  ", name, "in", name in ns,
             "get", call(ns.get, name, "D"),
             "getint", call(ns.getint, name, 5),
             "getfloat", call(ns.getfloat, name),
             "getbool", call(ns.getbool, name),
             "getas", call(ns.getas, str, name, "Q"),
             "item", call(ns.__getitem__, name))
ns = UserDataNamespace("new")
ns["k"] = "v"
show("setitem", sorted(ns.data.items()), list(ns.keys()), type(ns.data).__name__)


# ---------------------------------------------------------------------------
# PART 2: OPTIONS table / config-file schema
# ---------------------------------------------------------------------------
section("configfile_options_iter")
show("has_negated_option", [cfg.has_negated_option(f) for f, _ in cfg.OPTIONS])
show("derive_dest", [cfg.derive_dest_from_long_option(f) for f, _ in cfg.OPTIONS])
for label, conf in [
    ("None", None), ("{}", {}), ("no-behave", {"other": {}}),
    ("empty-behave", {"behave": {}}),
    ("some", {"behave": {"color": 1, "no_color": 1, "junit": 0, "tags": [],
                         "version": 1, "userdata_defines": 1, "paths": [],
                         "unknown_opt": 2, "format": [], "outfiles": [],
                         "show_skipped": 1, "no_skipped": 1, "stage": "x",
                         "default_tags": "", "logging_level": "x"}}),
    ("behave-is-list", {"behave": ["color", "jobs"]}),
    ("behave-is-str", {"behave": "dry_run wip"}),
    ("behave-is-int", {"behave": 5}),
    ("behave-is-None", {"behave": None}),
    ("list-config", ["behave"]),
    ("str-config", "behave"),
]:
    def consume(conf=conf):
        return [tuple(item[:2]) + (getattr(item[2], "__name__", item[2]),)
                for item in cfg.configfile_options_iter(conf)]
    show(label, call(consume))
# -- LAZINESS: generator is not started before the first next().
gen = cfg.configfile_options_iter({"behave": 5})
show("lazy-created", type(gen).__name__)
show("lazy-next", call(next, gen))
show("lazy-next-again", call(next, gen))
gen = cfg.configfile_options_iter({"behave": {"wip": 1, "stop": 1}})
first = next(gen)
show("first", tuple(first), type(first).__name__, first._fields)
show("rest", [tuple(x) for x in gen])

section("parsers built from OPTIONS")
parser = cfg.setup_parser()
show("defaults", sorted((a.dest, repr(a.default), type(a).__name__,
                         tuple(a.option_strings)) for a in parser._actions))
show("config-file-parser", call(lambda: sorted(
    (a.dest, type(a).__name__, a.help)
    for a in cfg.setup_config_file_parser()._actions)))


# ---------------------------------------------------------------------------
# PART 3: format_outfiles_coupling
# ---------------------------------------------------------------------------
section("format_outfiles_coupling")
FORMATS = [None, [], ["plain"], ["plain", "json"], ["a", "b", "c"],
           ["sub/x", "/abs/y", "../z"], "ab", ("t1", "t2"), [1, None]]
OUTFILES = [None, [], ["o1"], ["o1", "o2"], ["o1", "/abs/o2", "../o3", "o4"],
            ["-", ""], ("p", "q", "r")]
PATHS = [None, [], ["features", "/abs/f", "../up", "."]]
for fmt, outs, paths in itertools.product(FORMATS, OUTFILES, PATHS):
    for config_dir in ["", "conf/dir", "/etc/x"]:
        data = {}
        if fmt is not None:
            data["format"] = list(fmt) if isinstance(fmt, list) else fmt
        if outs is not None:
            data["outfiles"] = list(outs) if isinstance(outs, list) else outs
        if paths is not None:
            data["paths"] = list(paths)
        orig_outs = data.get("outfiles")
        with captured() as (out, err):
            result = call(cfg.format_outfiles_coupling, data, config_dir)
        show(repr(fmt), repr(outs), repr(paths), repr(config_dir), result,
             sorted(data.items()), "orig_outfiles=%r" % (orig_outs,),
             "stdout=%r" % out.getvalue())
# -- ALIASING: format and outfiles are the same list object.
shared = ["x", "y"]
data = {"format": shared, "outfiles": shared}
show("aliased", call(cfg.format_outfiles_coupling, data, "d"), data, shared)


# ---------------------------------------------------------------------------
# PART 4: read_configparser / read_toml_config / read_configuration
# ---------------------------------------------------------------------------
def dump_dict(d):
    if not isinstance(d, dict):
        return repr(d)
    return "{%s}" % ", ".join("%s=%r" % (k, d[k]) for k in sorted(d))


def dump_ordered(d):
    """Keeps insertion order (observable through dict iteration)."""
    return "[%s]" % ", ".join("%s=%r" % (k, v) for k, v in d.items())


INI_FILES = {
    "empty": "",
    "no_behave": "[other]\nx = 1\n",
    "empty_behave": "[behave]\n",
    "scalars": """[behave]
color = never
jobs = 4
stage = prod
lang = de
logging_level = DEBUG
logging_format = %(asctime)s %(message)s
logging_datefmt = %H:%M
junit_directory = out/reports
default_format = progress
tag_expression_protocol = strict
runner = my.module:Runner
scenario_outline_annotation_schema = {name} <{row.id}>
""",
    "booleans": """[behave]
dry_run = true
junit = yes
show_skipped = false
show_snippets = no
show_multiline = off
show_source = 0
show_timings = 0
stdout_capture = no
stderr_capture = false
log_capture = off
capture = false
capture_hooks = true
summary = false
quiet = 1
wip = false
stop = on
verbose = yes
steps_catalog = no
""",
    "lists": """[behave]
format = plain
    json
    progress
outfiles = out/plain.txt
    /abs/json.out
paths = features
    ../more
    /abs/features
tags = @a and @b
    not @c
default_tags = not @xfail
    not @skip
name = alpha
    beta gamma
""",
    "too_many_outfiles": """[behave]
format = plain
outfiles = a.txt
    b.txt
    c.txt
""",
    "outfiles_only": "[behave]\noutfiles = only.txt\n",
    "format_only": "[behave]\nformat = json\n  pretty\n",
    "bad_bool": "[behave]\ndry_run = maybe\n",
    "bad_jobs": "[behave]\njobs = -3\n",
    "bad_jobs2": "[behave]\njobs = many\n",
    "bad_level": "[behave]\nlogging_level = LOUD\n",
    "bad_interp": "[behave]\nstage = %(nope)s\n",
    "excluded": """[behave]
version = true
tags_help = true
lang_list = true
lang_help = de
userdata_defines = a=b
no_color = true
no_junit = true
unknown_option = 1
""",
    "sections": """[behave]
stage = s1
[behave.userdata]
foo = file_foo
Bar = file Bar
num = 12
flag = on
[behave.formatters]
myplain = behave.formatter.plain:PlainFormatter
[behave.runners]
fast = behave.runner:Runner
""",
    "case": "[behave]\nStage = upper\nstage = lower\nCOLOR = on\n",
    "include": "[behave]\ninclude_re = .*_ok\nexclude_re = skip_.*\n",
}

section("read_configparser")
for depth_dir in ["ini0", "ini1/sub", "ini2/a/b/c"]:
    base = fresh_dir(depth_dir.split("/")[0])
    for key in sorted(INI_FILES):
        path = os.path.join(SCRATCH, depth_dir, key, "behave.ini")
        write(path, INI_FILES[key])
        with captured() as (out, err):
            try:
                result = dump_ordered(cfg.read_configparser(path))
            except BaseException as e:  # noqa
                result = "!! %s: %s" % (type(e).__name__, e)
        show(depth_dir, key, result, "stdout=%r" % out.getvalue())
# -- RELATIVE config path (config_dir == "" and "sub")
os.chdir(fresh_dir("rel"))
write("behave.ini", INI_FILES["lists"])
write("sub/tox.ini", INI_FILES["lists"])
show("relative", dump_ordered(cfg.read_configparser("behave.ini")))
show("relative-sub", dump_ordered(cfg.read_configparser("sub/tox.ini")))
show("missing-file", dump_ordered(cfg.read_configparser("nope/behave.ini")))

TOML_FILES = {
    "empty": "",
    "no_tool": "[project]\nname = 'x'\n",
    "tool_no_behave": "[tool.other]\nx = 1\n",
    "empty_behave": "[tool.behave]\n",
    "scalars": """[tool.behave]
color = "never"
jobs = 4
stage = "prod"
logging_level = "DEBUG"
logging_format = "%(asctime)s %(message)s"
junit_directory = "out/reports"
default_format = "progress"
tag_expression_protocol = "strict"
lang = 12
""",
    "booleans": """[tool.behave]
dry_run = true
junit = false
show_skipped = false
show_source = 0
show_timings = ""
stdout_capture = "false"
summary = []
quiet = 1
wip = false
stop = true
""",
    "lists": """[tool.behave]
format = ["plain", "json", "progress"]
outfiles = ["out/plain.txt", "/abs/json.out"]
paths = ["features", "../more", "/abs/features"]
tags = ["@a and @b", "not @c"]
default_tags = ["not @xfail", "not @skip"]
name = ["alpha", "beta gamma"]
""",
    "too_many_outfiles": """[tool.behave]
format = ["plain"]
outfiles = ["a.txt", "b.txt", "c.txt"]
""",
    "format_only": "[tool.behave]\nformat = ['json', 'pretty']\n",
    "format_not_list": "[tool.behave]\nformat = 'json'\n",
    "tags_not_list": "[tool.behave]\ntags = '@a'\n",
    "paths_not_list": "[tool.behave]\npaths = 3\n",
    "format_odd_items": "[tool.behave]\nformat = [1, ['a', 'b'], true]\n",
    "excluded": """[tool.behave]
version = true
lang_list = true
userdata_defines = ["a=b"]
no_color = true
unknown_option = 1
""",
    "sections": """[tool.behave]
stage = "s1"
[tool.behave.userdata]
foo = "file_foo"
Bar = "file Bar"
num = 12
ratio = 1.5
flag = true
nothing = []
nested = {a = 1, b = [2, 3.5]}
[tool.behave.formatters]
myplain = "behave.formatter.plain:PlainFormatter"
[tool.behave.runners]
fast = "behave.runner:Runner"
""",
    "behave_not_table": "[tool]\nbehave = 5\n",
    "behave_str": "[tool]\nbehave = 'dry_run'\n",
    "behave_list": "[tool]\nbehave = ['dry_run', 'wip']\n",
    "syntax_error": "[tool.behave\n",
}

section("read_toml_config")
for depth_dir in ["toml0", "toml1/x/y"]:
    fresh_dir(depth_dir.split("/")[0])
    for key in sorted(TOML_FILES):
        path = os.path.join(SCRATCH, depth_dir, key, "pyproject.toml")
        write(path, TOML_FILES[key])
        with captured() as (out, err):
            try:
                result = dump_ordered(cfg.read_toml_config(path))
            except BaseException as e:  # noqa
                result = "!! %s: %s" % (type(e).__name__, e)
        show(depth_dir, key, result, "stdout=%r" % out.getvalue())
os.chdir(fresh_dir("relt"))
write("pyproject.toml", TOML_FILES["lists"])
show("relative", dump_ordered(cfg.read_toml_config("pyproject.toml")))
show("missing-file", call(cfg.read_toml_config, "nope/pyproject.toml"))

section("read_configuration")
os.chdir(fresh_dir("rc"))
for filename in ["behave.ini", ".behaverc", "setup.cfg", "tox.ini", "x.toml",
                 "pyproject.toml", "noext", "a.b.ini", "conf.yaml", "ini",
                 "dir.ini/file", "trailing.", ".cfg", "x.INI"]:
    text = TOML_FILES["lists"] if filename.endswith("toml") else INI_FILES["lists"]
    write(filename, text)
    for verbose in (False, True):
        with captured() as (out, err):
            result = call(cfg.read_configuration, filename, verbose)
        show(filename, verbose, result, "stdout=%r" % out.getvalue())
show("parsers", sorted((k, v.__name__) for k, v in cfg.CONFIG_FILE_PARSERS.items()))


# ---------------------------------------------------------------------------
# PART 5: config_filenames / load_configuration
# ---------------------------------------------------------------------------
section("config_filenames / load_configuration")
CONFIG_NAMES = ["behave.ini", ".behaverc", "setup.cfg", "tox.ini", "pyproject.toml"]


def stage_text(filename, where):
    value = "%s_%s" % (where, filename.strip(".").replace(".", "_"))
    if filename.endswith(".toml"):
        return '[tool.behave]\nstage = "%s"\n[tool.behave.userdata]\n%s = "%s"\n' % \
               (value, "from", value)
    return "[behave]\nstage = %s\n[behave.userdata]\nfrom = %s\n%s = 1\n" % \
           (value, value, value)


for mask in range(0, 1 << len(CONFIG_NAMES)):
    for home_mask in (0, 0b10101, 0b11111):
        if mask not in (0, 1, 2, 4, 8, 16, 3, 24, 31) and home_mask == 0b10101:
            continue
        workdir = fresh_dir("cf")
        shutil.rmtree(HOME)
        os.makedirs(HOME)
        os.chdir(workdir)
        for bit, filename in enumerate(CONFIG_NAMES):
            if mask & (1 << bit):
                write(os.path.join(workdir, filename), stage_text(filename, "cwd"))
            if home_mask & (1 << bit):
                write(os.path.join(HOME, filename), stage_text(filename, "home"))
        names = list(cfg.config_filenames())
        defaults = {"stage": "builtin", "jobs": 1}
        with captured() as (out, err):
            result = call(cfg.load_configuration, defaults, mask == 31)
        show("mask=%s home=%s" % (bin(mask), bin(home_mask)), names, result,
             "stage=%r" % defaults.get("stage"),
             "userdata=%s" % dump_ordered(defaults.get("userdata", {})),
             "keys=%s" % list(defaults),
             "stdout=%r" % out.getvalue())
# -- LAZINESS of config_filenames(): file created after generator creation.
workdir = fresh_dir("cf")
shutil.rmtree(HOME)
os.makedirs(HOME)
os.chdir(workdir)
gen = cfg.config_filenames()
write("pyproject.toml", stage_text("pyproject.toml", "cwd"))
write("behave.ini", stage_text("behave.ini", "cwd"))
first = next(gen)
os.remove("behave.ini")
write("tox.ini", stage_text("tox.ini", "cwd"))
show("lazy", first, list(gen))
os.environ["APPDATA"] = os.path.join(SCRATCH, "appdata")
show("appdata-ignored-on-linux", list(cfg.config_filenames()))
os.environ.pop("APPDATA")


# ---------------------------------------------------------------------------
# PART 6: Configuration(command_args) -- precedence
# ---------------------------------------------------------------------------
section("Configuration precedence")
ATTRS = [
    "color", "jobs", "dry_run", "junit", "junit_directory", "show_skipped",
    "show_snippets", "show_multiline", "show_source", "show_timings",
    "stdout_capture", "stderr_capture", "log_capture", "capture",
    "capture_hooks", "summary", "quiet", "wip", "stop", "verbose",
    "steps_catalog", "stage", "steps_dir", "environment_file", "lang",
    "logging_level", "logging_format", "logging_datefmt", "logging_filter",
    "logging_clear_handlers", "default_format", "format", "outfiles", "paths",
    "tags", "config_tags", "default_tags", "name", "runner",
    "tag_expression_protocol", "scenario_outline_annotation_schema",
    "userdata_defines", "more_formatters", "more_runners", "runner_aliases",
    "version", "tags_help", "lang_list", "lang_help", "steps_dir",
]


CLASS_DEFAULTS = dict(Configuration.defaults)
CLASS_DEFAULTS_REPR = repr(sorted(Configuration.defaults.items()))
show("class-defaults", dump_dict(CLASS_DEFAULTS))


def dump_config(config):
    lines = []
    for attr in ATTRS:
        value = getattr(config, attr, "<<unset>>")
        lines.append("    %s=%r" % (attr, value))
    lines.append("    userdata=%s %s" % (type(config.userdata).__name__,
                                         dump_ordered(config.userdata)))
    lines.append("    tag_expression=%s" % (config.tag_expression,))
    lines.append("    outputs=%r" % [
        (o.name, "stdout" if o.stream is sys.stdout else o.stream)
        for o in config.outputs])
    lines.append("    reporters=%r" % [type(r).__name__ for r in config.reporters])
    for regex_name in ("name_re", "include_re", "exclude_re"):
        regex = getattr(config, regex_name)
        lines.append("    %s=%r" % (regex_name, getattr(regex, "pattern", regex)))
    changed = dict((k, v) for k, v in config.defaults.items()
                   if k not in CLASS_DEFAULTS or CLASS_DEFAULTS[k] != v)
    lines.append("    defaults(changed)=%s missing=%r" % (
        dump_dict(changed), sorted(set(CLASS_DEFAULTS) - set(config.defaults))))
    return "\n".join(lines)


def build(label, args, **kwargs):
    real_stdout = sys.stdout
    with captured() as (out, err):
        try:
            config = Configuration(args, **kwargs)
            # -- outputs compare against the captured stdout: normalize.
            for o in config.outputs:
                if o.stream is sys.stdout:
                    o.stream = real_stdout
            failure = None
        except SystemExit as e:
            failure = "!! SystemExit(%r)" % (e.code,)
        except BaseException as e:  # noqa
            failure = "!! %s: %s" % (type(e).__name__, e)
    show("--", label, "args=%r" % (args,), dump_dict(kwargs) if kwargs else "")
    if failure:
        show("   ", failure)
    else:
        show(dump_config(config))
    if out.getvalue() or err.getvalue():
        show("    stdout=%r stderr=%r" % (out.getvalue(), err.getvalue()))
    if repr(sorted(Configuration.defaults.items())) != CLASS_DEFAULTS_REPR:
        show("    CLASS-DEFAULTS-MUTATED=%s" % dump_dict(Configuration.defaults))


def new_workdir(files):
    workdir = fresh_dir("prec")
    shutil.rmtree(HOME)
    os.makedirs(HOME)
    os.chdir(workdir)
    for name, text in files.items():
        if name.startswith("~/"):
            name = os.path.join(HOME, name[2:])
        write(name, text)
    return workdir


CMDLINES = [
    [],
    ["--color", "always"], ["--no-color"], ["--color=auto"], ["-C", "--color", "on"],
    ["--jobs", "7"], ["-j", "2", "--parallel=3"],
    ["--dry-run"], ["--junit"], ["--no-junit"], ["--junit", "--no-junit"],
    ["--no-junit", "--junit", "--junit-directory", "cmd/rep"],
    ["--show-skipped"], ["--no-skipped"], ["--no-skipped", "--show-skipped"],
    ["--snippets"], ["--no-snippets"], ["--multiline"], ["--no-multiline"],
    ["--show-source"], ["--no-source"], ["--show-timings"], ["--no-timings"],
    ["--capture"], ["--no-capture"], ["--no-capture", "--capture"],
    ["--capture-stderr"], ["--no-capture-stderr"],
    ["--logcapture"], ["--no-logcapture"], ["--junit", "--no-capture", "--no-logcapture"],
    ["-T"], ["-T", "--show-timings"], ["-r", "short.module:R"],
    ["--summary"], ["--no-summary"], ["--quiet"], ["-q", "--show-source"],
    ["--wip"], ["-w", "--tags", "@x"], ["--stop"], ["--verbose"], ["-v"],
    ["--steps-catalog"], ["--steps-catalog", "-f", "plain"],
    ["--stage", "cmd"], ["--lang", "fr"],
    ["--logging-level", "ERROR"], ["--logging-level", "loud"],
    ["--logging-format", "%(message)s"], ["--logging-datefmt", "%S"],
    ["--logging-filter", "foo,-bar"], ["--logging-clear-handlers"],
    ["-f", "plain"], ["-f", "plain", "-o", "cmd.out"],
    ["-f", "json", "-o", "j.out", "-f", "progress"], ["-o", "only.out"],
    ["-f", "no_such_format"], ["-f", "help"],
    ["-o", "-"],
    ["--tags", "@cmd"], ["-t", "@c1", "-t", "not @c2"],
    ["--tags", "{config.tags} and @cmd"], ["--tags=@a,@b"],
    ["--name", "cmd name"], ["-n", "n1", "-n", "n2"],
    ["-i", "inc.*", "-e", "exc.*"],
    ["--runner", "cmd.module:Runner"],
    ["--tags", "{config.tags} or @cmd", "--tags", "@second"],
    ["cmd_features", "other/x.feature:10", "./a/../b"],
    ["-D", "foo=cmd_foo"], ["-D", "foo"], ["-D", "'foo = \"cmd\"'", "-D", "new= x "],
    ["-D", "foo=1", "-D", "foo=2", "--define", "Bar=cmd Bar"],
    ["--define=flag=off", "-Dnum=99"],
    ["--version"], ["--tags-help"], ["--lang-list"], ["--lang-help", "de"],
    ["--no-such-option"], ["--jobs", "-1"], ["--jobs", "x"],
]

FILESETS = [
    ("no-config", {}),
    ("ini-scalars", {"behave.ini": INI_FILES["scalars"]}),
    ("ini-booleans", {"behave.ini": INI_FILES["booleans"]}),
    ("ini-lists", {"behave.ini": INI_FILES["lists"]}),
    ("ini-sections", {"behave.ini": INI_FILES["sections"]}),
    ("toml-lists+sections", {"pyproject.toml":
        TOML_FILES["lists"] + TOML_FILES["sections"].replace("[tool.behave]\n", "")}),
    ("toml-booleans", {"pyproject.toml": TOML_FILES["booleans"]}),
    ("home+cwd", {"~/behave.ini": INI_FILES["scalars"] + INI_FILES["sections"].replace("[behave]\nstage = s1\n", ""),
                  "~/tox.ini": INI_FILES["lists"],
                  "setup.cfg": "[behave]\nstage = cwd_stage\njobs = 9\nformat = progress\n"
                               "[behave.userdata]\nfoo = cwd_foo\ncwd_only = yes\n",
                  "pyproject.toml": "[tool.behave]\njobs = 5\ncolor = 'on'\n"
                                    "[tool.behave.userdata]\nfoo = 'toml_foo'\n"}),
]

for fileset_name, files in FILESETS:
    for args in CMDLINES:
        new_workdir(files)
        build(fileset_name, list(args))

section("Configuration: bad config files, kwargs, load_config=False, strings")
for key in ["bad_bool", "bad_jobs", "bad_jobs2", "bad_level", "bad_interp",
            "too_many_outfiles", "outfiles_only", "format_only", "excluded",
            "case", "include", "empty", "no_behave", "empty_behave"]:
    new_workdir({"behave.ini": INI_FILES[key]})
    build("ini:" + key, [])
    new_workdir({"behave.ini": INI_FILES[key]})
    build("ini:" + key, ["-f", "plain", "-o", "x.out", "-v"])
for key in ["format_not_list", "tags_not_list", "paths_not_list", "format_odd_items",
            "behave_not_table", "behave_str", "behave_list", "syntax_error",
            "too_many_outfiles", "format_only", "excluded", "no_tool",
            "tool_no_behave", "scalars"]:
    new_workdir({"pyproject.toml": TOML_FILES[key]})
    build("toml:" + key, [])
new_workdir({"behave.ini": INI_FILES["sections"]})
build("load_config=False", ["-D", "x=1"], load_config=False)
new_workdir({"behave.ini": INI_FILES["sections"]})
build("kwargs", ["-D", "foo=cmd"], stage="kw_stage", jobs=3,
      userdata={"foo": "kw", "kwonly": "1"})
new_workdir({})
build("kwargs-userdata-instance", ["-D", "b=2"], userdata=UserData(a="1", b="1"))
new_workdir({})
build("string-args", "--jobs 3 -D 'foo=a b' -D \"bar = 'q'\" features --no-color")
new_workdir({})
build("tuple-args", ("--stage", "tup", "-D", "t"))
new_workdir({"features/x.feature": "Feature: x\n"})
build("color-before-path", ["--color", "features"])
new_workdir({})
build("color-last", ["--color"])
new_workdir({})
build("verbose-load", ["-v"], verbose=None)
new_workdir({"behave.ini": INI_FILES["scalars"], "tox.ini": INI_FILES["sections"]})
build("verbose-kw", [], verbose=True)

section("Configuration: nested config dir depth (relative paths by file location)")
for depth in ["", "d1", "d1/d2/d3"]:
    top = new_workdir({})
    workdir = os.path.join(top, depth) if depth else top
    if not os.path.isdir(workdir):
        os.makedirs(workdir)
    os.chdir(workdir)
    write("behave.ini", INI_FILES["lists"])
    build("depth=%r" % depth, [])
    build("depth=%r" % depth, ["-o", "cmd.out", "-f", "plain", "cmdpath"])

section("update_userdata / setup_userdata")
new_workdir({"behave.ini": INI_FILES["sections"]})
with captured():
    config = Configuration(["-D", "foo=cmd_foo", "-D", "extra"])
show("initial", dump_ordered(config.userdata), config.userdata_defines)
config.update_userdata({"foo": "updated", "late": "1", "extra": "no"})
show("updated", dump_ordered(config.userdata))
config.update_userdata([("num", "13")])
show("updated2", dump_ordered(config.userdata), type(config.userdata).__name__)
same = config.userdata
config.setup_userdata()
show("setup-again", config.userdata is same, dump_ordered(config.userdata))
config.userdata = {"plain": "dict", "foo": "x"}
config.setup_userdata()
show("setup-dict", type(config.userdata).__name__, dump_ordered(config.userdata))
show("getters", config.userdata.getint("num", 1), config.userdata.getbool("extra"),
     call(config.userdata.getint, "foo"), config.userdata.getfloat("nope", 2.5))
with captured():
    config = Configuration([])
show("no-defines", dump_ordered(config.userdata), config.userdata_defines)
config.update_userdata({"k": "v"})
show("no-defines-updated", dump_ordered(config.userdata))

section("python -m behave (subprocess)")
import subprocess  # noqa: E402
workdir = new_workdir({
    "behave.ini": "[behave]\nformat = plain\noutfiles = from_ini.out\n"
                  "show_timings = false\n[behave.userdata]\nwho = ini\nkeep = kept\n",
    "features/a.feature": "Feature: F\n  Scenario: S\n    Given a step\n",
    "features/steps/s.py": "from behave import given\n"
                           "@given('a step')\n"
                           "def step(ctx):\n"
                           "    ud = ctx.config.userdata\n"
                           "    print('USERDATA', sorted(ud.items()),"
                           " ud.getbool('flag', False), ud.getint('n', -1))\n",
})
env = dict(os.environ, PYTHONPATH="/tmp/wtV/C20", HOME=HOME)
for args in [[], ["-D", "who=cmd", "-D", "flag", "-D", "n= 5 "],
             ["-f", "plain", "-o", "cmd.out", "--no-capture"],
             ["--no-capture", "-o", "-", "-f", "plain", "-D", "who='q'"]]:
    proc = subprocess.Popen([sys.executable, "-m", "behave"] + args, cwd=workdir,
                            env=env, stdout=subprocess.PIPE, stderr=subprocess.STDOUT)
    output = proc.communicate()[0].decode("utf-8")
    show("args", args, "exit", proc.returncode)
    show(output)
    for name in sorted(os.listdir(workdir)):
        if name.endswith(".out"):
            with open(os.path.join(workdir, name)) as f:
                show("FILE", name, repr(f.read()))
            os.remove(os.path.join(workdir, name))

os.chdir(ORIG_CWD)
shutil.rmtree(SCRATCH, ignore_errors=True)
print("")
print("DONE")
