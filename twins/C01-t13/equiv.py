# -*- coding: UTF-8 -*-
"""
Equivalence transcript for C01 (run verdict).

Sends real parsed features through the real ModelRunner (real step registry,
recording formatter/reporter/hooks) and prints a canonical transcript of
everything observable: verdict, counters, call log, statuses, error messages,
captured stdout.
"""
from __future__ import print_function
import sys
sys.path.insert(0, "/tmp/wtW/C01")

import io
import itertools
import os
import re
import subprocess
import tempfile
import textwrap
import contextlib

from behave.configuration import Configuration
from behave.exception import StepNotImplementedError, PendingStepError
from behave.model import Scenario
from behave.parser import parse_feature
from behave.runner import ModelRunner, Context
from behave.step_registry import StepRegistry
import six

EMPHASIS = "run_model"     # -- Which part of the code gets the extra cases.


# ---------------------------------------------------------------------------
# NORMALISATION
# ---------------------------------------------------------------------------
def normalize(text):
    text = six.text_type(text)
    text = re.sub(r'File "[^"]*[/\\]([^"/\\]+)", line \d+', r'File "\1", line N', text)
    text = re.sub(r"0x[0-9a-fA-F]+", "0xX", text)
    text = re.sub(r"\d+\.\d+s", "T.TTTs", text)
    # -- PYTHON 3.11+: Traceback position markers.
    text = "\n".join(line for line in text.splitlines()
                     if not re.match(r"^\s*[\^~]+\s*$", line))
    return text


# ---------------------------------------------------------------------------
# STEP LIBRARY
# ---------------------------------------------------------------------------
def make_step_registry(log):
    registry = StepRegistry()

    def step_passes(context):
        log.append("STEP-IMPL passes")

    def step_prints(context, word):
        print("printed:%s" % word)
        log.append("STEP-IMPL prints %s" % word)

    def step_fails(context):
        log.append("STEP-IMPL fails")
        assert False, "boom"

    def step_fails_without_message(context):
        log.append("STEP-IMPL fails-bare")
        assert False

    def step_raises(context):
        log.append("STEP-IMPL raises")
        raise RuntimeError("kaputt")

    def step_pending(context):
        log.append("STEP-IMPL pending")
        raise StepNotImplementedError("not yet")

    def step_pending_bare(context):
        log.append("STEP-IMPL pending-bare")
        raise PendingStepError()

    def step_interrupt(context):
        log.append("STEP-IMPL interrupt")
        raise KeyboardInterrupt()

    def step_skips_scenario(context):
        log.append("STEP-IMPL skip-scenario")
        context.scenario.skip("by step")

    def step_skips_feature(context):
        log.append("STEP-IMPL skip-feature")
        context.feature.skip("by step")

    def step_adds_bad_cleanup(context):
        log.append("STEP-IMPL bad-cleanup")
        def bad_cleanup():
            log.append("CLEANUP bad (scenario layer)")
            raise ValueError("cleanup failed")
        context.add_cleanup(bad_cleanup)

    def step_adds_good_cleanup(context):
        log.append("STEP-IMPL good-cleanup")
        context.add_cleanup(lambda: log.append("CLEANUP good (scenario layer)"))

    def step_nested(context, kind):
        log.append("STEP-IMPL nested %s" % kind)
        context.execute_steps(u"Given a %s step" % kind)

    def step_checks_text(context):
        log.append("STEP-IMPL text=%r table=%r" % (
            context.text, context.table and context.table.headings))

    registry.add_step_definition("step", u"a passing step", step_passes)
    registry.add_step_definition("step", u"a step printing {word}", step_prints)
    registry.add_step_definition("step", u"a failing step", step_fails)
    registry.add_step_definition("step", u"a bare failing step", step_fails_without_message)
    registry.add_step_definition("step", u"a raising step", step_raises)
    registry.add_step_definition("step", u"a pending step", step_pending)
    registry.add_step_definition("step", u"a bare pending step", step_pending_bare)
    registry.add_step_definition("step", u"an interrupting step", step_interrupt)
    registry.add_step_definition("step", u"a scenario-skipping step", step_skips_scenario)
    registry.add_step_definition("step", u"a feature-skipping step", step_skips_feature)
    registry.add_step_definition("step", u"a bad-cleanup step", step_adds_bad_cleanup)
    registry.add_step_definition("step", u"a good-cleanup step", step_adds_good_cleanup)
    registry.add_step_definition("step", u"a nested {kind} step call", step_nested)
    registry.add_step_definition("step", u"a step with data", step_checks_text)
    return registry


STEP_TEXT = {
    "pass": u"a passing step",
    "print": u"a step printing hello",
    "fail": u"a failing step",
    "fail0": u"a bare failing step",
    "raise": u"a raising step",
    "pending": u"a pending step",
    "pending0": u"a bare pending step",
    "undefined": u"an undefined step",
    "undefined2": u"another undefined step",
    "skip": u"a scenario-skipping step",
    "skipf": u"a feature-skipping step",
    "interrupt": u"an interrupting step",
    "badcleanup": u"a bad-cleanup step",
    "goodcleanup": u"a good-cleanup step",
    "nested-fail": u"a nested failing step call",
    "nested-pass": u"a nested passing step call",
    "nested-undef": u"a nested undefined step call",
}


# ---------------------------------------------------------------------------
# RECORDERS
# ---------------------------------------------------------------------------
def describe(entity):
    kind = entity.__class__.__name__
    name = getattr(entity, "name", None)
    return "%s(%s)" % (kind, name)


class RecordingFormatter(object):
    """Duck-typed formatter: records every callback."""
    def __init__(self, log, name="F1", with_rule=True):
        self.log = log
        self.name = name
        if not with_rule:
            # -- Formatter without optional callbacks.
            self.rule = None
            self.rule_finished = None

    def _add(self, text):
        self.log.append("%s.%s" % (self.name, text))

    def uri(self, uri):
        self._add("uri %s" % uri)

    def feature(self, feature):
        self._add("feature %s" % feature.name)

    def rule(self, rule):
        self._add("rule %s" % rule.name)

    def rule_finished(self):
        self._add("rule_finished")

    def background(self, background):
        self._add("background %s" % background.name)

    def scenario(self, scenario):
        self._add("scenario %s" % scenario.name)

    def step(self, step):
        self._add("step %s %s" % (step.keyword, step.name))

    def match(self, match):
        func = getattr(match, "func", None)
        self._add("match %s func=%s" % (match.__class__.__name__,
                                        getattr(func, "__name__", None)))

    def result(self, step):
        self._add("result %s -> %s" % (step.name, step.status.name))

    def eof(self):
        self._add("eof")

    def close(self):
        self._add("close")


class RecordingReporter(object):
    def __init__(self, log, name="R1"):
        self.log = log
        self.name = name

    def feature(self, feature):
        self.log.append("%s.feature %s status=%s" % (
            self.name, feature.name, feature.status.name))

    def end(self):
        self.log.append("%s.end" % self.name)


HOOK_NAMES = ["before_all", "after_all", "before_feature", "after_feature",
              "before_rule", "after_rule", "before_scenario", "after_scenario",
              "before_step", "after_step", "before_tag", "after_tag"]


def make_hooks(log, actions=None):
    """
    actions: dict hook_name -> callable(context, *args, call_no) that is
    called after logging (may raise / skip / add cleanups).
    """
    actions = actions or {}
    counters = dict((name, 0) for name in HOOK_NAMES)

    def make_hook(name):
        def hook(context, *args):
            counters[name] += 1
            shown = []
            for arg in args:
                shown.append(getattr(arg, "name", None) or six.text_type(arg))
            log.append("HOOK %s %s" % (name, " ".join(shown)))
            action = actions.get(name)
            if action:
                action(context, counters[name], *args)
        hook.__name__ = name
        return hook
    return dict((name, make_hook(name)) for name in HOOK_NAMES)


# ---------------------------------------------------------------------------
# RUN ONE CASE
# ---------------------------------------------------------------------------
def dump_statuses(features, out):
    def show_error(entity, indent):
        message = getattr(entity, "error_message", None)
        if message:
            for line in normalize(message).splitlines():
                out.append("%s  | %s" % (indent, line))
        if getattr(entity, "hook_failed", False):
            out.append("%s  hook_failed=True" % indent)
        exception = getattr(entity, "exception", None)
        if exception is not None:
            out.append("%s  exception=%s(%s)" % (
                indent, exception.__class__.__name__, normalize(exception)))

    def show_scenario(scenario, indent):
        out.append("%s%s: %s skip=%s reason=%s" % (
            indent, describe(scenario), scenario.status.name,
            scenario.should_skip, scenario.skip_reason))
        show_error(scenario, indent)
        captured = getattr(scenario, "captured", None)
        if captured is not None and captured.output:
            out.append("%s  captured=%r" % (indent, normalize(captured.output)))
        for step in scenario.all_steps:
            out.append("%s  Step(%s): %s" % (indent, step.name, step.status.name))
            show_error(step, indent + "  ")
            captured = getattr(step, "captured", None)
            if captured is not None and captured.output:
                out.append("%s    captured=%r" % (indent, normalize(captured.output)))

    def show_container(container, indent):
        out.append("%s%s: %s skip=%s" % (indent, describe(container),
                                         container.status.name,
                                         container.should_skip))
        show_error(container, indent)
        for item in container.run_items:
            kind = item.__class__.__name__
            if kind == "Rule":
                show_container(item, indent + "  ")
            elif kind == "ScenarioOutline":
                out.append("%s  %s: %s" % (indent, describe(item), item.status.name))
                for scenario in item._scenarios:
                    show_scenario(scenario, indent + "    ")
            else:
                show_scenario(item, indent + "  ")

    for feature in features:
        show_container(feature, "  ")


def run_case(title, feature_texts, args=None, hook_actions=None,
             use_hooks=True, tweak=None, formatters=2, out=None,
             use_run=True, features_factory=None):
    out.append("=" * 70)
    out.append("CASE: %s  ARGS: %s" % (title, " ".join(args or [])))
    log = []
    config = Configuration(command_args=list(args or []), load_config=False)
    config.reporters = [RecordingReporter(log, "R1"), RecordingReporter(log, "R2")]
    features = []
    for index, text in enumerate(feature_texts):
        feature = parse_feature(textwrap.dedent(text).strip() + u"\n",
                                filename="features/f%d.feature" % index)
        features.append(feature)
    registry = make_step_registry(log)
    if features_factory:
        features_arg = features_factory(features)
    else:
        features_arg = features
    runner = ModelRunner(config, features=features_arg, step_registry=registry)
    if formatters >= 1:
        runner.formatters.append(RecordingFormatter(log, "F1"))
    if formatters >= 2:
        runner.formatters.append(RecordingFormatter(log, "F2", with_rule=False))
    if use_hooks:
        runner.hooks = make_hooks(log, hook_actions)
    if tweak:
        tweak(runner, features, log)

    stdout = io.StringIO() if six.PY3 else io.BytesIO()
    real_stdout = sys.stdout
    sys.stdout = stdout
    verdict = None
    try:
        try:
            if use_run:
                verdict = runner.run()
            else:
                verdict = runner.run_model()
            outcome = "verdict=%r" % (verdict,)
        except BaseException as e:  # pylint: disable=broad-except
            outcome = "RAISED %s: %s" % (e.__class__.__name__, normalize(e))
    finally:
        sys.stdout = real_stdout

    out.append(outcome)
    out.append("hook_failures=%r aborted=%r undefined=%r" % (
        runner.hook_failures, runner.aborted,
        [step.name for step in runner.undefined_steps]))
    root = runner.context._root
    out.append("root.failed=%r root.aborted=%r cleanup_errors=%r active_outline=%r stack_depth=%d" % (
        root.get("failed"), root.get("aborted"), root.get("cleanup_errors"),
        root.get("active_outline"), len(runner.context._stack)))
    out.append("runner.feature=%s" % (runner.feature and runner.feature.name))
    out.append("-- LOG:")
    out.extend("  " + normalize(line) for line in log)
    out.append("-- STDOUT:")
    out.extend("  " + line for line in normalize(stdout.getvalue()).splitlines())
    out.append("-- STATUSES:")
    dump_statuses(features, out)
    return verdict


# ---------------------------------------------------------------------------
# FEATURE TEXT BUILDERS
# ---------------------------------------------------------------------------
def scenario_text(name, kinds, tags=None, indent="  "):
    lines = []
    if tags:
        lines.append(indent + " ".join("@" + tag for tag in tags))
    lines.append(indent + "Scenario: %s" % name)
    for number, kind in enumerate(kinds):
        keyword = ["Given", "When", "Then", "And"][min(number, 3)]
        lines.append(indent + "  %s %s" % (keyword, STEP_TEXT[kind]))
    return "\n".join(lines)


def feature_text(name, scenarios, tags=None, background=None):
    lines = []
    if tags:
        lines.append(" ".join("@" + tag for tag in tags))
    lines.append("Feature: %s" % name)
    if background:
        lines.append("  Background: B")
        for kind in background:
            lines.append("    Given %s" % STEP_TEXT[kind])
    for text in scenarios:
        lines.append(text)
    return six.text_type("\n".join(lines) + "\n")


BIG_FEATURE = u"""
@ftag
Feature: Big
  Background: FB
    Given a passing step

  Scenario: S1
    Given a passing step
    When a step printing one

  @wip
  Scenario: S2 wip
    Given a pending step
    Then a passing step

  Scenario Outline: SO <kind>
    Given a <kind> step
    Then a passing step

    @ex1
    Examples: E1
      | kind    |
      | passing |
      | KIND1   |

    Examples: E2
      | kind    |
      | passing |
      | KIND2   |

  @rtag
  Rule: R1
    Background: RB
      Given a step printing rb

    Scenario: R1S1
      Given a KIND3 step

    @slow
    Scenario: R1S2
      Given a passing step
      And a step with data
        '''
        some text
        '''

  Rule: R2 empty

  Rule: R3
    Scenario: R3S1
      Given a passing step
""".replace("'''", '"""')


def big_feature(kind1="passing", kind2="passing", kind3="passing"):
    return (BIG_FEATURE.replace("KIND1", kind1).replace("KIND2", kind2)
            .replace("KIND3", kind3))


# ---------------------------------------------------------------------------
# HOOK ACTIONS
# ---------------------------------------------------------------------------
def raise_in_hook(exception_class=RuntimeError, at_call=1, message="hook oops"):
    def action(context, call_no, *args):
        if call_no == at_call:
            raise exception_class(message)
    return action


def raise_for_tag(tag_name, exception_class=RuntimeError):
    def action(context, call_no, tag):
        if tag == tag_name:
            raise exception_class("tag hook oops")
    return action


def skip_entity(reason=None):
    def action(context, call_no, entity):
        if reason:
            entity.skip(reason)
        else:
            entity.mark_skipped()
    return action


def add_cleanup_action(log, label, fail=False):
    def action(context, call_no, *args):
        def cleanup():
            log.append("CLEANUP %s" % label)
            if fail:
                raise ValueError("cleanup %s failed" % label)
        cleanup.__name__ = "cleanup_%s" % label.replace(" ", "_")
        context.add_cleanup(cleanup)
    return action


# ---------------------------------------------------------------------------
# CASES
# ---------------------------------------------------------------------------
OUTCOMES = ["pass", "fail", "fail0", "raise", "pending", "pending0",
            "undefined", "skip", "interrupt", "badcleanup", "nested-fail",
            "nested-undef"]
OPTION_SETS = [[], ["--stop"], ["--dry-run"], ["--stop", "--dry-run"],
               ["--no-capture"], ["--verbose"], ["--show-skipped"],
               ["--no-skipped"], ["--junit", "--junit-directory", "/tmp/wtW/C01/_twins/_junit_unused"]]


def cases_single_scenario(out):
    # -- Every outcome at every position of a 3-step scenario, under options.
    for options in [[], ["--stop"], ["--dry-run"]]:
        for outcome in OUTCOMES:
            for position in range(3):
                for last in ("pass", "undefined2"):
                    kinds = ["print", "pass", last]
                    kinds[position] = outcome
                    text = feature_text("Single", [scenario_text("S", kinds)])
                    run_case("single %s@%d last=%s" % (outcome, position, last),
                             [text], args=options, out=out)
    # -- @wip scenario with pending/undefined steps.
    for outcome in ["pending", "pending0", "undefined", "fail"]:
        for options in [[], ["--dry-run"], ["--wip"], ["--tags=wip"]]:
            text = feature_text("Wip", [
                scenario_text("W", ["pass", outcome, "pass"], tags=["wip"]),
                scenario_text("N", ["pass", outcome], tags=["other"]),
            ])
            run_case("wip %s" % outcome, [text], args=options, out=out)


def cases_multi_feature(out):
    f_pass = feature_text("P", [scenario_text("P1", ["pass"]),
                                scenario_text("P2", ["print", "pass"])])
    f_fail = feature_text("F", [scenario_text("F1", ["pass", "fail", "pass"]),
                                scenario_text("F2", ["pass"])])
    f_undef = feature_text("U", [scenario_text("U1", ["undefined", "pass", "undefined2"])])
    f_int = feature_text("I", [scenario_text("I1", ["pass", "interrupt", "pass"]),
                               scenario_text("I2", ["pass"])])
    f_empty = feature_text("E", [])
    f_tagged = feature_text("T", [scenario_text("T1", ["pass"], tags=["one"]),
                                  scenario_text("T2", ["fail"], tags=["two"])],
                            tags=["ft"], background=["pass"])
    pool = {"P": f_pass, "F": f_fail, "U": f_undef, "I": f_int,
            "E": f_empty, "T": f_tagged}
    orders = ["", "P", "F", "U", "I", "E", "PF", "FP", "PFP", "FUP", "PIP",
              "IFP", "EPE", "TFT", "PUF", "UPI", "FF", "PPTP"]
    for order in orders:
        for options in [[], ["--stop"], ["--dry-run"], ["--tags=one"],
                        ["--tags=not two", "--stop"], ["--tags=nomatch"]]:
            run_case("features %s" % (order or "<none>"),
                     [pool[key] for key in order], args=options, out=out)
    # -- features given as tuple / generator / via run_model(features=...).
    run_case("features as tuple", [f_pass, f_fail, f_pass], args=["--stop"],
             out=out, features_factory=tuple)
    run_case("features as iterator", [f_pass, f_fail, f_pass], args=["--stop"],
             out=out, features_factory=iter)
    run_case("features as generator", [f_fail, f_int, f_pass], args=[],
             out=out, features_factory=lambda fs: (f for f in fs))

    def tweak_run_model_twice(runner, features, log):
        # -- Pre-existing undefined steps must not count (initial size).
        runner.context = Context(runner)
        first = runner.run_model(features[:1])
        log.append("FIRST run_model verdict=%r undefined=%d" % (
            first, len(runner.undefined_steps)))
        for feature in features:
            feature.reset()
    run_case("run_model twice: U then P", [f_undef, f_pass], out=out,
             tweak=tweak_run_model_twice,
             features_factory=lambda fs: fs[1:], use_run=False)
    run_case("run_model without context", [f_pass, f_fail], out=out, use_run=False)


def cases_big_feature(out):
    kinds = ["passing", "failing", "raising", "pending", "undefined",
             "interrupting", "scenario-skipping", "feature-skipping"]
    for options in OPTION_SETS:
        for kind in kinds:
            run_case("big kind1=%s" % kind, [big_feature(kind1=kind)],
                     args=options, out=out)
    for kind in kinds:
        run_case("big kind2=%s" % kind, [big_feature(kind2=kind)], out=out)
        run_case("big kind3=%s" % kind, [big_feature(kind3=kind)], out=out)
        run_case("big kind3=%s stop" % kind, [big_feature(kind3=kind),
                                              big_feature()],
                 args=["--stop"], out=out)
    for options in [["--tags=ex1"], ["--tags=rtag"], ["--tags=slow"],
                    ["--tags=not ftag"], ["--tags=wip"], ["--wip"],
                    ["--name=R1S"], ["--name=SO fail", "--stop"],
                    ["--name=nothing"], ["--tags=not ex1", "--no-skipped"],
                    ["--tags=rtag", "--dry-run"]]:
        run_case("big selection", [big_feature(kind1="failing", kind3="failing")],
                 args=options, out=out)
    # -- Without hooks / without formatters.
    run_case("big no hooks", [big_feature(kind1="failing")], use_hooks=False, out=out)
    run_case("big no formatters", [big_feature(kind3="undefined")], formatters=0, out=out)

    def tweak_continue(runner, features, log):
        for scenario in features[0].walk_scenarios():
            scenario.continue_after_failed_step = True
    for kind in ["failing", "undefined", "pending", "raising"]:
        run_case("big continue_after_failed_step kind1=%s" % kind,
                 [big_feature(kind1=kind, kind3=kind)], out=out,
                 tweak=tweak_continue)


def cases_hooks(out):
    text = big_feature()
    small = feature_text("Small", [scenario_text("A", ["pass", "print"], tags=["t1", "t2"]),
                                   scenario_text("B", ["pass"])], tags=["ft"])
    for hook_name in HOOK_NAMES:
        for at_call in (1, 2):
            for exception_class in (RuntimeError, AssertionError):
                for options in ([], ["--stop"], ["--verbose"], ["--dry-run"]):
                    run_case("hook %s raises %s at call %d" % (
                        hook_name, exception_class.__name__, at_call),
                             [small, small], args=options, out=out,
                             hook_actions={hook_name: raise_in_hook(exception_class, at_call)})
        run_case("hook %s raises in big" % hook_name, [text], out=out,
                 hook_actions={hook_name: raise_in_hook(RuntimeError, 2)})
        for at_call in (1, 2):
            run_case("hook %s raises KeyboardInterrupt at call %d" % (hook_name, at_call),
                     [small, small], out=out,
                     hook_actions={hook_name: raise_in_hook(KeyboardInterrupt, at_call, "")})
    for tag in ["ft", "t1", "t2"]:
        for hook_name in ["before_tag", "after_tag"]:
            run_case("hook %s raises for tag %s" % (hook_name, tag), [small], out=out,
                     hook_actions={hook_name: raise_for_tag(tag)})
    run_case("hook before_tag raises for rule tag", [text], out=out,
             hook_actions={"before_tag": raise_for_tag("rtag")})
    run_case("hook after_tag raises for rule tag", [text], out=out,
             hook_actions={"after_tag": raise_for_tag("rtag")})
    # -- Two failing hooks on the same entity (error_message is appended).
    run_case("hooks before+after scenario raise", [small], out=out,
             hook_actions={"before_scenario": raise_in_hook(RuntimeError, 1, "first"),
                           "after_scenario": raise_in_hook(ValueError, 1, "second")})
    run_case("hooks before+after feature raise", [small], out=out,
             hook_actions={"before_feature": raise_in_hook(RuntimeError, 1, "first"),
                           "after_feature": raise_in_hook(ValueError, 1, "second")})
    run_case("hooks step fails and after_step raises", [
        feature_text("X", [scenario_text("X1", ["fail", "pass"])])], out=out,
             hook_actions={"after_step": raise_in_hook(RuntimeError, 1)})
    # -- Hooks that skip entities.
    for hook_name in ["before_feature", "before_rule", "before_scenario"]:
        for reason in (None, "not today"):
            run_case("hook %s skips entity reason=%s" % (hook_name, reason),
                     [text], out=out, hook_actions={hook_name: skip_entity(reason)})
            run_case("hook %s skips entity reason=%s (no-skipped)" % (hook_name, reason),
                     [text], args=["--no-skipped"], out=out,
                     hook_actions={hook_name: skip_entity(reason)})


def cases_cleanups(out):
    small = feature_text("Small", [scenario_text("A", ["pass"]),
                                   scenario_text("B", ["pass"])])
    text = big_feature()
    for hook_name in ["before_all", "before_feature", "before_rule",
                      "before_scenario", "before_step", "after_scenario",
                      "after_feature", "after_all"]:
        for fail in (False, True):
            for feature_texts in ([small], [text, small]):
                for options in ([], ["--stop"]):
                    log_holder = []

                    def tweak(runner, features, log, hook_name=hook_name, fail=fail):
                        runner.hooks = make_hooks(log, {
                            hook_name: add_cleanup_action(log, "from " + hook_name, fail)})
                    run_case("cleanup in %s fail=%s" % (hook_name, fail),
                             feature_texts, args=options, out=out, tweak=tweak)

    def tweak_no_fail_on_cleanup(runner, features, log):
        def before_all(context):
            log.append("HOOK before_all (custom)")
            context.fail_on_cleanup_errors = False
            context.on_cleanup_error = Context.ignore_cleanup_error
        hooks = make_hooks(log, {
            "before_scenario": add_cleanup_action(log, "ignored", True)})
        hooks["before_all"] = before_all
        runner.hooks = hooks
    run_case("cleanup errors ignored", [small], out=out, tweak=tweak_no_fail_on_cleanup)
    run_case("cleanup step in scenario", [
        feature_text("C", [scenario_text("C1", ["goodcleanup", "badcleanup", "pass"]),
                           scenario_text("C2", ["pass"])])], out=out)
    run_case("cleanup step in scenario --stop", [
        feature_text("C", [scenario_text("C1", ["badcleanup", "pass"]),
                           scenario_text("C2", ["pass"])])], args=["--stop"], out=out)


def cases_command_line(out):
    """Exit code of `python -m behave` on real directories."""
    workdir = tempfile.mkdtemp(prefix="c01_equiv_")
    steps_dir = os.path.join(workdir, "features", "steps")
    os.makedirs(steps_dir)
    with open(os.path.join(steps_dir, "steps.py"), "w") as f:
        f.write(textwrap.dedent('''
            from behave import step
            @step(u"a passing step")
            def step_passes(ctx): pass
            @step(u"a failing step")
            def step_fails(ctx): assert False, "boom"
            @step(u"a raising step")
            def step_raises(ctx): raise RuntimeError("kaputt")
            @step(u"a pending step")
            def step_pending(ctx): raise NotImplementedError("x")
            @step(u"an interrupting step")
            def step_interrupt(ctx): raise KeyboardInterrupt()
            '''))
    environment = os.path.join(workdir, "features", "environment.py")
    variants = {
        "pass": "Given a passing step",
        "fail": "Given a failing step",
        "raise": "Given a raising step",
        "undefined": "Given an undefined step",
        "interrupt": "Given an interrupting step",
    }
    environments = {
        "none": "",
        "after_all raises": "def after_all(ctx): raise RuntimeError('x')\n",
        "before_all raises": "def before_all(ctx): raise RuntimeError('x')\n",
        "after_scenario raises": "def after_scenario(ctx, s): raise RuntimeError('x')\n",
        "testrun cleanup raises": (
            "def bad(): raise ValueError('bad')\n"
            "def before_all(ctx): ctx.add_cleanup(bad)\n"),
    }
    env = dict(os.environ)
    env["PYTHONPATH"] = "/tmp/wtW/C01"
    env["PYTHONDONTWRITEBYTECODE"] = "1"
    for env_name in sorted(environments):
        with open(environment, "w") as f:
            f.write(environments[env_name])
        for variant in sorted(variants):
            with open(os.path.join(workdir, "features", "a.feature"), "w") as f:
                f.write("Feature: A\n  Scenario: A1\n    %s\n"
                        "  Scenario: A2\n    Given a passing step\n" % variants[variant])
            with open(os.path.join(workdir, "features", "b.feature"), "w") as f:
                f.write("Feature: B\n  Scenario: B1\n    Given a passing step\n")
            for options in ([], ["--stop"], ["--dry-run"]):
                if env_name != "none" and options:
                    continue
                command = [sys.executable, "-m", "behave", "--no-color",
                           "-f", "plain", "--no-timings"] + options
                process = subprocess.Popen(command, cwd=workdir, env=env,
                                           stdout=subprocess.PIPE,
                                           stderr=subprocess.STDOUT)
                output = process.communicate()[0].decode("utf-8", "replace")
                out.append("=" * 70)
                out.append("CLI env=%s variant=%s options=%s -> exit code %d" % (
                    env_name, variant, options, process.returncode))
                text = normalize(output).replace(workdir, "<WORKDIR>")
                out.extend("  " + line for line in text.splitlines())


def main():
    out = []
    cases_single_scenario(out)
    cases_multi_feature(out)
    cases_big_feature(out)
    cases_hooks(out)
    cases_cleanups(out)
    cases_command_line(out)
    text = "\n".join(out) + "\n"
    if six.PY2:
        text = text.encode("utf-8")
    sys.stdout.write(text)


if __name__ == "__main__":
    main()
