# -*- coding: utf-8 -*-
"""Equivalence transcript for property C06 (ScenarioOutline expansion)."""
from __future__ import print_function, unicode_literals
import sys
sys.path.insert(0, "/tmp/wtU/C06")
import io
import os
import contextlib
import shutil
import subprocess
import tempfile

from behave import parser
from behave.model import (ScenarioOutline, ScenarioOutlineBuilder, Examples,
                          Table, Row, Step, Tag, Text, Scenario)

OUT = []


def emit(*args):
    OUT.append(" ".join(u"%s" % (a,) for a in args))


def show_exc(label, func, *args, **kwargs):
    buf = io.StringIO()
    try:
        with contextlib.redirect_stdout(buf):
            result = func(*args, **kwargs)
        emit(label, "->", repr(result), "| type:", type(result).__name__,
             "| stdout:", repr(buf.getvalue()))
        return result
    except Exception as e:  # noqa
        emit(label, "-> EXC", type(e).__name__, repr(str(e)),
             "| stdout:", repr(buf.getvalue()))
        return None


def dump_table(table, indent):
    if table is None:
        emit(indent + "table: None")
        return
    emit(indent + "table: line=%r modified=%r headings=%r" %
         (table.line, table.modified, table.headings))
    for row in table.rows:
        emit(indent + "  row line=%r cells=%r headings_shared=%r comments=%r" %
             (row.line, row.cells, row.headings is table.headings, row.comments))


def dump_step(step, indent):
    emit(indent + "step %s|%s| type=%s name=%r line=%r file=%r cls=%s" %
         (step.keyword, step.step_type, type(step.name).__name__, step.name,
          step.line, step.filename, type(step).__name__))
    if step.text is None:
        emit(indent + "  text: None")
    else:
        emit(indent + "  text: %r cls=%s ctype=%r line=%r" %
             (step.text, type(step.text).__name__,
              getattr(step.text, "content_type", None),
              getattr(step.text, "line", None)))
    dump_table(step.table, indent + "  ")
    emit(indent + "  status=%s duration=%r hook_failed=%r" %
         (step.status, step.duration, step.hook_failed))


def dump_scenario(sc, indent="    "):
    emit(indent + "scenario name=%r cls=%s" % (sc.name, type(sc).__name__))
    emit(indent + "  keyword=%r file=%r line=%r location=%s" %
         (sc.keyword, sc.filename, sc.line, sc.location))
    emit(indent + "  tags=%r tagtypes=%r taglines=%r" %
         (sc.tags, [type(t).__name__ for t in sc.tags],
          [getattr(t, "line", None) for t in sc.tags]))
    emit(indent + "  effective_tags=%r" % (sorted(sc.effective_tags),))
    emit(indent + "  description=%r status=%s" % (sc.description, sc.status))
    row = getattr(sc, "_row", None)
    if row is not None:
        emit(indent + "  _row cells=%r id=%r index=%r line=%r" %
             (row.cells, getattr(row, "id", None), getattr(row, "index", None),
              row.line))
    emit(indent + "  parent_is_outline=%r feature=%r background=%r" %
         (isinstance(sc.parent, ScenarioOutline),
          getattr(sc.feature, "name", None),
          getattr(sc.background, "name", None)))
    bsteps = sc._background_steps  # pylint: disable=protected-access
    if bsteps is None:
        emit(indent + "  own background_steps: None")
    else:
        emit(indent + "  own background_steps:")
        for st in bsteps:
            dump_step(st, indent + "    ")
    emit(indent + "  background_steps(eff):")
    for st in sc.background_steps:
        dump_step(st, indent + "    ")
    emit(indent + "  steps:")
    for st in sc.steps:
        dump_step(st, indent + "    ")


def dump_outline_template(outline, indent="  "):
    emit(indent + "TEMPLATE name=%r tags=%r line=%r" %
         (outline.name, outline.tags, outline.line))
    for st in outline.steps:
        dump_step(st, indent + "  ")
    for ex in outline.examples:
        emit(indent + "  examples name=%r tags=%r line=%r index=%r" %
             (ex.name, ex.tags, ex.line, ex.index))
        dump_table(ex.table, indent + "    ")
        if ex.table is not None:
            for row in ex.table.rows:
                emit(indent + "      row.id=%r row.index=%r" %
                     (getattr(row, "id", None), getattr(row, "index", None)))


def outlines_of(feature):
    for so in feature.iter_scenario_outlines():
        yield so
    for rule in feature.rules:
        for so in rule.iter_scenario_outlines() if hasattr(rule, "iter_scenario_outlines") else []:
            yield so


def expand_and_dump(title, text, schema=None, filename="x.feature"):
    emit("=" * 70)
    emit("FEATURE-CASE:", title, "schema=%r" % (schema,))
    try:
        feature = parser.parse_feature(text, filename=filename)
    except Exception as e:  # noqa
        emit("  PARSE EXC", type(e).__name__, repr(str(e)))
        return None
    for outline in outlines_of(feature):
        if schema is not None:
            outline.annotation_schema = schema
        emit("  -- outline %r: before" % outline.name)
        dump_outline_template(outline)
        emit("  _scenarios before=%r modified=%r expected=%r" %
             (outline._scenarios, outline._is_any_example_table_modified(),
              outline._expected_scenarios_count()))
        buf = io.StringIO()
        try:
            with contextlib.redirect_stdout(buf):
                scenarios = outline.scenarios
        except Exception as e:  # noqa
            emit("  EXPAND EXC", type(e).__name__, repr(str(e)),
                 "stdout:", repr(buf.getvalue()))
            continue
        emit("  stdout:", repr(buf.getvalue()))
        emit("  count=%d cached_same=%r iter_same=%r modified_after=%r" %
             (len(scenarios), outline.scenarios is scenarios,
              [s is t for s, t in zip(list(iter(outline)), scenarios)],
              outline._is_any_example_table_modified()))
        for sc in scenarios:
            dump_scenario(sc)
        emit("  -- outline %r: after (template must be unchanged)" % outline.name)
        dump_outline_template(outline)
        emit("  outline.effective_tags=%r" % (sorted(outline.effective_tags),))
    return feature


# ---------------------------------------------------------------------------
# PART 1: parsed features
# ---------------------------------------------------------------------------
F1 = u'''
@feature_tag
Feature: Outline basics

  Background: Prepare <user>
    Given a common setup
    And a background for "<user>"

  @so_tag @user.<user> @size.<size> @unknown.<nope> @plain
  Scenario Outline: Login <user> with <size> -- <missing>
    Some description <user>
    second line
    Given a user "<user>" and <size>
    When the text is
      """
      Hello <user>, your size is <size>.
      <user><user> <missing> plain
      """
    And the table is
      | name   | <size> | note         |
      | <user> | x      | <user>-<size>|
      | plain  | <nope> |              |
    Then "<size>" is not <Size> nor < user >

    @ex1 @first.<user>
    Examples: First <user>
      | user  | size |
      | Alice | 10   |
      | Bob   |      |

    # comment
    @ex2
    Examples: Second
      | size | user        |
      | XL   | Zoë Ünicode |
      | <user> | <size>    |
      | a b  | Ch<ar>lie   |

    Examples: Empty
      | user | size |

    Examples:
      | user | size | extra |
      | Dan  | 1    | <user> |
'''

F2 = u'''
Feature: No placeholders
  Scenario Outline: Plain name
    Given a plain step
    When another < step > with lone > and <
      """
      doc without placeholders > <
      """
    Then a table
      | a | b |
      | 1 | 2 |

    Examples:
      | col |
      | v1  |
      | v2  |
      | v1  |
'''

F3 = u'''
Feature: Templates
  @t1
  Scenario Template: T <a>-<b>-<a>
    Given <a><b> and <b><a>
    Examples: E<b>
      | a   | b   |
      | <b> | <a> |
      | b   | a   |
      | <a> | x   |

  Scenario Outline: No examples at all <a>
    Given step <a>

  Scenario Outline: Second <row.id> <examples.name> <examples.index> <row.index>
    Given step <x> <row.id> <examples.index>.<row.index> in <examples.name>
      """
      text <row.id> <x>
      """
    @tag.<row.id> @e.<examples.index> @r.<row.index> @n.<examples.name> @x.<x>
    Examples: Name With Space
      | x  |
      | 1  |
      | 2  |
    Examples: Other_<x>
      | x  |
      | \\| |
'''

F4 = u'''
Feature: Rule feature
  Background: FB
    Given fb <p>

  Rule: R1
    Background: RB
      Given rb <p> step

    @r.<p>
    Scenario Outline: In rule <p>
      Given inner <p>
      Examples:
        | p |
        | 1 |
        | 2 |
'''

F5 = u'''
Feature: Examples without table
  Scenario Outline: NT <a>
    Given step <a>
    Examples: First
      | a |
      | 1 |
    Examples: No table here
    Examples: Third
      | a |
      | 3 |
'''

SCHEMAS = [
    None,
    u"{name} -- @{row.id} {examples.name}",
    u"{name} -*- {examples.name}@{row.id}",
    u"{name}",
    u"{name} {examples.index}/{row.index} [{examples.id}|{row.name}]",
    u"constant",
    u"{name} {unknown}",
    u"{name} {row.nope}",
]

for schema in SCHEMAS:
    expand_and_dump("F1", F1, schema)
for title, text in (("F2", F2), ("F3", F3), ("F4", F4), ("F5", F5)):
    expand_and_dump(title, text)
    expand_and_dump(title, text, u"{name} -*- {examples.name}@{row.id}", filename="dir/y.feature")

# ---------------------------------------------------------------------------
# PART 2: rebuild after table API modification, cache behaviour
# ---------------------------------------------------------------------------
emit("=" * 70)
emit("PART 2: table API / cache")


def names(scs):
    return [(s.name, s.line, list(s.tags), [st.name for st in s.steps]) for s in scs]


feature = parser.parse_feature(F1, filename="m.feature")
outline = next(iter(feature.iter_scenario_outlines()))
s1 = outline.scenarios
emit("initial", names(s1))
emit("same again", outline.scenarios is s1)
ex0, ex1, ex2, ex3 = outline.examples
ex0.table.add_row([u"Carol", u"7"])
emit("modified flags", [e.table.modified for e in outline.examples])
s2 = outline.scenarios
emit("after add_row rebuilt new list:", s2 is not s1, len(s2))
emit("after add_row", names(s2))
emit("flags", [e.table.modified for e in outline.examples])
ex2.table.add_row([u"Eve", u"<size>"], line=99)
ex1.table.add_column(u"missing", values=[u"M1", u"M2"], default_value=u"dflt")
s3 = outline.scenarios
emit("after add_column", names(s3))
for sc in s3:
    dump_scenario(sc)
ex1.table.remove_column(u"missing")
emit("after remove_column", names(outline.scenarios))
ex3.table.clear()
emit("after clear", names(outline.scenarios))
ex3.table.modified = True
s5 = outline.scenarios
emit("forced modified -> new list", s5 is not s3, names(s5))
outline.examples.append(Examples("m.feature", 200, u"Examples", u"Late",
                                 tags=[Tag(u"late", 199)],
                                 table=Table([u"user", u"size"],
                                             rows=[[u"L1", u"1"], [u"L2", u"2"]], line=201)))
emit("appended examples", names(outline.scenarios))
outline.examples.append(Examples("m.feature", 300, u"Examples", u"NoTable"))
show_exc("with no-table example flags", lambda: outline._is_any_example_table_modified())
show_exc("expected count", lambda: outline._expected_scenarios_count())
outline.examples[0].table.modified = True
show_exc("rebuild with no-table", lambda: names(outline.scenarios))
dump_outline_template(outline)
outline.reset()
emit("after reset same list", outline.scenarios is outline._scenarios,
     [s.status.name for s in outline.scenarios])
emit("outline status", outline.status, outline.compute_status(), outline.duration)

# outline without examples
so = ScenarioOutline("f", 1, u"Scenario Outline", u"Empty <a>")
emit("no examples:", so.scenarios, so._scenarios, so._is_any_example_table_modified(),
     so._expected_scenarios_count(), list(iter(so)))
so2 = ScenarioOutline("f", 1, u"Scenario Outline", u"X <a>", examples=[
    Examples("f", 2, u"Examples", u"", table=None)])
show_exc("only no-table:", lambda: (so2.scenarios, so2._expected_scenarios_count()))

# ---------------------------------------------------------------------------
# PART 3: direct builder API
# ---------------------------------------------------------------------------
emit("=" * 70)
emit("PART 3: builder API")
B = ScenarioOutlineBuilder
row = Row([u"a", u"b", u"c"], [u"1", u"<c>", u"3"], line=5)
empty_row = Row([], [])
texts = [u"", u"plain", u"<a>", u"<a", u"a>", u"> <", u"<a><b><c>", u"<b> <c>",
         u"<p><a>", u"<A>", u"< a >", u"<<a>>", u"<row.id>", u"<a>" * 3, Text(u"T <a>", line=4)]
providers = [
    (None, None), (row, None), (None, {u"p": u"P"}), (row, {u"p": u"<a>", u"a": u"Z"}),
    (empty_row, {u"a": u"E"}), (row, {}), ({}, {}), ({u"a": u"<p>"}, {u"p": u"<a>"}),
    ({u"a": 5}, None), (row, {u"p": None}), ([(u"a", u"1")], None), (5, None),
]
for t in texts:
    for r, p in providers:
        show_exc("render(%r,%r,%r)" % (t, r, p), B.render_template, t, r, p)
show_exc("render(None)", B.render_template, None, row)
show_exc("render(5)", B.render_template, 5, row)
show_exc("render(bytes)", B.render_template, b"<a>", row)
show_exc("render default", B.render_template, u"<a>")

for tags in (None, [], (), [u"plain"], [u"<a>", u"x.<b>", u"<c>.<zz>", u"sp ace<a>", u"a\\tb<a>",
                                     u"q'<a>\"", u"<a", u"a>", u"><", Tag(u"t<a>", 3)], [5], u"<a>"):
    for r, p in ((row, None), (row, {u"zz": u"Q"}), (None, None), (empty_row, {})):
        res = show_exc("make_row_tags(%r,%r,%r)" % (tags, r, p), B.make_row_tags, tags, r, p)
        if res:
            emit("   types", [type(t).__name__ for t in res])
for tag in (u"", u"<", u">", u"<>", u"><", u"a<b>c", None, 5):
    show_exc("is_parametrized_tag(%r)" % (tag,), B.is_parametrized_tag, tag)

# make_step_for_row, incl. shared cell lists and heading placeholders
shared = [u"<a>", u"<b>", u"x"]
table = Table([u"h<a>", u"<b>", u"k"], rows=[shared, shared, [u"<c>", u"<a><b>", u""]], line=10)
step = Step("f", 9, u"Given", "given", u"s <a> <p>", text=Text(u"doc <b> <p>", line=9), table=table)
for r, p in ((row, None), (row, {u"p": u"PP"}), (Row([u"a", u"b"], [u"<b>", u"<a>x"]), None),
             (empty_row, None), ({u"a": u"D"}, {u"p": u"<a>"})):
    new = show_exc("make_step_for_row %r %r" % (r, p), lambda: B.make_step_for_row(step, r, p))
    if new is not None:
        dump_step(new, "   ")
        emit("   new is step:", new is step, "table copied:", new.table is not step.table,
             "rows share cells:", new.table.rows[0].cells is new.table.rows[1].cells,
             "headings shared:", all(rw.headings is new.table.headings for rw in new.table.rows))
    emit("   original:")
    dump_step(step, "   ")
plain_step = Step("f", 9, u"When", "when", u"no table <a>", text=u"", table=None)
new = B.make_step_for_row(plain_step, row)
dump_step(new, "   ")
show_exc("make_step_for_row(None row w/ table)", lambda: B.make_step_for_row(step, None))
show_exc("make_step_for_row(None row w/o table)", lambda: B.make_step_for_row(plain_step, None).name)
show_exc("make_step_for_row(bad value)", lambda: B.make_step_for_row(step, {u"a": 1}))
show_exc("has_parametrized_steps", lambda: (B.has_parametrized_steps([plain_step]),
                                            B.has_parametrized_steps([]),
                                            B.has_parametrized_steps([Step("f", 1, u"G", "given", u"x")])))
show_exc("is_parametrized_step(non-step)", B.is_parametrized_step, "x")

# build_scenarios direct, with params visible in names
for schema in (None, u"{name}|{examples.name}|{row.id}|{examples.index}|{row.index}"):
    builder = B(schema)
    emit("builder schema", builder.annotation_schema)
    feature = parser.parse_feature(F3, filename="b.feature")
    for so in feature.iter_scenario_outlines():
        res = show_exc("build_scenarios(%s)" % so.name, lambda: names(builder.build_scenarios(so)))
        res2 = show_exc("build_scenarios again(%s)" % so.name, lambda: names(builder.build_scenarios(so)))
        emit("  deterministic:", res == res2)
        emit("  flags", [e.table.modified for e in so.examples if e.table is not None],
             "ids", [[(r.id, r.index) for r in e.table] for e in so.examples if e.table is not None],
             "ex.index", [e.index for e in so.examples])
feature = parser.parse_feature(F5, filename="b.feature")
so = next(iter(feature.iter_scenario_outlines()))
show_exc("build_scenarios F5", lambda: names(B().build_scenarios(so)))
emit("  flags", [getattr(e.table, "modified", None) for e in so.examples], [e.index for e in so.examples])
# failing row in the middle: exception propagates, flags stay
feature = parser.parse_feature(F2, filename="b.feature")
so = next(iter(feature.iter_scenario_outlines()))
so.examples[0].table.rows[1].cells[0] = 7
so.name = u"N <col>"
show_exc("build_scenarios bad cell", lambda: names(B().build_scenarios(so)))
emit("  flags", [e.table.modified for e in so.examples], [e.index for e in so.examples],
     [(getattr(r, "id", None), getattr(r, "index", None)) for r in so.examples[0].table])
show_exc("scenarios bad cell", lambda: so.scenarios)
emit("  _scenarios", so._scenarios)
show_exc("make_scenario_name params=None",
         lambda: B().make_scenario_name(u"N <a> <row.id>", so.examples[0], Row([u"a"], [u"v"]), None))
ex = so.examples[0]
r0 = ex.table.rows[0]
p = {}
show_exc("make_scenario_name params={}", lambda: B(u"{name}/{examples.name}").make_scenario_name(
    u"N <col> <row.id> <examples.index>", ex, r0, p))
emit("  params after:", sorted((k, repr(v)) for k, v in p.items()))

# ---------------------------------------------------------------------------
# PART 4: run through the behave command line (dry-run + real run)
# ---------------------------------------------------------------------------
emit("=" * 70)
emit("PART 4: python -m behave")
tmp = tempfile.mkdtemp(prefix="c06eq_")
try:
    os.makedirs(os.path.join(tmp, "features", "steps"))
    with io.open(os.path.join(tmp, "features", "o.feature"), "w", encoding="utf-8") as f:
        f.write(F1)
    with io.open(os.path.join(tmp, "features", "p.feature"), "w", encoding="utf-8") as f:
        f.write(F3)
    with io.open(os.path.join(tmp, "features", "q.feature"), "w", encoding="utf-8") as f:
        f.write(F5)
    with io.open(os.path.join(tmp, "features", "steps", "s.py"), "w", encoding="utf-8") as f:
        f.write(u'''
from behave import step
@step(u'{anything}')
def step_any(context, anything):
    print("STEP:", anything, "| text:", repr(context.text), "| table:",
          context.table and (context.table.headings, [r.cells for r in context.table]))
    assert "Bob" not in anything
''')
    with io.open(os.path.join(tmp, "features", "environment.py"), "w", encoding="utf-8") as f:
        f.write(u'''
from __future__ import print_function
def before_scenario(context, scenario):
    print("HOOK before_scenario", scenario.name, scenario.line, list(scenario.tags))
def before_tag(context, tag):
    print("HOOK tag", tag)
''')
    env = dict(os.environ)
    env["PYTHONPATH"] = "/tmp/wtU/C06"
    env["PYTHONIOENCODING"] = "utf-8"
    env.pop("BEHAVE_ARGS", None)
    for args in (["-f", "plain", "--no-timings", "--no-capture"],
                 ["-f", "plain", "--no-timings", "--dry-run"],
                 ["-f", "json.pretty", "--no-timings", "--dry-run", "--no-summary"],
                 ["-f", "plain", "--no-timings", "--tags=ex2", "--no-capture"],
                 ["-f", "plain", "--no-timings", "--tags=user.Alice", "--no-capture"],
                 ["-f", "plain", "--no-timings", "-n", "Zoë", "--no-capture"],
                 ["-f", "pretty", "--no-color", "--no-timings", "--no-capture", "features/o.feature:29"],
                 ["-f", "steps.usage", "--dry-run", "--no-timings"],
                 ["-f", "tags.location", "--dry-run"],
                 "INI",
                 ["-f", "plain", "--no-timings", "--dry-run"],
                 ["-f", "plain", "--no-timings", "--no-capture", "--tags=ex1"],
                 ):
        if args == "INI":
            with io.open(os.path.join(tmp, "behave.ini"), "w", encoding="utf-8") as f:
                f.write(u"[behave]\nscenario_outline_annotation_schema = {name} [{row.id}/{examples.name}]\n")
            emit("-- behave.ini with annotation schema written")
            continue
        proc = subprocess.Popen([sys.executable, "-m", "behave"] + args, cwd=tmp, env=env,
                                stdout=subprocess.PIPE, stderr=subprocess.STDOUT)
        out = proc.communicate()[0].decode("utf-8", "replace")
        out = out.replace(tmp, "<TMP>")
        import re
        out = re.sub(r"Took \S+", "Took X", out)
        out = re.sub(r'(File "[^"]*behave/[^"]*", line )\d+', r'\1N', out)
        out = re.sub(r'"duration": [0-9.e-]+', '"duration": X', out)
        emit("$ behave", " ".join(args), "-> rc", proc.returncode)
        emit(out)
finally:
    shutil.rmtree(tmp, ignore_errors=True)

text = u"\n".join(OUT) + u"\n"
if hasattr(sys.stdout, "buffer"):
    sys.stdout.buffer.write(text.encode("utf-8"))
else:
    sys.stdout.write(text.encode("utf-8"))
