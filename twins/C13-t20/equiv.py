# -*- coding: UTF-8 -*-
"""
Equivalence transcript for property C13 (context scoping and cleanups).

Prints a canonical transcript of what is observable through the public
behaviour of behave.runner.Context, behave.fixture and real behave runs:

  PART 1: operation histories on a Context (exhaustive up to length 3,
          random beyond) with raising cleanups, fixtures, modes, warnings
  PART 2: targeted cleanup scenarios (cleanups that register / remove cleanups
          while the layer is cleaned up, error handlers, layer= addressing)
  PART 3: Context.execute_steps() in-process (text/table restore, messages)
  PART 4: real "python -m behave" runs (subprocess) with hooks at every level
          that set attributes and register cleanups; any subset may raise.

File names are reduced to their basename, line numbers, source lines of
tracebacks, object addresses and durations are normalized.
"""

from __future__ import print_function
import sys
WORKTREE = "/tmp/wtW/C13"
sys.path.insert(0, WORKTREE)

import hashlib
import io
import itertools
import os
import random
import re
import shutil
import subprocess
import tempfile
import textwrap
import warnings

import behave
assert behave.__file__.startswith(WORKTREE), behave.__file__
from behave.runner import Context, ContextMaskWarning, scoped_context_layer
from behave.fixture import (
    fixture, use_fixture, use_fixture_by_tag, use_composite_fixture_with,
    fixture_call_params, InvalidFixtureError)


# ---------------------------------------------------------------------------
# NORMALIZATION
# ---------------------------------------------------------------------------
_FILE_LINE = re.compile(r'^(\s*)File "([^"]*)", line \d+, in (\S+)\s*$')


def normalize_text(text):
    """Normalize traceback details, addresses, durations."""
    out = []
    skip_source = False
    frame_indent = 0
    for line in text.splitlines():
        mo = _FILE_LINE.match(line)
        if mo:
            frame_indent = len(mo.group(1))
            out.append("%sFile %s, in %s" % (mo.group(1),
                       os.path.basename(mo.group(2)), mo.group(3)))
            skip_source = True
            continue
        if skip_source:
            indent = len(line) - len(line.lstrip())
            if line.strip() and indent > frame_indent:
                continue        # -- source line or ^^^^ marker of a frame
            skip_source = False
        line = re.sub(r"0x[0-9a-fA-F]+", "0xADDR", line)
        line = re.sub(r"\b\d+m\d+\.\d+s\b", "TIME", line)
        line = re.sub(r"\b\d+\.\d+s\b", "TIME", line)
        line = re.sub(r"/tmp/[A-Za-z0-9_./-]*equiv_c13_[A-Za-z0-9_]+", "<WORKDIR>", line)
        out.append(line)
    return "\n".join(out)


def describe_exception(e):
    return "%s: %s" % (e.__class__.__name__, normalize_text(str(e)))


# ---------------------------------------------------------------------------
# PART 1: OPERATION HISTORIES
# ---------------------------------------------------------------------------
class StubConfig(object):
    def __init__(self, verbose=False):
        self.verbose = verbose


class StubRunner(object):
    def __init__(self, verbose=False):
        self.config = StubConfig(verbose)
        self.formatters = []
        self.captured = None
        self.aborted = False


NAMES = ["alpha", "beta", "tags"]
LAYERS = ["feature", "rule", "scenario"]


class World(object):
    """Interprets operations on a context and records observations."""

    def __init__(self, verbose=False, warnings_as_errors=False):
        self.runner = StubRunner(verbose)
        self.context = Context(self.runner)
        self.log = []
        self.counter = 0
        self.warnings_as_errors = warnings_as_errors

    # -- CLEANUP / FIXTURE FACTORIES
    def make_cleanup(self, name, raises=False, adds=None, with_args=False):
        log = self.log
        context = self.context

        def cleanup(*args, **kwargs):
            if with_args:
                log.append("cleanup:%s args=%r kwargs=%r" %
                           (name, args, sorted(kwargs.items())))
            else:
                log.append("cleanup:%s" % name)
            if adds:
                context.add_cleanup(self.make_cleanup(name + "+" + adds))
            if raises:
                raise RuntimeError("boom-%s" % name)
        cleanup.__name__ = "cleanup_%s" % name
        return cleanup

    def make_fixture(self, name, kind):
        log = self.log

        if kind == "generator":
            @fixture
            def the_fixture(context, *args, **kwargs):
                log.append("fixture-setup:%s %r %r" % (name, args, sorted(kwargs.items())))
                setattr(context, "fx_" + name, name)
                yield "value-" + name
                log.append("fixture-cleanup:%s" % name)
        elif kind == "generator_bad_setup":
            @fixture
            def the_fixture(context, *args, **kwargs):
                log.append("fixture-setup:%s (fails)" % name)
                raise ValueError("setup-failed-%s" % name)
                yield "unreachable"     # pylint: disable=unreachable
        elif kind == "generator_bad_cleanup":
            @fixture
            def the_fixture(context, *args, **kwargs):
                log.append("fixture-setup:%s" % name)
                yield "value-" + name
                log.append("fixture-cleanup:%s (fails)" % name)
                raise KeyError("cleanup-failed-%s" % name)
        elif kind == "generator_two_yields":
            @fixture
            def the_fixture(context, *args, **kwargs):
                log.append("fixture-setup:%s" % name)
                yield "value-" + name
                log.append("fixture-cleanup1:%s" % name)
                yield "second-" + name
                log.append("fixture-cleanup2:%s" % name)
        elif kind == "generator_no_yield":
            @fixture
            def the_fixture(context, *args, **kwargs):
                log.append("fixture-setup:%s (no yield)" % name)
                if args == ("never",):
                    yield "unreachable"
        else:
            assert kind == "plain"
            @fixture(name="fixture." + name)
            def the_fixture(context, *args, **kwargs):
                log.append("fixture-call:%s %r %r" % (name, args, sorted(kwargs.items())))
                context.add_cleanup(self.make_cleanup("plainfx-" + name))
                return "plain-" + name
        the_fixture.__name__ = "fixture_%s_%s" % (kind, name)
        return the_fixture

    def on_cleanup_error(self, context, cleanup_func, exception):
        self.log.append("on_cleanup_error:%s %s" % (
            getattr(cleanup_func, "__name__", "?"), describe_exception(exception)))

    # -- OPERATIONS
    def apply(self, op):
        context = self.context
        kind = op[0]
        self.counter += 1
        n = self.counter
        if kind == "push":
            return context._push(op[1])
        elif kind == "pop":
            return context._pop()
        elif kind == "set":
            _, name, user_mode = op
            value = "%s#%d" % (name, n)
            if user_mode:
                with context.use_with_user_mode():
                    setattr(context, name, value)
            else:
                setattr(context, name, value)
            return value
        elif kind == "get":
            return getattr(context, op[1])
        elif kind == "del":
            return delattr(context, op[1])
        elif kind == "contains":
            return op[1] in context
        elif kind == "set_root":
            _, name, user_mode = op
            value = "root-%s#%d" % (name, n)
            if user_mode:
                with context.use_with_user_mode():
                    context._set_root_attribute(name, value)
            else:
                context._set_root_attribute(name, value)
            return value
        elif kind == "use_or_assign":
            return context.use_or_assign_param(op[1], "assigned#%d" % n)
        elif kind == "use_or_create":
            return context.use_or_create_param(
                op[1], lambda *a, **k: "created#%d%r%r" % (n, a, sorted(k.items())),
                1, two=2)
        elif kind == "add_cleanup":
            _, raises, variant = op
            name = "c%d" % n
            if variant == "plain":
                return context.add_cleanup(self.make_cleanup(name, raises))
            elif variant == "args":
                return context.add_cleanup(
                    self.make_cleanup(name, raises, with_args=True), 1, "two", key=n)
            elif variant == "adds":
                return context.add_cleanup(self.make_cleanup(name, raises, adds="x"))
            elif variant == "twice":
                func = self.make_cleanup(name, raises)
                context.add_cleanup(func)
                return context.add_cleanup(func)
            else:
                return context.add_cleanup(
                    self.make_cleanup(name + "@" + variant, raises), layer=variant)
        elif kind == "use_fixture":
            _, fixture_kind = op
            name = "f%d" % n
            if fixture_kind == "composite":
                return use_composite_fixture_with(context, [
                    fixture_call_params(self.make_fixture(name + "a", "generator"), 1, x=2),
                    fixture_call_params(self.make_fixture(name + "b", "plain")),
                    fixture_call_params(self.make_fixture(name + "c", "generator_bad_setup")),
                    fixture_call_params(self.make_fixture(name + "d", "generator")),
                ])
            elif fixture_kind == "composite_ok":
                return use_composite_fixture_with(context, [
                    fixture_call_params(self.make_fixture(name + "a", "generator"), 1, x=2),
                    fixture_call_params(self.make_fixture(name + "b", "generator_bad_cleanup")),
                    fixture_call_params(self.make_fixture(name + "c", "plain"), "p"),
                ])
            elif fixture_kind == "by_tag":
                registry = {
                    "fixture.one": self.make_fixture(name + "one", "generator"),
                    "fixture.two": (self.make_fixture(name + "two", "generator"),
                                    ("a", "b"), dict(timeout=3)),
                    "fixture.bad": 42,
                }
                results = []
                for tag in ("fixture.one", "fixture.two", "fixture.bad", "fixture.unknown"):
                    try:
                        results.append(use_fixture_by_tag(tag, context, registry))
                    except Exception as e:  # pylint: disable=broad-except
                        results.append(describe_exception(e))
                return results
            return use_fixture(self.make_fixture(name, fixture_kind), context, "arg", kw=n)
        elif kind == "handler":
            if op[1]:
                context.on_cleanup_error = self.on_cleanup_error
            else:
                context.on_cleanup_error = Context.ignore_cleanup_error
            return None
        elif kind == "no_fail":
            context.fail_on_cleanup_errors = op[1]
            return None
        elif kind == "scoped":
            with scoped_context_layer(context, op[1]) as ctx:
                ctx.add_cleanup(self.make_cleanup("scoped%d" % n, op[2]))
                ctx.beta = "scoped-beta#%d" % n
                return "inside:%r" % (ctx.beta,)
        raise ValueError(op)

    def snapshot(self):
        context = self.context
        parts = []
        for name in NAMES + ["on_cleanup_error", "fail_on_cleanup_errors", "failed"]:
            present = name in context
            value = getattr(context, name, "<missing>")
            if callable(value):
                value = getattr(value, "__name__", "callable")
            parts.append("%s=%s/%r" % (name, int(present), value))
        stack = context._stack
        layers = ["%s:%d" % (frame.get("@layer"), len(frame.get("@cleanups", ())))
                  for frame in stack]
        parts.append("stack=[%s]" % ",".join(layers))
        parts.append("errors=%s" % context._root.get("cleanup_errors"))
        parts.append("mode=%s" % context._mode.name)
        return " ".join(parts)

    def run(self, ops):
        lines = []
        for op in ops:
            log_mark = len(self.log)
            stdout = io.StringIO()
            saved_stdout = sys.stdout
            sys.stdout = stdout
            try:
                with warnings.catch_warnings(record=True) as caught:
                    warnings.simplefilter("always")
                    if self.warnings_as_errors:
                        warnings.simplefilter("error", ContextMaskWarning)
                    try:
                        result = "-> %r" % (self.apply(op),)
                    except Exception as e:  # pylint: disable=broad-except
                        result = "!! %s" % describe_exception(e)
            finally:
                sys.stdout = saved_stdout
            lines.append("%r %s" % (op, normalize_text(result)))
            for warning in caught:
                lines.append("    warning: %s: %s [%s]" % (
                    warning.category.__name__, warning.message,
                    os.path.basename(warning.filename)))
            for entry in self.log[log_mark:]:
                lines.append("    log: %s" % entry)
            printed = normalize_text(stdout.getvalue())
            for text_line in printed.splitlines():
                lines.append("    out: %s" % text_line)
            lines.append("    now: %s" % self.snapshot())
        return lines


SMALL_OPS = [
    ("push", "feature"), ("push", "scenario"), ("push", None), ("pop",),
    ("set", "alpha", False), ("set", "alpha", True), ("get", "alpha"),
    ("del", "alpha"), ("contains", "alpha"), ("set_root", "alpha", False),
    ("use_or_assign", "alpha"),
    ("add_cleanup", False, "plain"), ("add_cleanup", True, "plain"),
    ("add_cleanup", True, "adds"), ("add_cleanup", False, "testrun"),
    ("add_cleanup", True, "feature"),
    ("use_fixture", "generator"), ("use_fixture", "generator_bad_setup"),
    ("use_fixture", "generator_two_yields"),
]

ALL_OPS = SMALL_OPS + [
    ("push", "rule"), ("pop",), ("pop",),
    ("set", "beta", False), ("set", "beta", True), ("set", "tags", False),
    ("get", "beta"), ("get", "_stack_missing"), ("get", "tags"),
    ("del", "beta"), ("del", "tags"), ("contains", "beta"),
    ("contains", "_mode"), ("contains", "_nope"), ("contains", "@layer"),
    ("set_root", "beta", True), ("set_root", "failed", False),
    ("use_or_assign", "beta"), ("use_or_create", "alpha"), ("use_or_create", "beta"),
    ("add_cleanup", False, "args"), ("add_cleanup", True, "args"),
    ("add_cleanup", False, "adds"), ("add_cleanup", False, "twice"),
    ("add_cleanup", False, "feature"), ("add_cleanup", False, "rule"),
    ("add_cleanup", True, "scenario"), ("add_cleanup", True, "testrun"),
    ("add_cleanup", False, "nolayer"),
    ("use_fixture", "plain"), ("use_fixture", "generator_bad_cleanup"),
    ("use_fixture", "generator_no_yield"), ("use_fixture", "composite"),
    ("use_fixture", "composite_ok"), ("use_fixture", "by_tag"),
    ("handler", True), ("handler", False), ("no_fail", False), ("no_fail", True),
    ("scoped", "scenario", False), ("scoped", None, True),
]


def part1():
    print("=" * 70)
    print("PART 1a: exhaustive histories (length <= 3), digest per first op")
    print("=" * 70)
    for first in SMALL_OPS:
        digest = hashlib.sha1()
        count = 0
        sample = None
        for length in (1, 2, 3):
            for rest in itertools.product(SMALL_OPS, repeat=length - 1):
                ops = (first,) + rest + (("pop",), ("pop",), ("pop",))
                world = World(verbose=(count % 2 == 0))
                lines = world.run(ops)
                digest.update("\n".join(lines).encode("utf-8"))
                count += 1
                if count == 25:
                    sample = lines
        print("%r: histories=%d sha1=%s" % (first, count, digest.hexdigest()))
        if sample:
            for line in sample:
                print("  | " + line)

    print("=" * 70)
    print("PART 1b: random histories (full transcript)")
    print("=" * 70)
    rng = random.Random(20260927)
    for number in range(160):
        length = rng.randint(6, 30)
        ops = [rng.choice(ALL_OPS) for _ in range(length)]
        # -- ENSURE: some depth at the beginning, full unwinding at the end.
        if number % 3:
            ops[0:0] = [("push", "feature"), ("push", "scenario")]
        ops.extend([("pop",)] * 4)
        world = World(verbose=bool(number % 2), warnings_as_errors=(number % 7 == 3))
        print("-- history %d (verbose=%s, warnings_as_errors=%s)" %
              (number, bool(number % 2), number % 7 == 3))
        for line in world.run(ops):
            print(line)


# ---------------------------------------------------------------------------
# PART 2: TARGETED CLEANUP SCENARIOS
# ---------------------------------------------------------------------------
def run_and_report(title, func):
    log = []
    stdout = io.StringIO()
    saved_stdout = sys.stdout
    sys.stdout = stdout
    try:
        with warnings.catch_warnings(record=True) as caught:
            warnings.simplefilter("always")
            try:
                outcome = "-> %r" % (func(log),)
            except BaseException as e:  # pylint: disable=broad-except
                outcome = "!! %s" % describe_exception(e)
    finally:
        sys.stdout = saved_stdout
    print("-- %s" % title)
    print("   %s" % normalize_text(outcome))
    for entry in log:
        print("   log: %s" % (entry,))
    for warning in caught:
        print("   warning: %s: %s" % (warning.category.__name__, warning.message))
    for line in normalize_text(stdout.getvalue()).splitlines():
        print("   out: %s" % line)


def part2():
    print("=" * 70)
    print("PART 2: targeted cleanup scenarios")
    print("=" * 70)

    def named(log, name, error=None, action=None):
        def func():
            log.append("call:%s" % name)
            if action:
                action()
            if error:
                raise error
        func.__name__ = name
        return func

    for count in range(0, 7):
        for raising in sorted(set([(), (0,), (count - 1,), (0, count - 1),
                                   tuple(range(count)), tuple(range(0, count, 2))])):
            if any(index < 0 or index >= count for index in raising):
                continue
            for fail_on_errors in (True, False):
                def scenario(log, count=count, raising=raising, fail_on_errors=fail_on_errors):
                    runner = StubRunner()
                    context = Context(runner)
                    context.fail_on_cleanup_errors = fail_on_errors
                    context._push("feature")
                    for index in range(count):
                        error = None
                        if index in raising:
                            error = [RuntimeError, ValueError, KeyError][index % 3]("E%d" % index)
                        context.add_cleanup(named(log, "f%d" % index, error))
                    try:
                        context._pop()
                    finally:
                        log.append("depth=%d errors=%d" % (len(context._stack),
                                                           context._root["cleanup_errors"]))
                    return "popped"
                run_and_report("count=%d raising=%r fail_on_cleanup_errors=%s" %
                               (count, raising, fail_on_errors), scenario)

    def cleanup_registers_cleanups(log):
        context = Context(StubRunner())
        context._push("scenario")
        context.add_cleanup(named(log, "first"))
        context.add_cleanup(named(log, "adder", action=lambda: (
            context.add_cleanup(named(log, "late1")),
            context.add_cleanup(named(log, "late2", RuntimeError("late2"))))))
        context.add_cleanup(named(log, "last"))
        context._pop()
        return len(context._stack)
    run_and_report("cleanup registers more cleanups on the same layer",
                   cleanup_registers_cleanups)

    def cleanup_registers_on_outer(log):
        context = Context(StubRunner())
        context._push("feature")
        context._push("scenario")
        context.add_cleanup(named(log, "inner", action=lambda:
                                  context.add_cleanup(named(log, "moved-to-feature"),
                                                      layer="feature")))
        context._pop()
        log.append("after-inner-pop")
        context._pop()
        return len(context._stack)
    run_and_report("cleanup registers a cleanup on an outer layer", cleanup_registers_on_outer)

    for victim in ("clear", "pop_last", "pop_first", "remove_two"):
        def cleanup_list_shrinks(log, victim=victim):
            context = Context(StubRunner())
            context._push("scenario")
            funcs = context._stack[0]["@cleanups"]

            def shrink():
                if victim == "clear":
                    del funcs[:]
                elif victim == "pop_last":
                    funcs.pop()
                elif victim == "pop_first":
                    funcs.pop(0)
                else:
                    del funcs[-2:]
            context.add_cleanup(named(log, "a"))
            context.add_cleanup(named(log, "b"))
            context.add_cleanup(named(log, "c"))
            context.add_cleanup(named(log, "shrinker", action=shrink))
            context.add_cleanup(named(log, "e"))
            context._pop()
            return len(context._stack)
        run_and_report("cleanup shrinks the cleanup list: %s" % victim, cleanup_list_shrinks)

    def handler_variants(log):
        context = Context(StubRunner())

        def handler(ctx, func, exception):
            log.append("handler:%s:%s:%s" % (ctx is context, func.__name__,
                                             describe_exception(exception)))
        context.on_cleanup_error = handler
        context._push("feature")
        context.add_cleanup(named(log, "ok1"))
        context.add_cleanup(named(log, "bad1", ValueError("bad1")))
        context._push("scenario")
        context.on_cleanup_error = Context.ignore_cleanup_error
        context.add_cleanup(named(log, "bad2", KeyError("bad2")))
        context.add_cleanup(named(log, "bad3", IndexError("bad3")))
        for _ in range(2):
            try:
                context._pop()
            except Exception as e:  # pylint: disable=broad-except
                log.append("pop raised %s" % describe_exception(e))
        log.append("errors=%d" % context._root["cleanup_errors"])
        return len(context._stack)
    run_and_report("error handlers per layer", handler_variants)

    def raising_handler(log):
        context = Context(StubRunner())

        def handler(ctx, func, exception):
            log.append("handler-raises-for:%s" % func.__name__)
            raise OSError("handler failed for %s" % func.__name__)
        context._push("scenario")
        context.on_cleanup_error = handler
        context.add_cleanup(named(log, "c1"))
        context.add_cleanup(named(log, "c2", ValueError("c2")))
        context.add_cleanup(named(log, "c3"))
        try:
            context._pop()
        finally:
            log.append("depth=%d errors=%d" % (len(context._stack),
                                               context._root["cleanup_errors"]))
    run_and_report("error handler raises itself", raising_handler)

    def default_handler_output(log):
        context = Context(StubRunner())
        context._push("scenario")

        class CallableObject(object):
            def __call__(self):
                log.append("call:object")
                raise RuntimeError("from callable object")

            def __repr__(self):
                return "<CallableObject>"
        context.add_cleanup(named(log, "plain_error", ZeroDivisionError("div")))
        context.add_cleanup(CallableObject())
        context.add_cleanup(named(log, "with_args_wrapper"), 1, 2)
        context.add_cleanup(lambda *args: 1 / 0, "x")
        try:
            context._pop()
        finally:
            log.append("depth=%d errors=%d" % (len(context._stack),
                                               context._root["cleanup_errors"]))
    run_and_report("default print_cleanup_error output", default_handler_output)

    def keyboard_interrupt(log):
        context = Context(StubRunner())
        context._push("scenario")
        context.add_cleanup(named(log, "k1"))
        context.add_cleanup(named(log, "k2", KeyboardInterrupt("stop")))
        context.add_cleanup(named(log, "k3"))
        try:
            context._pop()
        finally:
            log.append("depth=%d errors=%d" % (len(context._stack),
                                               context._root["cleanup_errors"]))
    run_and_report("KeyboardInterrupt in cleanup is not collected", keyboard_interrupt)

    def do_cleanups_on_root_twice(log):
        context = Context(StubRunner())
        context.add_cleanup(named(log, "root1"))
        context.add_cleanup(named(log, "root2", RuntimeError("root2")))
        for _ in range(2):
            try:
                context._do_cleanups()
            except Exception as e:  # pylint: disable=broad-except
                log.append("raised %s" % describe_exception(e))
        return len(context._stack)
    run_and_report("_do_cleanups() on the root layer keeps the layer", do_cleanups_on_root_twice)

    def bad_registrations(log):
        context = Context(StubRunner())
        for args, kwargs in [((None,), {}), ((42,), {}), ((len,), {"layer": "scenario"}),
                             ((len,), {"layer": ""}), ((len,), {"layer": "testrun"})]:
            try:
                log.append("add_cleanup%r%r -> %r" % (args, kwargs,
                           context.add_cleanup(*args, **kwargs)))
            except Exception as e:  # pylint: disable=broad-except
                log.append("add_cleanup%r%r !! %s" % (args, kwargs, describe_exception(e)))
        return [getattr(f, "__name__", "?") for f in context._root["@cleanups"]]
    run_and_report("add_cleanup() argument checks", bad_registrations)

    def fixtures_direct(log):
        context = Context(StubRunner())
        results = []

        @fixture
        def good(ctx, *args, **kwargs):
            log.append("setup good %r %r" % (args, sorted(kwargs.items())))
            ctx.good = "GOOD"
            yield ctx.good
            log.append("cleanup good (good in ctx: %s)" % ("good" in ctx))

        @fixture
        def two_yields(ctx):
            log.append("setup two")
            yield 1
            log.append("between")
            yield 2
            log.append("never")

        @fixture
        def bad_cleanup(ctx):
            yield "bc"
            raise LookupError("bad_cleanup")

        @fixture
        def bad_setup(ctx):
            log.append("bad_setup starts")
            raise ValueError("bad_setup")
            yield None      # pylint: disable=unreachable

        @fixture
        def plain(ctx, value=3):
            log.append("plain %r" % value)
            return value * 2

        for layer_fixtures in ([good], [good, two_yields], [two_yields, good],
                               [bad_cleanup, good], [good, bad_setup, plain],
                               [plain, plain], [good, good],
                               [bad_cleanup, two_yields, bad_cleanup]):
            log.append("## %s" % [f.__name__ for f in layer_fixtures])
            context._push("scenario")
            for the_fixture in layer_fixtures:
                try:
                    results.append(use_fixture(the_fixture, context))
                except Exception as e:  # pylint: disable=broad-except
                    results.append(describe_exception(e))
            log.append("registered=%d" % len(context._stack[0]["@cleanups"]))
            try:
                context._pop()
            except Exception as e:  # pylint: disable=broad-except
                log.append("pop raised %s" % describe_exception(e))
            log.append("good visible after pop: %s" % ("good" in context))
        return results
    run_and_report("generator / plain / failing fixtures", fixtures_direct)


# ---------------------------------------------------------------------------
# PART 3: execute_steps() IN-PROCESS
# ---------------------------------------------------------------------------
def part3():
    print("=" * 70)
    print("PART 3: Context.execute_steps()")
    print("=" * 70)
    from behave.configuration import Configuration
    from behave.model import Table
    from behave.parser import Parser
    from behave.runner import ModelRunner
    from behave.step_registry import StepRegistry
    from behave import step_registry as step_registry_module

    seen = []
    registry = StepRegistry()

    def step_passes(context):
        seen.append("passes text=%r table=%r" % (
            context.text, context.table and context.table.headings))

    def step_fails(context):
        seen.append("fails")
        assert False, "XFAIL"

    def step_errors(context):
        seen.append("errors")
        raise RuntimeError("step exploded")

    def step_with_text(context):
        seen.append("text=%r" % (context.text,))

    def step_with_table(context):
        seen.append("table=%r rows=%r" % (
            context.table.headings, [list(row) for row in context.table]))

    def step_nested(context):
        seen.append("nested-before text=%r table=%r" % (
            context.text, context.table and context.table.headings))
        context.execute_steps(u'When a step with text:\n    """\n    inner text\n    """\n'
                              u"Then a step with a table:\n    | x | y |\n    | 1 | 2 |\n")
        seen.append("nested-after text=%r table=%r" % (
            context.text, context.table and context.table.headings))

    def step_nested_failing(context):
        seen.append("nested-failing-before text=%r" % (context.text,))
        try:
            context.execute_steps(u"Given a step passes\nWhen a step fails\nThen a step passes\n")
        finally:
            seen.append("nested-failing-after text=%r" % (context.text,))

    def step_sets_user_attr(context):
        context.user_attr = "set-in-substep"
        seen.append("mode-in-substep=%s" % context._mode.name)

    registry.add_step_definition("step", u"a step passes", step_passes)
    registry.add_step_definition("step", u"a step fails", step_fails)
    registry.add_step_definition("step", u"a step errors", step_errors)
    registry.add_step_definition("step", u"a step with text", step_with_text)
    registry.add_step_definition("step", u"a step with a table", step_with_table)
    registry.add_step_definition("step", u"a nested step", step_nested)
    registry.add_step_definition("step", u"a nested failing step", step_nested_failing)
    registry.add_step_definition("step", u"a step sets a user attribute", step_sets_user_attr)

    config = Configuration(command_args=[], load_config=False)
    config.format = []
    config.reporters = []

    def make_context():
        runner = ModelRunner(config, features=[], step_registry=registry)
        runner.formatters = []
        runner.context = context = Context(runner)
        runner.setup_capture()

        class FakeFeature(object):
            def __init__(self):
                self.parser = Parser()
        context.feature = FakeFeature()
        return runner, context

    documents = [
        ("simple", u"Given a step passes\nThen a step passes\n"),
        ("empty", u""),
        ("failing", u"Given a step passes\nWhen a step fails\nThen a step passes\n"),
        ("failing-first", u"Given a step fails\n"),
        ("error", u"Given a step passes\nWhen a step errors\nThen a step passes\n"),
        ("undefined", u"Given a step passes\nWhen a step is undefined\nThen a step passes\n"),
        ("text", u'Given a step with text:\n    """\n    Lorem ipsum\n    Ipsum lorem\n    """\n'
                 u"Then a step passes\n"),
        ("table", u"Given a step with a table:\n    | Name  | Age |\n    | Alice |  12 |\n"
                  u"    | Bob   |  23 |\nThen a step passes\n"),
        ("nested", u"Given a nested step\nThen a step passes\n"),
        ("nested-failing", u"Given a nested failing step\nThen a step passes\n"),
        ("user-attr", u"Given a step sets a user attribute\n"),
        ("odd-table", u"Given a step passes\n    | unclosed\n  \"\"\"\n"),
        ("not-steps", u"Feature: Oops\n"),
    ]
    originals = [
        (None, None),
        ("<ORIGINAL_TEXT>", "<ORIGINAL_TABLE>"),
        (u"outer text", Table([u"h1", u"h2"], rows=[[u"a", u"b"]])),
    ]
    saved_registry = step_registry_module.registry
    step_registry_module.registry = registry
    try:
        for name, document in documents:
            for original_text, original_table in originals:
                for user_mode in (False, True):
                    del seen[:]
                    runner, context = make_context()
                    context._push("feature")
                    context._push("scenario")
                    context.text = original_text
                    context.table = original_table
                    stdout = io.StringIO()
                    saved_stdout = sys.stdout
                    sys.stdout = stdout
                    try:
                        with warnings.catch_warnings(record=True) as caught:
                            warnings.simplefilter("always")
                            try:
                                if user_mode:
                                    with context.use_with_user_mode():
                                        outcome = "-> %r" % context.execute_steps(document)
                                else:
                                    outcome = "-> %r" % context.execute_steps(document)
                            except Exception as e:  # pylint: disable=broad-except
                                outcome = "!! %s" % describe_exception(e)
                    finally:
                        sys.stdout = saved_stdout
                    table = context.table
                    if isinstance(table, Table):
                        table = "Table%r%r" % (table.headings, [list(r) for r in table])
                    print("-- doc=%s original=(%r,%s) user_mode=%s" % (
                        name, original_text, type(original_table).__name__, user_mode))
                    for line in outcome.splitlines():
                        print("   %s" % line)
                    print("   after: text=%r table=%r mode=%s user_attr=%r" % (
                        context.text, table, context._mode.name,
                        getattr(context, "user_attr", "<missing>")))
                    print("   text/table in scenario frame: %s/%s; parser.variant=%r" % (
                        "text" in context._stack[0], "table" in context._stack[0],
                        getattr(context.feature.parser, "variant", None)))
                    for entry in seen:
                        print("   seen: %s" % entry)
                    for warning in caught:
                        print("   warning: %s: %s" % (warning.category.__name__,
                                                      warning.message))
                    for line in normalize_text(stdout.getvalue()).splitlines():
                        print("   out: %s" % line)

        # -- SPECIAL CASES: preconditions.
        runner, context = make_context()
        for bad in (b"Given a step passes", None, 42):
            try:
                print("execute_steps(%r) -> %r" % (bad, context.execute_steps(bad)))
            except BaseException as e:  # pylint: disable=broad-except
                print("execute_steps(%r) !! %s" % (bad, describe_exception(e)))
        context.feature = None
        try:
            print("no feature -> %r" % context.execute_steps(u"Given a step passes"))
        except BaseException as e:  # pylint: disable=broad-except
            print("no feature !! %s" % describe_exception(e))
    finally:
        step_registry_module.registry = saved_registry


# ---------------------------------------------------------------------------
# PART 4: REAL RUNS
# ---------------------------------------------------------------------------
ENVIRONMENT_PY = u'''
from __future__ import print_function
import os
from behave import fixture, use_fixture
from behave.fixture import use_fixture_by_tag, use_composite_fixture_with, fixture_call_params

RAISING = set(filter(None, os.environ.get("C13_RAISE", "").split(",")))
LOGFILE = os.environ["C13_LOG"]

def log(message):
    with open(LOGFILE, "a") as f:
        f.write(message + "\\n")

def maybe_raise(name):
    if name in RAISING:
        raise RuntimeError("RAISED:" + name)

def make_cleanup(name):
    def cleanup(*args, **kwargs):
        log("cleanup %s%s" % (name, (" args=%r" % (args,)) if args else ""))
        maybe_raise("cleanup." + name)
    cleanup.__name__ = "cleanup_" + name.replace(".", "_").replace(" ", "_")
    return cleanup

@fixture
def fixture_gen(context, label="gen"):
    log("fixture setup %s" % label)
    maybe_raise("fixture.setup." + label)
    context.fixture_value = label
    yield label
    log("fixture cleanup %s (fixture_value=%r)" % (label, getattr(context, "fixture_value", None)))
    maybe_raise("fixture.cleanup." + label)

@fixture
def fixture_two(context):
    log("fixture two setup")
    yield 1
    log("fixture two middle")
    yield 2

@fixture
def fixture_plain(context, label="plain"):
    log("fixture plain %s" % label)
    context.add_cleanup(make_cleanup("plain-fixture." + label), label)
    return label

@fixture
def fixture_composite(context):
    return use_composite_fixture_with(context, [
        fixture_call_params(fixture_gen, "comp1"),
        fixture_call_params(fixture_plain, label="comp2"),
        fixture_call_params(fixture_gen, label="comp3"),
    ])

FIXTURES = {
    "fixture.gen": fixture_gen,
    "fixture.gen2": (fixture_gen, ("gen2",), {}),
    "fixture.two": fixture_two,
    "fixture.plain": (fixture_plain, (), {"label": "tagged"}),
    "fixture.composite": fixture_composite,
}

def visible(context):
    names = ["run_attr", "feature_attr", "rule_attr", "scenario_attr", "step_attr",
             "fixture_value", "shadowed"]
    return " ".join("%s=%r" % (n, getattr(context, n, None)) for n in names)

def before_all(context):
    log("before_all")
    context.run_attr = "run"
    context.shadowed = "from-run"
    context.add_cleanup(make_cleanup("run.1"))
    context.add_cleanup(make_cleanup("run.2"), "arg")
    maybe_raise("before_all")

def before_feature(context, feature):
    log("before_feature %s | %s" % (feature.name, visible(context)))
    context.feature_attr = feature.name
    context.shadowed = "from-feature"
    context.add_cleanup(make_cleanup("feature.1 " + feature.name))
    context.add_cleanup(make_cleanup("feature.2 " + feature.name))
    maybe_raise("before_feature")

def before_rule(context, rule):
    log("before_rule %s | %s" % (rule.name, visible(context)))
    context.rule_attr = rule.name
    context.add_cleanup(make_cleanup("rule.1 " + rule.name))
    context.add_cleanup(make_cleanup("feature-from-rule " + rule.name), layer="feature")
    maybe_raise("before_rule")

def before_tag(context, tag):
    if tag.startswith("fixture."):
        log("before_tag %s" % tag)
        use_fixture_by_tag(tag, context, FIXTURES)

def before_scenario(context, scenario):
    log("before_scenario %s | %s" % (scenario.name, visible(context)))
    context.scenario_attr = scenario.name
    context.shadowed = "from-scenario"
    context.add_cleanup(make_cleanup("scenario.1 " + scenario.name))
    context.add_cleanup(make_cleanup("scenario.2 " + scenario.name))
    context.add_cleanup(make_cleanup("run-from-scenario " + scenario.name), layer="testrun")
    maybe_raise("before_scenario")

def before_step(context, step):
    maybe_raise("before_step")

def after_step(context, step):
    log("after_step %s %s | text=%r table=%r" % (
        step.name, step.status.name, context.text,
        context.table and context.table.headings))

def after_scenario(context, scenario):
    log("after_scenario %s %s | %s" % (scenario.name, scenario.status.name, visible(context)))
    context.add_cleanup(make_cleanup("scenario.late " + scenario.name))
    maybe_raise("after_scenario")

def after_rule(context, rule):
    log("after_rule %s %s | %s" % (rule.name, rule.status.name, visible(context)))
    maybe_raise("after_rule")

def after_feature(context, feature):
    log("after_feature %s %s | %s" % (feature.name, feature.status.name, visible(context)))
    maybe_raise("after_feature")

def after_all(context):
    log("after_all | %s | failed=%r cleanup_errors=%r" % (
        visible(context), context.failed, context._root["cleanup_errors"]))
    context.add_cleanup(make_cleanup("run.late"))
    maybe_raise("after_all")
'''

STEPS_PY = u'''
from __future__ import print_function
import os
from behave import given, when, then, step
import environment_support as support

@step(u'a step passes')
def step_passes(context):
    pass

@step(u'a step fails')
def step_fails(context):
    assert False, "XFAIL-STEP"

@step(u'a step registers cleanup "{name}"')
def step_registers_cleanup(context, name):
    context.step_attr = name
    context.add_cleanup(support.make_cleanup("step." + name))

@step(u'a step registers layer cleanup "{name}" at "{layer}"')
def step_registers_cleanup_for_layer(context, name, layer):
    context.add_cleanup(support.make_cleanup("step." + name), layer=layer)

@step(u'a step shadows "{name}" with "{value}"')
def step_shadows(context, name, value):
    setattr(context, name, value)

@step(u'a step deletes "{name}"')
def step_deletes(context, name):
    delattr(context, name)

@step(u'the context shows')
def step_shows(context):
    support.log("SHOW: " + support.visible(context))

@step(u'a step with text and table executes substeps')
def step_executes(context):
    support.log("outer before: text=%r table=%r" % (
        context.text, context.table and context.table.headings))
    context.execute_steps(u"""
        Given a substep with text
            \\"\\"\\"
            substep text
            \\"\\"\\"
        And a substep with table
            | c1 | c2 |
            | v1 | v2 |
        And a step registers cleanup "from-substep"
    """)
    support.log("outer after: text=%r table=%r" % (
        context.text, context.table and context.table.headings))

@step(u'a step with text executes substeps')
def step_executes2(context):
    step_executes(context)

@step(u'a substep with text')
def substep_text(context):
    support.log("substep text=%r table=%r" % (context.text, context.table))

@step(u'a substep with table')
def substep_table(context):
    support.log("substep text=%r table=%r" % (context.text, context.table.headings))

@step(u'a step executes failing substeps')
def step_executes_failing(context):
    try:
        context.execute_steps(u"Given a step passes\\nWhen a step fails\\nThen a step passes")
    finally:
        support.log("after failing substeps: text=%r table=%r" % (context.text, context.table))

@step(u'a step executes undefined substeps')
def step_executes_undefined(context):
    context.execute_steps(u"Given a step passes\\nWhen a substep is unknown")

@step(u'the value is "{value}"')
def step_value(context, value):
    support.log("outline value=%s | %s" % (value, support.visible(context)))
'''

FEATURE_1 = u'''
@fixture.gen
Feature: Alpha

  Background:
    Given a step registers cleanup "background"

  @fixture.gen2 @fixture.plain
  Scenario: A1 scoping
    Given a step shadows "shadowed" with "from-step"
    And a step shadows "run_attr" with "masked-in-scenario"
    When the context shows
    And a step deletes "step_attr"
    Then the context shows

  Scenario: A2 execute steps
    Given the context shows
    When a step with text and table executes substeps
      """
      outer text
      """
    And a step with text executes substeps
      | o1 | o2 |
      | a  | b  |
    Then a step passes

  Scenario: A3 failing substeps
    Given a step registers cleanup "a3"
    When a step executes failing substeps
      """
      kept text
      """
    Then a step passes

  Scenario: A4 undefined substeps
    When a step executes undefined substeps
    Then a step passes

  @fixture.two
  Scenario: A5 fixture with two yields
    Given a step passes

  @fixture.composite
  Scenario: A6 composite fixture and layers
    Given a step registers layer cleanup "to-feature" at "feature"
    And a step registers layer cleanup "to-testrun" at "testrun"
    And a step registers layer cleanup "to-nowhere" at "rule"
    Then a step passes

  Scenario Outline: A7 outline <value>
    Given a step registers cleanup "outline-<value>"
    Then the value is "<value>"

    Examples:
      | value |
      | one   |
      | two   |
'''

FEATURE_2 = u'''
Feature: Beta

  Rule: R1
    Background:
      Given a step passes

    Scenario: B1 in rule
      Given a step registers cleanup "b1"
      When a step registers layer cleanup "b1-rule" at "rule"
      Then the context shows

    Scenario: B2 failing
      Given a step registers cleanup "b2"
      When a step fails
      Then a step registers cleanup "never"

  Rule: R2
    @skip_me
    Scenario: B3 second rule
      Given the context shows

  Rule: R3 empty
'''

FEATURE_3 = u'''
Feature: Gamma without hooks interest
  Scenario: G1
    Given a step deletes "run_attr"
  Scenario: G1b
    Given a step shadows "shadowed" with "from-g1b"
    When a step deletes "shadowed"
    Then the context shows
  Scenario: G2
    Given the context shows
'''


def write_project(workdir):
    features = os.path.join(workdir, "features")
    steps = os.path.join(features, "steps")
    os.makedirs(steps)
    with io.open(os.path.join(features, "environment.py"), "w", encoding="utf-8") as f:
        f.write(u"from environment_support import *\n")
    with io.open(os.path.join(workdir, "environment_support.py"), "w", encoding="utf-8") as f:
        f.write(ENVIRONMENT_PY)
    with io.open(os.path.join(steps, "steps.py"), "w", encoding="utf-8") as f:
        f.write(STEPS_PY)
    for name, content in (("alpha", FEATURE_1), ("beta", FEATURE_2), ("gamma", FEATURE_3)):
        with io.open(os.path.join(features, name + ".feature"), "w", encoding="utf-8") as f:
            f.write(content.lstrip())


RUNS = [
    ("baseline", "", []),
    ("scenario cleanup raises", "cleanup.scenario.1 A1 scoping", []),
    ("two scenario cleanups raise", "cleanup.scenario.1 A2 execute steps,cleanup.scenario.2 A2 execute steps", []),
    ("late scenario cleanup raises", "cleanup.scenario.late B1 in rule", []),
    ("step cleanup raises", "cleanup.step.background", []),
    ("feature cleanup raises", "cleanup.feature.2 Alpha", []),
    ("feature cleanup from rule raises", "cleanup.feature-from-rule R1", []),
    ("rule cleanup raises", "cleanup.rule.1 R1,cleanup.step.b1-rule", []),
    ("testrun cleanups raise", "cleanup.run.1,cleanup.run.late", []),
    ("testrun cleanup from scenario raises", "cleanup.run-from-scenario G2", []),
    ("fixture cleanups raise", "fixture.cleanup.gen,fixture.cleanup.comp1,fixture.cleanup.gen2", []),
    ("fixture setup raises", "fixture.setup.gen2,fixture.setup.comp3", []),
    ("feature fixture setup raises", "fixture.setup.gen", []),
    ("hooks raise", "before_scenario,after_feature", []),
    ("before_all raises", "before_all,cleanup.run.2", []),
    ("after hooks and cleanups raise", "after_scenario,after_rule,after_all,cleanup.rule.1 R2,cleanup.scenario.2 B2 failing", []),
    ("stop after first failure", "cleanup.scenario.1 A1 scoping", ["--stop"]),
    ("dry run", "cleanup.run.1", ["--dry-run"]),
    ("tag selection", "cleanup.scenario.1 B1 in rule", ["--tags=not @skip_me", "--no-skipped"]),
    ("name selection", "cleanup.feature.1 Beta", ["--name", "B2"]),
    ("everything raises", ",".join([
        "cleanup.scenario.1 A1 scoping", "cleanup.scenario.2 A1 scoping", "cleanup.step.background",
        "cleanup.feature.1 Alpha", "cleanup.feature.2 Alpha", "cleanup.run.1", "cleanup.run.2",
        "fixture.cleanup.gen", "cleanup.plain-fixture.tagged", "cleanup.rule.1 R1",
        "cleanup.rule.1 R2", "cleanup.step.b2"]), []),
]


def part4():
    print("=" * 70)
    print("PART 4: real behave runs")
    print("=" * 70)
    workdir = tempfile.mkdtemp(prefix="equiv_c13_")
    try:
        write_project(workdir)
        logfile = os.path.join(workdir, "hooks.log")
        for title, raising, options in RUNS:
            for formatter in ("plain", "progress3"):
                if formatter != "plain" and not (raising == "" or "everything" in title
                                                 or "fixture" in title):
                    continue
                if os.path.exists(logfile):
                    os.remove(logfile)
                env = dict(os.environ)
                env["PYTHONPATH"] = os.pathsep.join([WORKTREE, workdir])
                env["C13_RAISE"] = raising
                env["C13_LOG"] = logfile
                env["PYTHONHASHSEED"] = "0"
                env.pop("BEHAVE_DEBUG_ON_ERROR", None)
                command = [sys.executable, "-m", "behave", "-f", formatter, "--no-timings",
                           "--no-color", "--no-capture", "features"] + options
                proc = subprocess.Popen(command, cwd=workdir, env=env,
                                        stdout=subprocess.PIPE, stderr=subprocess.STDOUT)
                output, _ = proc.communicate()
                output = output.decode("utf-8", "replace")
                print("-- RUN: %s [%s] options=%r raising=%r" % (title, formatter, options, raising))
                print("   returncode=%s" % proc.returncode)
                for line in normalize_text(output).splitlines():
                    print("   | " + line)
                if os.path.exists(logfile):
                    with open(logfile) as f:
                        for line in f.read().splitlines():
                            print("   log: " + line)
    finally:
        shutil.rmtree(workdir, ignore_errors=True)


if __name__ == "__main__":
    part1()
    part2()
    part3()
    part4()
