# -*- coding: utf-8 -*-
# Shared part of the equiv.py scripts (copied verbatim into each of them).
from __future__ import print_function
import io, os, re, shutil, subprocess, sys, tempfile
WORKTREE = "/tmp/wtX/C17"
sys.path.insert(0, WORKTREE)

ALPHA = u'''\
Feature: Alpha

  Scenario: A1 passes
    Given a step passes

  Scenario: A2 fails
    Given a step passes
    When a step fails
    Then a step passes

  Scenario: A3 errors
    Given a step raises an error

  Scenario: A4 undefined
    Given a step that does not exist

  @skip
  Scenario: A5 skipped
    Given a step fails

  Scenario Outline: A6 outline <outcome>
    Given a step <outcome>

    Examples: first
      | outcome |
      | passes  |
      | fails   |

    Examples: second
      | outcome         |
      | raises an error |
      | passes          |

  Scenario: A7 passes again
    Given a step passes
'''

BETA = u'''\
Feature: Beta (all good)

  Scenario: B1 passes
    Given a step passes

  Scenario: B2 passes
    Given a step passes
'''

GAMMA = u'''\
Feature: Gamma with rules

  Scenario: G1 errors first
    Given a step raises an error

  Rule: R1
    Scenario: G2 passes
      Given a step passes

    @hook_error
    Scenario: G3 hook error
      Given a step passes

    Scenario Outline: G4 <outcome>
      Given a step <outcome>

      Examples:
        | outcome |
        | fails   |
        | passes  |

  Rule: R2
    Scenario: G5 fails
      Given a step fails

    @skip
    Scenario: G6 skipped
      Given a step passes
'''

DELTA = u'''\
Feature: Delta skipped only
  @skip
  Scenario: D1 skipped
    Given a step fails
'''

STEPS = u'''\
from behave import given, when, then, step

@step(u'a step passes')
def step_passes(ctx):
    pass

@step(u'a step fails')
def step_fails(ctx):
    assert False, "XFAIL-STEP"

@step(u'a step raises an error')
def step_errors(ctx):
    raise RuntimeError("XERROR-STEP")
'''

ENVIRONMENT = u'''\
def before_scenario(ctx, scenario):
    if "skip" in scenario.tags:
        scenario.skip("SKIPPED-BY-HOOK")
    if "hook_error" in scenario.tags:
        raise RuntimeError("XHOOK-ERROR")
'''

def write_file(path, text):
    dirname = os.path.dirname(path)
    if dirname and not os.path.isdir(dirname):
        os.makedirs(dirname)
    with io.open(path, "w", encoding="utf-8") as f:
        f.write(text)

def make_project(workdir):
    write_file(os.path.join(workdir, "features/alpha.feature"), ALPHA)
    write_file(os.path.join(workdir, "features/beta.feature"), BETA)
    write_file(os.path.join(workdir, "features/sub/gamma.feature"), GAMMA)
    write_file(os.path.join(workdir, "features/sub/delta.feature"), DELTA)
    write_file(os.path.join(workdir, "features/steps/steps.py"), STEPS)
    write_file(os.path.join(workdir, "features/environment.py"), ENVIRONMENT)
    write_file(os.path.join(workdir, "behave.ini"),
               u"[behave]\nshow_timings = false\ncolor = false\nshow_skipped = true\n")

def normalize(text, workdir):
    text = text.replace(os.path.realpath(workdir), "<WORKDIR>")
    text = text.replace(workdir, "<WORKDIR>")
    text = re.sub(r"\b\d+m?\d*\.\d+s\b", "<T>s", text)
    text = re.sub(r'File "[^"]*", line \d+', 'File "<F>", line <N>', text)
    return text

def run_behave(args, workdir):
    env = dict(os.environ)
    env["PYTHONPATH"] = WORKTREE
    env["PYTHONDONTWRITEBYTECODE"] = "1"
    env.pop("COLUMNS", None)
    proc = subprocess.Popen([sys.executable, "-m", "behave"] + list(args),
                            cwd=workdir, env=env, stdout=subprocess.PIPE,
                            stderr=subprocess.STDOUT)
    output = proc.communicate()[0].decode("utf-8", "replace")
    print("$ behave %s" % " ".join(args))
    print("exit-code: %d" % proc.returncode)
    print(normalize(output, workdir))
    print("$ --end")

def show_file(path, workdir):
    relname = os.path.relpath(path, workdir)
    if not os.path.exists(path):
        print("FILE %s: <missing>" % relname)
        return
    if os.path.isdir(path):
        print("FILE %s: <directory>" % relname)
        return
    with io.open(path, encoding="utf-8") as f:
        print("FILE %s:" % relname)
        for line in f.read().splitlines(True):
            print("  | %r" % normalize(line, workdir))

def describe_exception(e):
    return "%s: %s" % (e.__class__.__name__, e)

def show_selection(paths, workdir, strict=True):
    """Closed loop: paths -> collect_feature_locations -> parse_features."""
    from behave.runner_util import collect_feature_locations, parse_features
    print("SELECT %r strict=%r" % (paths, strict))
    try:
        locations = collect_feature_locations(paths, strict=strict)
    except Exception as e:  # noqa
        print("  collect raised %s" % normalize(describe_exception(e), workdir))
        return
    for location in locations:
        print("  location: %s" % normalize(repr(location), workdir))
    try:
        features = parse_features(locations)
    except Exception as e:  # noqa
        print("  parse raised %s" % normalize(describe_exception(e), workdir))
        return
    for feature in features:
        print("  feature: %s should_run=%s" % (normalize(str(feature.location), workdir),
                                              feature.should_run()))
        for scenario in feature.walk_scenarios():
            print("    %-32s %-10s should_run=%s" % (
                normalize(str(scenario.location), workdir), scenario.status.name,
                scenario.should_run()))

def end_to_end(workdir):
    rerun = os.path.join(workdir, "rerun.txt")
    print("=== E2E 1: first run over all features")
    run_behave(["-f", "rerun", "-o", "rerun.txt", "-f", "plain", "features"], workdir)
    show_file(rerun, workdir)
    print("=== E2E 2: selection from rerun file (in-process)")
    show_selection(["@rerun.txt"], workdir)
    print("=== E2E 3: second run from rerun file, writes rerun2.txt")
    run_behave(["-f", "rerun", "-o", "rerun2.txt", "-f", "plain", "@rerun.txt"], workdir)
    show_file(os.path.join(workdir, "rerun2.txt"), workdir)
    print("=== E2E 4: all-passing run removes the stale rerun file")
    shutil.copy(rerun, os.path.join(workdir, "stale.txt"))
    run_behave(["-f", "rerun", "-o", "stale.txt", "-f", "plain", "features/beta.feature"], workdir)
    show_file(os.path.join(workdir, "stale.txt"), workdir)
    print("=== E2E 5: all-passing run without previous file")
    run_behave(["-f", "rerun", "-o", "none.txt", "features/beta.feature",
                "features/sub/delta.feature"], workdir)
    show_file(os.path.join(workdir, "none.txt"), workdir)
    print("=== E2E 6: only feature with error first, in subdir outfile")
    run_behave(["-f", "rerun", "-o", "out/dir/rerun3.txt", "features/sub/gamma.feature"], workdir)
    show_file(os.path.join(workdir, "out/dir/rerun3.txt"), workdir)
    show_selection(["@out/dir/rerun3.txt"], workdir)
    print("=== E2E 7: rerun formatter with descriptions on stdout")
    run_behave(["-f", "rerun", "-D", "x=1", "features/alpha.feature:7", "features/sub/gamma.feature:3"], workdir)

def main(specific):
    workdir = tempfile.mkdtemp(prefix="c17twin_")
    olddir = os.getcwd()
    try:
        make_project(workdir)
        os.chdir(workdir)
        specific(workdir)
        end_to_end(workdir)
    finally:
        os.chdir(olddir)
        shutil.rmtree(workdir, ignore_errors=True)

# ---------------------------------------------------------------------------
# SPECIFIC PART: parse_features(feature_files, language)
# ---------------------------------------------------------------------------
SETUP_FEATURE = u'''\
Feature: With setup and teardown

  @setup
  Scenario: T1 setup
    Given a step passes

  Scenario: T2 normal
    Given a step passes

  @fixture.x @teardown
  Scenario: T3 teardown
    Given a step passes

  Scenario: T4 normal
    Given a step passes
'''

GERMAN_FEATURE = u'''\
Funktionalit\xe4t: Deutsch

  Szenario: D1
    Angenommen a step passes

  Szenario: D2
    Angenommen a step fails
'''

BROKEN_FEATURE = u'''\
Feature: Broken

  Scenario: X1
    Given a step passes
    | orphan | table |
  Scenario
    Whatever this is
'''

def describe_features(features, workdir):
    print("  -> %s with %d feature(s)" % (type(features).__name__, len(features)))
    for feature in features:
        if feature is None:
            print("  feature: None")
            continue
        print("  feature: %s name=%r language=%s should_run=%s id=%s" % (
            normalize(str(feature.location), workdir), feature.name, feature.language,
            feature.should_run(), FEATURE_IDS.setdefault(id(feature), len(FEATURE_IDS))))
        for scenario in feature.walk_scenarios():
            print("    %-28s %-9s should_run=%-5s skip_reason=%r" % (
                normalize(str(scenario.location), workdir), scenario.status.name,
                scenario.should_run(), scenario.skip_reason))

FEATURE_IDS = {}

def try_parse(label, feature_files, workdir, **kwargs):
    from behave.runner_util import parse_features
    FEATURE_IDS.clear()
    print("parse_features(%s%s)" % (label, "".join(", %s=%r" % kv for kv in sorted(kwargs.items()))))
    try:
        features = parse_features(feature_files, **kwargs)
    except BaseException as e:  # noqa
        text = " / ".join(describe_exception(e).splitlines())
        print("  -> raised %s" % normalize(text, workdir))
        return None
    describe_features(features, workdir)
    return features

def specific(workdir):
    from behave import runner_util
    from behave.model_core import FileLocation
    write_file("extra/setup.feature", SETUP_FEATURE)
    write_file("extra/german.feature", GERMAN_FEATURE)
    write_file("extra/broken.feature", BROKEN_FEATURE)
    write_file("extra/empty.feature", u"")
    write_file("extra/comment_only.feature", u"# nothing here\n\n")
    A, B = "features/alpha.feature", "features/beta.feature"
    G, D = "features/sub/gamma.feature", "features/sub/delta.feature"
    S, E = "extra/setup.feature", "extra/empty.feature"
    L = FileLocation

    print("=== T23.1: names, locations, mixtures")
    cases = [
        ("[]", []),
        ("()", ()),
        ("[A]", [A]),
        ("[A, B] strings", [A, B]),
        ("unnormalized strings", ["./features//alpha.feature", "features/sub/../beta.feature"]),
        ("absolute string", [os.path.join(workdir, B)]),
        ("[L(A)]", [L(A)]),
        ("[L(A,6)]", [L(A, 6)]),
        ("[L(A,6), L(A,11), L(A,31)]", [L(A, 6), L(A, 11), L(A, 31)]),
        ("[L(A,31), L(A,6)] reversed", [L(A, 31), L(A, 6)]),
        ("[L(A,6), L(A,6)] duplicate", [L(A, 6), L(A, 6)]),
        ("[L(A,6), L(B,3), L(A,11)] non-adjacent", [L(A, 6), L(B, 3), L(A, 11)]),
        ("[L(A,6), L(A)] line then all", [L(A, 6), L(A)]),
        ("[L(A), L(A,6)] all then line", [L(A), L(A, 6)]),
        ("[L(A,0)]", [L(A, 0)]),
        ("[L(A,1)] feature line", [L(A, 1)]),
        ("[L(A,2)] before first scenario", [L(A, 2)]),
        ("[L(A,8)] inside scenario", [L(A, 8)]),
        ("[L(A,20)] outline line", [L(A, 20)]),
        ("[L(A,24)] examples header", [L(A, 24)]),
        ("[L(A,29)] second examples", [L(A, 29)]),
        ("[L(A,9999)] beyond end", [L(A, 9999)]),
        ("[L(G,6)] rule line", [L(G, 6)]),
        ("[L(G,14)] outline in rule", [L(G, 14)]),
        ("[L(G,22)] second rule", [L(G, 22)]),
        ("[L(G,3), L(G,11), L(G,19), L(G,23)] rerun", [L(G, 3), L(G, 11), L(G, 19), L(G, 23)]),
        ("mixed str+location same file", [A, L(A, 6)]),
        ("mixed location+str same file", [L(A, 6), A]),
        ("str with line suffix", [A + ":6"]),
        ("[L(S,7)] setup/teardown kept", [L(S, 7)]),
        ("[L(S,4), L(S,15)]", [L(S, 4), L(S, 15)]),
        ("[L(D,3), L(B,6), L(B,3)]", [L(D, 3), L(B, 6), L(B, 3)]),
        ("[E] empty file", [E]),
        ("[E, E]", [E, E]),
        ("[L(E,3), L(E,5)]", [L(E, 3), L(E, 5)]),
        ("[A, E, B]", [A, E, B]),
        ("[L(A,6), E, L(A,11)]", [L(A, 6), E, L(A, 11)]),
        ("[E, L(A,6), comment_only]", [E, L(A, 6), "extra/comment_only.feature"]),
        ("missing file", ["extra/missing.feature"]),
        ("[L(A,6), missing, B]", [L(A, 6), "extra/missing.feature", B]),
        ("[A, broken]", [A, "extra/broken.feature"]),
        ("directory", ["features"]),
        ("[A, 5] bad item", [A, 5]),
        ("[None]", [None]),
        ("[b'bytes']", [b"features/alpha.feature"]),
        ("None", None),
        ("a string instead of list", "ab"),
    ]
    for label, files in cases:
        try_parse(label, files, workdir)

    print("=== T23.2: iterators as input, language parameter")
    try_parse("iter([L(A,6), L(A,11), B])", iter([L(A, 6), L(A, 11), B]), workdir)
    def exploding_locations():
        yield L(A, 6)
        yield L(B, 3)
        raise KeyError("locations exploded")
    try_parse("exploding generator", exploding_locations(), workdir)
    try_parse("[german] language=de", ["extra/german.feature"], workdir, language="de")
    try_parse("[german] no language", ["extra/german.feature"], workdir)
    try_parse("[L(german,6), A] language=de", [L("extra/german.feature", 6), B], workdir, language="de")
    try_parse("[B] language=None", [B], workdir, language=None)
    try_parse("[B] language=xx", [B], workdir, language="xx")

    print("=== T23.3: order of parse_file / add_location / build_feature / clear calls")
    calls = []
    collector_class = runner_util.FeatureScenarioLocationCollector2
    original = {}
    def trace(name):
        original[name] = getattr(collector_class, name)
        def wrapper(self, *args, **kwargs):
            calls.append("%s(%s) filename=%s" % (
                name, ", ".join(normalize(str(a), workdir) for a in args),
                normalize(str(self.filename), workdir)))
            return original[name](self, *args, **kwargs)
        setattr(collector_class, name, wrapper)
    for name in ("add_location", "build_feature", "clear", "discover_selected_scenarios"):
        trace(name)
    original_parse_file = runner_util.gherkin.parse_file
    def traced_parse_file(filename, language=None):
        calls.append("parse_file(%s, language=%r)" % (normalize(filename, workdir), language))
        return original_parse_file(filename, language=language)
    runner_util.gherkin.parse_file = traced_parse_file
    try:
        for label, files in [
                ("[L(A,6), L(A,11), B, L(G,3), L(G,23)]", [L(A, 6), L(A, 11), B, L(G, 3), L(G, 23)]),
                ("[E, A, E, L(B,3)]", [E, A, E, L(B, 3)]),
                ("[L(A,6), missing, B]", [L(A, 6), "extra/missing.feature", B]),
                ("[]", [])]:
            del calls[:]
            try_parse(label, files, workdir)
            for call in calls:
                print("    call:", call)
    finally:
        runner_util.gherkin.parse_file = original_parse_file
        for name, func in original.items():
            setattr(collector_class, name, func)

    print("=== T23.4: returned list is a fresh list each time")
    from behave.runner_util import parse_features
    one = parse_features([B])
    two = parse_features([B])
    print(type(one).__name__, type(two).__name__, one is two, one[0] is two[0], one == two)
    one.append("x")
    print(len(one), len(two))


if __name__ == "__main__":
    main(specific)
