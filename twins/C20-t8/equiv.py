# -*- coding: UTF-8 -*-
"""
Equivalence transcript for property C20 (configuration precedence, userdata).
Prints a canonical transcript of the observable behaviour of:
  configfile_options_iter, format_outfiles_coupling, read_configparser,
  read_toml_config, read_configuration, load_configuration,
  Configuration(command_args), parse_user_define, unqote, UserData getters.
"""
from __future__ import absolute_import, print_function
import sys
sys.path.insert(0, "/tmp/wtU/C20")
sys.argv[:] = ["behave"]     # -- CANONICAL: argparse prog name

import contextlib
import io
import itertools
import os
import re
import shutil
import tempfile

SCRATCH = os.path.realpath(tempfile.mkdtemp(prefix="c20equiv_"))
HOME = os.path.join(SCRATCH, "home")
os.makedirs(HOME)
os.environ["HOME"] = HOME
os.environ.pop("BEHAVE_STAGE", None)
os.environ.pop("BEHAVE_COLOR", None)

import behave.configuration as C        # noqa: E402
from behave.configuration import Configuration     # noqa: E402
from behave import userdata as U        # noqa: E402
from behave.userdata import UserData, UserDataNamespace, parse_user_define  # noqa: E402

assert C.__file__.startswith("/tmp/wtU/C20/"), C.__file__

LINES = []


def canon(text):
    text = re.sub(r" at 0x[0-9a-fA-F]+", " at 0xADDR", text)
    return text.replace(SCRATCH, "<TMP>")


def emit(*parts):
    LINES.append(canon(" ".join(str(p) for p in parts)))


def show(value):
    """Canonical repr: dicts sorted, named tuples shown, callables by name."""
    if isinstance(value, dict):
        items = sorted(value.items(), key=lambda kv: repr(kv[0]))
        return "%s{%s}" % (type(value).__name__,
                           ", ".join("%s: %s" % (show(k), show(v)) for k, v in items))
    if isinstance(value, tuple) and hasattr(value, "_fields"):
        return "%s(%s)" % (type(value).__name__,
                           ", ".join("%s=%s" % (f, show(getattr(value, f)))
                                     for f in value._fields))
    if isinstance(value, (list, tuple)):
        body = ", ".join(show(v) for v in value)
        return ("[%s]" if isinstance(value, list) else "(%s)") % body
    if isinstance(value, type) or callable(value) and hasattr(value, "__name__"):
        return "<callable %s>" % getattr(value, "__qualname__", value.__name__)
    return canon(repr(value))


def attempt(label, func, *args, **kwargs):
    out, err = io.StringIO(), io.StringIO()
    try:
        with contextlib.redirect_stdout(out), contextlib.redirect_stderr(err):
            result = func(*args, **kwargs)
        emit(label, "->", show(result))
    except SystemExit as e:
        emit(label, "!! SystemExit", e.code)
    except BaseException as e:  # noqa
        emit(label, "!!", type(e).__name__, canon(str(e)))
    if out.getvalue():
        emit("   stdout:", repr(canon(out.getvalue())))
    if err.getvalue():
        emit("   stderr:", repr(canon(err.getvalue()).replace(
            os.path.basename(sys.argv[0]), "PROG")))
    return None


@contextlib.contextmanager
def workdir(name, files):
    """Create scratch dir with files {relpath: text}; chdir into it."""
    top = os.path.join(SCRATCH, name)
    for relpath, text in files.items():
        path = os.path.join(top, relpath)
        if not os.path.isdir(os.path.dirname(path)):
            os.makedirs(os.path.dirname(path))
        with open(path, "w") as f:
            f.write(text)
    if not os.path.isdir(top):
        os.makedirs(top)
    cwd = os.getcwd()
    try:
        yield top
    finally:
        os.chdir(cwd)


CONFIG_ATTRS = [
    "color", "jobs", "dry_run", "junit", "junit_directory", "show_skipped",
    "show_snippets", "show_multiline", "show_source", "show_timings",
    "stdout_capture", "stderr_capture", "log_capture", "logging_level",
    "logging_format", "logging_datefmt", "logging_filter",
    "logging_clear_handlers", "summary", "format", "outfiles", "paths",
    "tags", "config_tags", "default_tags", "default_format", "stage",
    "steps_dir", "environment_file", "stop", "wip", "quiet", "runner",
    "userdata_defines", "more_formatters", "more_runners", "runner_aliases",
    "name", "lang", "verbose", "steps_catalog", "version", "tags_help",
    "lang_list", "lang_help", "tag_expression_protocol",
    "scenario_outline_annotation_schema",
]


def describe_config(config):
    parts = []
    for name in CONFIG_ATTRS:
        parts.append("%s=%s" % (name, show(getattr(config, name, "<MISSING>"))))
    parts.append("userdata=%s:%s" % (type(config.userdata).__name__,
                                     show(dict(config.userdata))))
    parts.append("userdata_order=%s" % show(list(config.userdata.keys())))
    parts.append("tag_expression=%s" % show(str(config.tag_expression)))
    parts.append("include_re=%s" % show(getattr(config.include_re, "pattern", None)))
    parts.append("exclude_re=%s" % show(getattr(config.exclude_re, "pattern", None)))
    parts.append("name_re=%s" % show(getattr(config.name_re, "pattern", None)))
    parts.append("outputs=%s" % show([(o.name, o.stream is sys.stdout or
                                       (o.stream is not None and "stream"))
                                      for o in config.outputs]))
    parts.append("reporters=%s" % show([type(r).__name__ for r in config.reporters]))
    parts.append("defaults=%s" % show(config.defaults))
    parts.append("defaults_order=%s" % show(list(config.defaults.keys())))
    parts.append("vars_order=%s" % show(list(vars(config).keys())))
    return "\n      ".join(parts)


def build_config(top, depth_dir, args, **kwargs):
    os.chdir(os.path.join(top, depth_dir) if depth_dir else top)
    config = Configuration(list(args), **kwargs)
    return config


def run_config(label, top, depth_dir, args, **kwargs):
    out, err = io.StringIO(), io.StringIO()
    try:
        with contextlib.redirect_stdout(out), contextlib.redirect_stderr(err):
            config = build_config(top, depth_dir, args, **kwargs)
        emit(label, "args=%r" % (list(args),), "->\n     ", describe_config(config))
    except SystemExit as e:
        emit(label, "args=%r" % (list(args),), "!! SystemExit", e.code)
    except BaseException as e:  # noqa
        emit(label, "args=%r" % (list(args),), "!!", type(e).__name__, canon(str(e)))
    if out.getvalue():
        emit("   stdout:", repr(canon(out.getvalue())))
    if err.getvalue():
        emit("   stderr:", repr(canon(err.getvalue())))


# ---------------------------------------------------------------------------
# SECTION 1: configfile_options_iter
# ---------------------------------------------------------------------------
def section_options_iter():
    emit("== configfile_options_iter")
    attempt("iter(None)", lambda: list(C.configfile_options_iter(None)))
    attempt("iter({})", lambda: list(C.configfile_options_iter({})))
    attempt("iter({'behave': {}})",
            lambda: list(C.configfile_options_iter({"behave": {}})))
    attempt("iter({'other': {...}})",
            lambda: list(C.configfile_options_iter({"other": {"color": 1}})))
    all_dests = [o.dest for o in C.configfile_options_iter(None)]
    emit("all_dests", show(all_dests))
    # -- subsets of options present (incl. excluded/negated/unknown names)
    names = all_dests + ["userdata_defines", "version", "tags_help", "lang_list",
                         "lang_help", "no_color", "no_junit", "unknown_opt",
                         "userdata", "", "define"]
    for size in (1, 2):
        for subset in itertools.combinations(names, size):
            if size == 2 and (names.index(subset[0]) % 5 or names.index(subset[1]) % 3):
                continue
            cfg = {"behave": dict((n, "x") for n in subset)}
            attempt("iter(behave=%s)" % (list(subset),),
                    lambda cfg=cfg: list(C.configfile_options_iter(cfg)))
    cfg = {"behave": dict((n, "x") for n in names)}
    attempt("iter(behave=ALL)", lambda: list(C.configfile_options_iter(cfg)))
    # -- odd containers
    attempt("iter(behave=list)",
            lambda: list(C.configfile_options_iter({"behave": ["color", "jobs"]})))
    attempt("iter(behave=str)",
            lambda: list(C.configfile_options_iter({"behave": "colorjobs format"})))
    attempt("iter(behave=int)",
            lambda: list(C.configfile_options_iter({"behave": 3})))
    attempt("iter(list-config)",
            lambda: list(C.configfile_options_iter(["behave"])))
    attempt("iter(str-config)",
            lambda: list(C.configfile_options_iter("behave")))

    class OldStyle(object):
        """Mimics PY27 SafeConfigParser: no __getitem__ -> AttributeError path."""
        def __init__(self, known):
            self.known = known
            self.calls = []

        def __getitem__(self, name):
            raise AttributeError("no __getitem__")

        def has_option(self, section, name):
            self.calls.append((section, name))
            return name in self.known

    old = OldStyle(["color", "tags", "version", "paths"])
    attempt("iter(OldStyle)", lambda: list(C.configfile_options_iter(old)))
    emit("OldStyle.calls", show(old.calls))

    # -- with a real ConfigParser
    parser = C.ConfigParser()
    parser.optionxform = str
    parser.read_string(u"[behave]\ncolor = on\nJobs = 3\njobs=2\ntags = a\n"
                       u"[behave.userdata]\nfoo = 1\n")
    attempt("iter(ConfigParser)", lambda: list(C.configfile_options_iter(parser)))
    empty_parser = C.ConfigParser()
    attempt("iter(empty ConfigParser)",
            lambda: list(C.configfile_options_iter(empty_parser)))
    # -- laziness: generator, nothing evaluated until iterated
    gen = C.configfile_options_iter({"behave": {"color": 1, "stage": 2}})
    emit("gen type", type(gen).__name__)
    emit("first", show(next(gen)), "second", show(next(gen)))
    attempt("third", lambda: next(gen))
    attempt("setup_config_file_parser", lambda: C.setup_config_file_parser())
    attempt("has_negated_option", lambda: [
        C.has_negated_option(w) for w in [(), ("--no-x",), ("-C", "--no-color"),
                                          ("--color",), ("--nox",), ("-no-",)]])
    attempt("derive_dest", lambda: [
        C.derive_dest_from_long_option(w) for w in [
            (), ("-x",), ("-x", "--long-opt-name"), ("--a", "--b"), ("--",)]])


# ---------------------------------------------------------------------------
# SECTION 2: format_outfiles_coupling
# ---------------------------------------------------------------------------
def section_coupling():
    emit("== format_outfiles_coupling")
    config_dirs = ["", ".", "/abs/dir", "rel/dir", "../up", "a/../b"]
    formats_choices = [None, [], ["plain"], ["plain", "json"],
                       ["plain", "json", "pretty"], [3, None], ["a/b", "../c"]]
    outfiles_choices = [None, [], ["o1"], ["o1", "/abs/o2"], ["o1", "o2", "o3", "o4"],
                        ["../x", "./y", ""]]
    paths_choices = [None, [], ["features"], ["/abs/f", "sub/../f2", "."]]
    for config_dir in config_dirs:
        for formats in formats_choices:
            for outfiles in outfiles_choices:
                for paths in paths_choices:
                    data = {}
                    if formats is not None:
                        data["format"] = list(formats)
                    if outfiles is not None:
                        data["outfiles"] = list(outfiles)
                    if paths is not None:
                        data["paths"] = list(paths)
                    before_outfiles = data.get("outfiles")
                    before_format = data.get("format")
                    label = "couple(dir=%r, %s)" % (config_dir, show(data))

                    def call(data=data, config_dir=config_dir):
                        result = C.format_outfiles_coupling(data, config_dir)
                        return (result, data, list(data.keys()))
                    attempt(label, call)
                    emit("   aliases: outfiles_obj=%s format_obj=%s same_list=%s" % (
                        show(before_outfiles), show(before_format),
                        data.get("outfiles") is before_outfiles))
    # -- error cases / odd types
    attempt("couple(format=str)", lambda: (lambda d: (C.format_outfiles_coupling(d, "x"), d))(
        {"format": "plain"}))
    attempt("couple(format=str, outfiles=str)",
            lambda: (lambda d: (C.format_outfiles_coupling(d, "x"), d))(
                {"format": "ab", "outfiles": "xyz"}))
    attempt("couple(format=None)", lambda: C.format_outfiles_coupling({"format": None}, "x"))
    attempt("couple(format tuple items)",
            lambda: (lambda d: (C.format_outfiles_coupling(d, "x"), d))(
                {"format": ["ok", (1, 2), "late"], "outfiles": []}))
    shared = []
    data = {"format": ["ok", (1, 2), "late"], "outfiles": shared}
    attempt("couple(partial mutation)", lambda: C.format_outfiles_coupling(data, "x"))
    emit("   shared after failure:", show(shared), show(data))
    attempt("couple(paths=int items)",
            lambda: C.format_outfiles_coupling({"paths": [1]}, "x"))
    attempt("couple(outfiles tuple)",
            lambda: (lambda d: (C.format_outfiles_coupling(d, "x"), d))(
                {"format": ["a"], "outfiles": ("o1", "o2")}))
    attempt("couple(outfiles tuple short)",
            lambda: (lambda d: (C.format_outfiles_coupling(d, "x"), d))(
                {"format": ["a", "b"], "outfiles": ("o1",)}))
    attempt("couple(dir=None)",
            lambda: C.format_outfiles_coupling({"paths": ["a"]}, None))


# ---------------------------------------------------------------------------
# SECTION 3: config-file readers
# ---------------------------------------------------------------------------
INI_FILES = {
    "empty.ini": "",
    "nosection.ini": "[other]\ncolor = on\n",
    "emptysection.ini": "[behave]\n",
    "scalars.ini": ("[behave]\ncolor = never\njobs = 4\nstage = develop\n"
                    "junit_directory = out/reports\nlogging_level = debug\n"
                    "logging_format = %(asctime)s %(message)s\n"
                    "logging_datefmt = %H:%M\nlogging_filter = foo,-bar\n"
                    "lang = de\nrunner = my.runner:Class\ndefault_format = plain\n"
                    "scenario_outline_annotation_schema = {name} @{row.id}\n"
                    "tag_expression_protocol = v2\ninclude_re = incl.*\n"
                    "exclude_re = excl.*\n"),
    "bools_true.ini": ("[behave]\ndry_run = true\njunit = yes\nshow_skipped = on\n"
                       "show_snippets = 1\nshow_multiline = True\n"
                       "stdout_capture = true\nstderr_capture = true\n"
                       "log_capture = true\nsummary = true\nshow_source = true\n"
                       "show_timings = true\nquiet = true\nstop = true\n"
                       "wip = true\nverbose = true\nsteps_catalog = true\n"
                       "logging_clear_handlers = true\n"),
    "bools_false.ini": ("[behave]\ndry_run = false\njunit = no\nshow_skipped = off\n"
                        "show_snippets = 0\nshow_multiline = False\n"
                        "stdout_capture = false\nstderr_capture = false\n"
                        "log_capture = false\nsummary = false\nshow_source = false\n"
                        "show_timings = false\nquiet = false\nstop = false\n"
                        "wip = false\nverbose = false\nsteps_catalog = false\n"
                        "logging_clear_handlers = false\n"),
    "lists.ini": ("[behave]\nformat = plain\n    json\n   progress  \n"
                  "outfiles = out1.txt\n   sub/out2.json\n"
                  "paths = features\n    /abs/features\n  ../other\n"
                  "tags = @a\n   not @b\n  @c or @d\n"
                  "default_tags = not @xfail\n  @smoke\n"
                  "name = first.*\n   second\n"),
    "fmt_more_than_out.ini": "[behave]\nformat = plain\n  json\n  pretty\noutfiles = only.txt\n",
    "fmt_less_than_out.ini": "[behave]\nformat = plain\noutfiles = a.txt\n  b.txt\n  c.txt\n",
    "fmt_no_out.ini": "[behave]\nformat = plain\n  json\n",
    "out_no_fmt.ini": "[behave]\noutfiles = a.txt\n  b.txt\n",
    "list_blank.ini": "[behave]\nformat =\npaths =\ntags =\n",
    "sections.ini": ("[behave]\ncolor = on\n[behave.userdata]\nfoo = bar\n"
                     "Upper.Name = Mixed Case \nnum = 12\nquoted = \"q\"\n"
                     "[behave.formatters]\nmyfmt = my.module:MyFormatter\n"
                     "[behave.runners]\nfast = my.runners:FastRunner\n"),
    "userdata_only.ini": "[behave.userdata]\nfoo = fromfile\nflag = no\n",
    "excluded.ini": ("[behave]\nversion = true\ntags_help = true\nlang_list = true\n"
                     "lang_help = de\nuserdata_defines = a=b\nno_color = true\n"
                     "unknown_option = 1\ncolor = off\n"),
    "bad_bool.ini": "[behave]\ndry_run = maybe\n",
    "bad_jobs.ini": "[behave]\njobs = many\n",
    "neg_jobs.ini": "[behave]\njobs = -2\n",
    "bad_level.ini": "[behave]\nlogging_level = loud\n",
    "bad_protocol.ini": "[behave]\ntag_expression_protocol = v9\n",
    "interp.ini": "[behave]\nstage = %(nothing)s\n",
    "interp_ok.ini": "[behave]\nlang = en\nstage = %(lang)s_x\nlogging_format = %(lang)s raw\n",
    "case.ini": "[behave]\nColor = on\nJOBS = 3\n",
    "ordered.ini": ("[behave]\nwip = false\ntags = z\n a\n m\ncolor = always\n"
                    "format = z.fmt\n a.fmt\noutfiles = z.out\n"),
}

TOML_FILES = {
    "empty.toml": "",
    "notool.toml": "[project]\nname = 'x'\n",
    "tool_nobehave.toml": "[tool.other]\ncolor = 'on'\n",
    "tool_empty.toml": "[tool.behave]\n",
    "scalars.toml": ("[tool.behave]\ncolor = 'never'\njobs = 4\nstage = 'develop'\n"
                     "junit_directory = 'out/reports'\nlogging_level = 'debug'\n"
                     "logging_format = '%(asctime)s %(message)s'\nlang = 'de'\n"
                     "runner = 'my.runner:Class'\ndefault_format = 'plain'\n"
                     "tag_expression_protocol = 'v2'\n"),
    "bools.toml": ("[tool.behave]\ndry_run = true\njunit = false\nshow_skipped = false\n"
                   "show_snippets = 0\nshow_multiline = 'no'\nsummary = ''\n"
                   "stdout_capture = false\nquiet = true\nwip = false\n"),
    "lists.toml": ("[tool.behave]\nformat = ['plain', 'json', ' padded ']\n"
                   "outfiles = ['out1.txt', 'sub/out2.json']\n"
                   "paths = ['features', '/abs/features', '../other']\n"
                   "tags = ['@a', 'not @b']\ndefault_tags = ['not @xfail']\n"
                   "name = ['first.*', 'second']\n"),
    "fmt_more_than_out.toml": "[tool.behave]\nformat = ['plain','json','pretty']\noutfiles = ['only.txt']\n",
    "fmt_less_than_out.toml": "[tool.behave]\nformat = ['plain']\noutfiles = ['a.txt','b.txt','c.txt']\n",
    "fmt_no_out.toml": "[tool.behave]\nformat = ['plain','json']\n",
    "bad_list.toml": "[tool.behave]\nformat = 'plain'\n",
    "bad_list2.toml": "[tool.behave]\ntags = 3\n",
    "bad_list3.toml": "[tool.behave]\npaths = {a = 1}\n",
    "sections.toml": ("[tool.behave]\ncolor = 'on'\n[tool.behave.userdata]\nfoo = 'bar'\n"
                      "num = 12\nflt = 1.5\nflag = true\nnested = {a = 1, b = [1, 2.5, false]}\n"
                      "[tool.behave.formatters]\nmyfmt = 'my.module:MyFormatter'\n"
                      "[tool.behave.runners]\nfast = 'my.runners:FastRunner'\n"),
    "userdata_only.toml": "[tool.behave.userdata]\nfoo = 'fromtoml'\n",
    "excluded.toml": ("[tool.behave]\nversion = true\ntags_help = true\n"
                      "userdata_defines = ['a=b']\nno_color = true\nunknown = 1\ncolor = 'off'\n"),
    "behave_scalar.toml": "[tool]\nbehave = 3\n",
    "behave_str.toml": "[tool]\nbehave = 'xyz'\n",
    "behave_str2.toml": "[tool]\nbehave = 'color'\n",
    "behave_list.toml": "[tool]\nbehave = ['color', 'formatters']\n",
    "tool_scalar.toml": "tool = 3\n",
    "syntax_error.toml": "[tool.behave\n",
    "userdata_scalar.toml": "[tool.behave]\nuserdata = 3\nformatters = 'x'\nrunners = [1]\n",
}


def section_readers():
    emit("== read_configparser / read_toml_config / read_configuration")
    files = {}
    for name, text in INI_FILES.items():
        files["ini/" + name] = text
        files["ini/deep/er/" + name] = text
    for name, text in TOML_FILES.items():
        files["toml/" + name] = text
    files["misc/behave.ini"] = INI_FILES["scalars.ini"]
    files["misc/.behaverc"] = INI_FILES["lists.ini"]
    files["misc/setup.cfg"] = INI_FILES["sections.ini"]
    files["misc/config.yaml"] = "behave: 1\n"
    files["misc/noextension"] = "[behave]\ncolor=on\n"
    with workdir("readers", files) as top:
        os.chdir(top)
        for name in sorted(INI_FILES):
            def read(path):
                result = C.read_configparser(path)
                return (result, list(result.keys()))
            attempt("read_configparser(abs %s)" % name, read,
                    os.path.join(top, "ini", name))
            attempt("read_configparser(rel %s)" % name, read,
                    os.path.join("ini", "deep", "er", name))
        os.chdir(os.path.join(top, "ini"))
        for name in sorted(INI_FILES):
            attempt("read_configparser(bare %s)" % name, C.read_configparser, name)
        attempt("read_configparser(missing)", C.read_configparser, "missing.ini")
        os.chdir(top)
        for name in sorted(TOML_FILES):
            def read(path):
                result = C.read_toml_config(path)
                return (result, list(result.keys()))
            attempt("read_toml_config(abs %s)" % name, read,
                    os.path.join(top, "toml", name))
            attempt("read_toml_config(rel %s)" % name, read,
                    os.path.join("toml", name))
        attempt("read_toml_config(missing)", C.read_toml_config, "toml/missing.toml")
        for name in ["behave.ini", ".behaverc", "setup.cfg", "config.yaml",
                     "noextension", "missing.ini"]:
            for verbose in (False, True):
                attempt("read_configuration(%s, verbose=%s)" % (name, verbose),
                        C.read_configuration, os.path.join("misc", name), verbose)
        attempt("read_configuration(toml)", C.read_configuration,
                os.path.join("toml", "sections.toml"))
        emit("CONFIG_FILE_PARSERS", show(C.CONFIG_FILE_PARSERS))
        # -- load_configuration: merge order over cwd + home
        os.chdir(os.path.join(top, "misc"))
        attempt("config_filenames", lambda: list(C.config_filenames()))
        for verbose in (False, True):
            defaults = {"color": "auto", "extra": 1}
            attempt("load_configuration(verbose=%s)" % verbose,
                    lambda: (C.load_configuration(defaults, verbose), defaults,
                             list(defaults.keys())))


# ---------------------------------------------------------------------------
# SECTION 4: Configuration precedence
# ---------------------------------------------------------------------------
CMDLINE_SETS = [
    [],
    ["--color=always"], ["--no-color"], ["--color"], ["-C", "--color", "on"],
    ["--color", "on", "-C"],
    ["--dry-run"], ["-d", "--junit"], ["--no-junit"], ["--junit", "--no-junit"],
    ["--no-junit", "--junit"],
    ["--junit-directory", "cmd/reports"],
    ["-j", "7"], ["--jobs=2", "--parallel", "3"],
    ["--no-skipped"], ["--show-skipped"], ["--no-skipped", "--show-skipped"],
    ["--no-snippets"], ["--snippets"], ["--no-multiline"], ["--multiline"],
    ["--no-capture"], ["--capture"], ["--no-capture-stderr"], ["--capture-stderr"],
    ["--no-logcapture"], ["--logcapture"],
    ["--logging-level", "ERROR"], ["--logging-format", "%(message)s"],
    ["--logging-datefmt", "%S"], ["--logging-filter", "-x"],
    ["--logging-clear-handlers"],
    ["--no-summary"], ["--summary"], ["--summary", "--no-summary"],
    ["-f", "plain"], ["-f", "json", "-o", "cmd.json"],
    ["-f", "plain", "-f", "progress", "-o", "one.txt", "-o", "-"],
    ["-o", "cmd_only.txt"],
    ["--steps-catalog"], ["--steps-catalog", "-f", "plain"],
    ["-n", "alpha", "--name", "beta"],
    ["-q"], ["-r", "cmd.runner:Cls"], ["--no-source"], ["--show-source"],
    ["--stage", "cmdstage"], ["--stop"],
    ["-t", "@cmd"], ["--tags", "@x and {config.tags}"], ["-t", "@one", "-t", "@two"],
    ["-T"], ["--show-timings"], ["-v"], ["-w"], ["-w", "-t", "@foo"],
    ["--lang", "fr"], ["--lang-list"], ["--lang-help", "fr"], ["--tags-help"],
    ["--version"],
    ["-i", "cmd_incl", "-e", "cmd_excl"],
    ["cmdfeatures/", "other/x.feature:10"],
    ["-D", "foo=cmd"], ["-D", "foo=cmd", "-D", "new", "-D", " pad = 'v' "],
    ["-D", "flag", "--define", "foo='q=1'", "-D", "\"a=b\""],
    ["--unknown-option"], ["-j", "x"], ["-j", "-1"], ["--logging-level", "loud"],
    ["--color", "purple"], ["-f", "no.such.format"], ["-f", "help"],
    ["-f", "behave.formatter.plain:NoSuchClass"], ["-f", "plain", "-f", "bad1", "-f", "bad2", "-v"],
]

CONFIG_DIRS = {
    "none": {},
    "ini_scalars": {"behave.ini": INI_FILES["scalars.ini"]},
    "ini_false": {"behave.ini": INI_FILES["bools_false.ini"]},
    "ini_true": {"behave.ini": INI_FILES["bools_true.ini"]},
    "ini_lists": {"behave.ini": INI_FILES["lists.ini"]},
    "ini_sections": {"behave.ini": INI_FILES["sections.ini"]},
    "ini_ordered": {".behaverc": INI_FILES["ordered.ini"]},
    "toml_lists": {"pyproject.toml": TOML_FILES["lists.toml"]},
    "toml_sections": {"pyproject.toml": TOML_FILES["sections.toml"]},
    "toml_bools": {"pyproject.toml": TOML_FILES["bools.toml"]},
    "multi": {"behave.ini": INI_FILES["sections.ini"],
              "tox.ini": INI_FILES["scalars.ini"],
              "setup.cfg": INI_FILES["bools_false.ini"],
              ".behaverc": INI_FILES["userdata_only.ini"],
              "pyproject.toml": TOML_FILES["lists.toml"]},
    "fmt_coupling": {"behave.ini": INI_FILES["fmt_more_than_out.ini"]},
    "fmt_coupling2": {"tox.ini": INI_FILES["fmt_less_than_out.ini"]},
    "bad_toml": {"pyproject.toml": TOML_FILES["bad_list.toml"]},
    "bad_ini": {"behave.ini": INI_FILES["bad_bool.ini"]},
}


def section_precedence():
    emit("== Configuration precedence")
    files = {}
    for dirname, cfgfiles in CONFIG_DIRS.items():
        files[dirname + "/sub/deeper/keep.txt"] = ""
        files[dirname + "/cmdfeatures/keep.txt"] = ""
        for name, text in cfgfiles.items():
            files[dirname + "/" + name] = text
    # -- config file only in a deeper directory: not picked from the parent
    files["depth/sub/behave.ini"] = INI_FILES["lists.ini"]
    files["depth/sub/deeper/keep.txt"] = ""
    with workdir("prec", files) as top:
        for dirname in sorted(CONFIG_DIRS):
            for index, args in enumerate(CMDLINE_SETS):
                if dirname not in ("none", "ini_false", "ini_lists", "multi") and index % 4:
                    # -- thin out: full cross product only for the main dirs
                    if not (dirname == "ini_sections" and "-D" in args):
                        continue
                run_config("Configuration[%s]" % dirname,
                           os.path.join(top, dirname), "", args)
        for depth_dir in ["", "sub", "sub/deeper"]:
            for args in ([], ["-f", "json"], ["-o", "x.out", "-f", "plain"], ["here"]):
                run_config("Configuration[depth:%s]" % (depth_dir or "."),
                           os.path.join(top, "depth"), depth_dir, args)
        # -- home directory config is overridden by cwd config
        with open(os.path.join(HOME, "behave.ini"), "w") as f:
            f.write("[behave]\ncolor = never\nstage = homestage\nformat = home.fmt\n"
                    "paths = homefeatures\n[behave.userdata]\nfoo = home\nhomeonly = 1\n")
        for dirname in ("none", "ini_sections", "ini_scalars", "toml_sections"):
            for args in ([], ["--stage", "cmd", "-D", "foo=cmd"], ["-D", "homeonly=0"]):
                run_config("Configuration[home+%s]" % dirname,
                           os.path.join(top, dirname), "", args)
        os.remove(os.path.join(HOME, "behave.ini"))
        # -- kwargs override built-in defaults, file overrides kwargs, cmdline wins
        for dirname in ("none", "ini_scalars"):
            for args in ([], ["--stage", "cmd", "-j", "9"]):
                run_config("Configuration[kwargs+%s]" % dirname,
                           os.path.join(top, dirname), "", args,
                           stage="kwstage", jobs=5, userdata={"kw": "1"}, extra_kw="E")
        for load_config in (True, False):
            for verbose in (None, True, False):
                run_config("Configuration[load_config=%s verbose=%s]" % (load_config, verbose),
                           os.path.join(top, "multi"), "", ["-D", "x=1"],
                           load_config=load_config, verbose=verbose)
        # -- command_args as string / tuple
        os.chdir(os.path.join(top, "ini_sections"))
        attempt("Configuration(str args)", lambda: describe_config(
            Configuration("-D foo='a b' --stage s1 -f plain")))
        attempt("Configuration(tuple args)", lambda: describe_config(
            Configuration(("-D", "foo=t", "--no-color"))))
        attempt("Configuration(--color PATH)", lambda: describe_config(
            Configuration(["--color", "behave.ini"])))
        attempt("Configuration(--color last)", lambda: describe_config(
            Configuration(["-d", "--color"])))
        # -- update_userdata: cmd-line defines are re-applied
        config = Configuration(["-D", "foo=cmd", "-D", "only_cmd"])
        emit("userdata before", show(dict(config.userdata)), show(list(config.userdata)))
        attempt("update_userdata", lambda: config.update_userdata(
            {"foo": "updated", "num": "99", "added": "A"}))
        emit("userdata after", show(dict(config.userdata)), show(list(config.userdata)),
             type(config.userdata).__name__)
        attempt("update_userdata(pairs)", lambda: config.update_userdata([("p", "q")]))
        attempt("update_userdata(bad)", lambda: config.update_userdata(3))
        emit("userdata after2", show(dict(config.userdata)))
        config2 = Configuration([])
        attempt("update_userdata(no defines)", lambda: config2.update_userdata({"foo": "u"}))
        emit("userdata nodefs", show(dict(config2.userdata)), show(config2.userdata_defines))
        same = config2.userdata
        config2.setup_userdata()
        emit("setup_userdata keeps object:", config2.userdata is same)
        config2.userdata = {"plain": "dict"}
        config2.userdata_defines = [("plain", "over"), ("z", "1")]
        config2.setup_userdata()
        emit("setup_userdata converts:", type(config2.userdata).__name__,
             show(dict(config2.userdata)))
        config2.userdata = None
        attempt("setup_userdata(None)", config2.setup_userdata)
        config2.userdata = [("a", "1")]
        config2.userdata_defines = []
        attempt("setup_userdata(pairs)", lambda: (config2.setup_userdata(),
                                                 type(config2.userdata).__name__,
                                                 dict(config2.userdata)))
        emit("Configuration.defaults(class)", show(Configuration.defaults))
        attempt("make_defaults", lambda: Configuration.make_defaults(jobs=3, brand_new=1))


# ---------------------------------------------------------------------------
# SECTION 5: userdata
# ---------------------------------------------------------------------------
def section_userdata():
    emit("== parse_user_define / unqote")
    names = ["foo", " foo ", "foo.bar", "", "'foo'", '"foo"', "f o"]
    values = ["bar", "", " bar ", "'bar'", '"bar"', "' bar '", "a=b", "'a=b'",
              "\"a='b'\"", "'", '"', "''", '""', "'x\"", "\"x'", "=", "==", " = ",
              "'x", "x'", "\t v \n"]
    for name in names:
        attempt("define(%r)" % name, parse_user_define, name)
        for value in values:
            for template in ("%s=%s", "%s = %s", "'%s=%s'", '"%s=%s"', " \"%s=%s\" ",
                             "'%s=%s", "%s=%s\""):
                text = template % (name, value)
                attempt("define(%r)" % text, parse_user_define, text)
    for text in ["", " ", "=", "'='", '"="', "'", '"', "''", "'\"", "a'='b", "'a'='b'",
                 "\"'a=b'\"", "'\"a=b\"'", "  'a' = 'b'  ", u"\xe4=\xf6", "a=b=c=d"]:
        attempt("define(%r)" % text, parse_user_define, text)
        attempt("unqote(%r)" % text, U.unqote, text)
    for bad in (None, 3, b"a=b", b"'a'", ["a=b"]):
        attempt("define(%r)" % (bad,), parse_user_define, bad)
        attempt("unqote(%r)" % (bad,), U.unqote, bad)

    emit("== parse_bool")
    for text in ["true", "True", " YES ", "on", "1", "false", "No", "off", "0", "",
                 "2", "y", "n", "maybe", " t "]:
        attempt("parse_bool(%r)" % text, U.parse_bool, text)
    for bad in (None, 1, True, b"true"):
        attempt("parse_bool(%r)" % (bad,), U.parse_bool, bad)

    emit("== UserData getters")
    raw_values = ["12", " 12 ", "-3", "1.5", "1e3", "abc", "", "true", "Yes", "off",
                  "0", "1", "2", 12, 1.5, True, False, None, [1], "0x10", "nan",
                  b"12", (1, 2)]
    data = UserData(("k%d" % i, v) for i, v in enumerate(raw_values))
    emit("data", show(dict(data)))
    ns_data = UserData(("my.ns.k%d" % i, v) for i, v in enumerate(raw_values))
    ns_data["other.k0"] = "99"
    namespace = UserDataNamespace("my.ns", ns_data)
    empty_ns = UserDataNamespace("", data)
    for i, value in enumerate(raw_values):
        key = "k%d" % i
        for getter in ("getint", "getfloat", "getbool"):
            attempt("%s(%r)" % (getter, value), getattr(data, getter), key)
            attempt("%s(%r, default)" % (getter, value), getattr(data, getter), key, "DEF")
            attempt("ns.%s(%r)" % (getter, value), getattr(namespace, getter), key)
            attempt("ens.%s(%r)" % (getter, value), getattr(empty_ns, getter), key)
        attempt("getas(str, %r)" % (value,), data.getas, str, key)
        attempt("getas(int, %r, valuetype=(int,float))" % (value,), data.getas,
                int, key, valuetype=(int, float))
        attempt("getas(int, %r, valuetype=())" % (value,), data.getas,
                int, key, valuetype=())
        attempt("getas(None, %r)" % (value,), data.getas, None, key)
        attempt("getas('notcallable', %r, valuetype=int)" % (value,), data.getas,
                "notcallable", key, valuetype=int)
        attempt("getas(len, %r, valuetype=int)" % (value,), data.getas,
                len, key, valuetype=int)
        attempt("ns.getas(float, %r)" % (value,), namespace.getas, float, key)
    for getter, defaults in (("getint", [None, 0, 5, "x"]), ("getfloat", [None, 2.5]),
                             ("getbool", [None, True, "maybe"])):
        attempt("%s(missing)" % getter, getattr(data, getter), "missing")
        attempt("ns.%s(missing)" % getter, getattr(namespace, getter), "missing")
        for default in defaults:
            attempt("%s(missing, %r)" % (getter, default), getattr(data, getter),
                    "missing", default)
            attempt("%s(missing, default=%r)" % (getter, default), getattr(data, getter),
                    "missing", default=default)
            attempt("ns.%s(missing, default=%r)" % (getter, default),
                    getattr(namespace, getter), "missing", default=default)
    attempt("getas(missing)", data.getas, int, "missing")
    attempt("getas(missing, default)", data.getas, int, "missing", default="D")
    attempt("getas(missing, bad convert)", data.getas, None, "missing", "D2")
    attempt("getas(missing, bad valuetype)", data.getas, int, "missing", "D3", "notatype")
    attempt("getas(present, bad valuetype)", data.getas, int, "k0", "D3", "notatype")
    attempt("getas(unhashable name)", data.getas, int, ["k0"])

    class Tracking(UserData):
        calls = []

        def get(self, name, default=None):
            self.calls.append(("get", name, repr(default)))
            return UserData.get(self, name, default)

        def __getitem__(self, name):
            self.calls.append(("getitem", name))
            return UserData.__getitem__(self, name)

        def __contains__(self, name):
            self.calls.append(("contains", name))
            return UserData.__contains__(self, name)

        def __missing__(self, name):
            self.calls.append(("missing", name))
            return "77"

    tracked = Tracking(a="1", b="x")
    for name in ("a", "b", "zz"):
        attempt("tracked.getint(%s)" % name, tracked.getint, name)
        attempt("tracked.getbool(%s)" % name, tracked.getbool, name, True)
    emit("tracked.calls", show(Tracking.calls))

    log = []

    def convert(text):
        log.append(("convert", text))
        return int(text)

    for key in ("k0", "k13", "missing", "k5"):
        attempt("getas(logging convert, %s)" % key, data.getas, convert, key,
                valuetype=int)
    emit("convert log", show(log))
    attempt("UserData.make(None)", lambda: (type(UserData.make(None)).__name__,
                                            dict(UserData.make(None))))
    plain = {"a": 1}
    attempt("UserData.make(dict)", lambda: (type(UserData.make(plain)).__name__,
                                            UserData.make(plain) is plain))
    attempt("UserData.make(same)", lambda: UserData.make(data) is data)
    attempt("ns views", lambda: (len(namespace), sorted(namespace.keys())[:3],
                                 "k0" in namespace, namespace["k0"],
                                 namespace.get("nope", "d"), len(empty_ns)))


SECTIONS = [
    ("options_iter", section_options_iter),
    ("coupling", section_coupling),
    ("readers", section_readers),
    ("precedence", section_precedence),
    ("userdata", section_userdata),
]


def main():
    try:
        for _name, section in SECTIONS:
            section()
    finally:
        os.chdir("/")
        shutil.rmtree(SCRATCH, ignore_errors=True)
    sys.stdout.write("\n".join(LINES) + "\n")
    sys.stdout.write("TOTAL LINES: %d\n" % len(LINES))


if __name__ == "__main__":
    main()
