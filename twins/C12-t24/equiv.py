# -*- coding: UTF-8 -*-
"""
Equivalence transcript for property C12 (hooks: nesting, pairing, containment).

Runs a set of feature trees through behave.runner.ModelRunner with generated,
logging hook functions; takes every hook invocation of the fault-free run as a
fault-injection point (Exception / AssertionError), plus a sample of pairs,
with tag selection, --stop, --dry-run, --show-skipped, --verbose variations.
Prints a canonical transcript (hook log, formatter/reporter call log, element
statuses, error messages, printed output, verdict).
"""
from __future__ import absolute_import, print_function
import sys
sys.path.insert(0, "/tmp/wtX/C12")

import io
import re
import logging
import itertools
import six
from behave.configuration import Configuration
from behave.runner import ModelRunner
from behave.parser import parse_feature
from behave.step_registry import StepRegistry
from behave.formatter.base import Formatter
from behave.reporter.base import Reporter

assert sys.modules["behave"].__file__.startswith("/tmp/wtX/C12/")

OUT = []


def emit(text=u""):
    OUT.append(text)


# -----------------------------------------------------------------------------
# FEATURES
# -----------------------------------------------------------------------------
FEATURE_A = u"""
@fa @common
Feature: Alpha
  Background:
    Given a passing step

  @s1 @slow
  Scenario: A1
    When a passing step
    Then a passing step

  @s2
  Scenario: A2
    When a failing step
    Then a passing step

  Scenario: A3 untagged
    Given an undefined thing
    Then a passing step

  @outline
  Scenario Outline: A4 <name>
    Given a step with <name>

    @ex1
    Examples: E1
      | name |
      | one  |
      | two  |
"""

FEATURE_B = u"""
@fb
Feature: Beta
  Scenario: B1
    Given a passing step

  @r1 @common
  Rule: First rule
    Background:
      Given a passing step

    @s3
    Scenario: B2
      When a passing step
      And a step that skips the scenario
      Then a passing step

    Scenario: B3
      When a step that raises an error
      Then a passing step

  @r2
  Rule: Second rule
    @s4 @wip
    Scenario: B4
      Given a pending step
      Then a passing step

    @s5
    Scenario: B5
      Given a passing step
"""

FEATURE_C = u"""
Feature: Gamma
  @only
  Scenario: C1
    Given a passing step
    When a passing step
"""

FEATURE_EMPTY = u"""
@empty
Feature: Delta without scenarios
"""

FEATURE_NOSTEPS = u"""
Feature: Epsilon
  @nosteps
  Scenario: E1 no steps

  Rule: Empty rule
"""

FEATURE_INTERRUPT = u"""
Feature: Zeta
  Scenario: Z1
    Given a passing step
    When a step that is interrupted
    Then a passing step

  Scenario: Z2
    Given a passing step
"""

FEATURE_NESTED = u"""
Feature: Eta
  Scenario: N1 pending without wip
    Given a pending step
    Then a passing step

  @wip
  Scenario: N2 pending without text
    Given a bare pending step

  Scenario: N3 nested good
    Given a step that executes good sub-steps
    Then a passing step

  Scenario: N4 nested bad
    Given a step that executes bad sub-steps
    Then a passing step

  Scenario: N5 nested undefined
    Given a step that executes undefined sub-steps

  Scenario: N6 bare assertion
    Given a bare failing step

  Scenario: N7 undefined
    Given an undefined thing
    Then a passing step
"""

FEATURES = {
    "NESTED": FEATURE_NESTED,
    "A": FEATURE_A, "B": FEATURE_B, "C": FEATURE_C,
    "EMPTY": FEATURE_EMPTY, "NOSTEPS": FEATURE_NOSTEPS,
    "INT": FEATURE_INTERRUPT,
}


# -----------------------------------------------------------------------------
# STEPS
# -----------------------------------------------------------------------------
def make_registry():
    from behave.api.pending_step import StepNotImplementedError
    registry = StepRegistry()

    def step_pass(context):
        pass

    def step_fail(context):
        assert False, "XFAIL-STEP"

    def step_fail_noargs(context):
        raise AssertionError()

    def step_error(context):
        raise RuntimeError("XERROR-STEP")

    def step_with(context, name):
        print("step with %s" % name)

    def step_skip(context):
        context.scenario.skip("skipped by step")

    def step_pending(context):
        raise StepNotImplementedError("not yet")

    def step_interrupt(context):
        raise KeyboardInterrupt()

    def step_pending_bare(context):
        raise StepNotImplementedError()

    def step_nested_good(context):
        context.execute_steps(u"Given a passing step\nWhen a step with nested")

    def step_nested_bad(context):
        context.execute_steps(u"Given a passing step\nWhen a failing step")

    def step_nested_undefined(context):
        context.execute_steps(u"Given an unknown sub-step")

    registry.add_step_definition("step", u"a bare pending step", step_pending_bare)
    registry.add_step_definition("step", u"a step that executes good sub-steps",
                                 step_nested_good)
    registry.add_step_definition("step", u"a step that executes bad sub-steps",
                                 step_nested_bad)
    registry.add_step_definition("step", u"a step that executes undefined sub-steps",
                                 step_nested_undefined)
    registry.add_step_definition("step", u"a passing step", step_pass)
    registry.add_step_definition("step", u"a failing step", step_fail)
    registry.add_step_definition("step", u"a bare failing step", step_fail_noargs)
    registry.add_step_definition("step", u"a step that raises an error", step_error)
    registry.add_step_definition("step", u"a step with {name}", step_with)
    registry.add_step_definition("step", u"a step that skips the scenario", step_skip)
    registry.add_step_definition("step", u"a pending step", step_pending)
    registry.add_step_definition("step", u"a step that is interrupted", step_interrupt)
    return registry


# -----------------------------------------------------------------------------
# RECORDING FORMATTER / REPORTER
# -----------------------------------------------------------------------------
def describe(obj):
    name = getattr(obj, "name", None)
    status = getattr(obj, "status", None)
    status_name = getattr(status, "name", status)
    return u"%s:%s[%s]" % (type(obj).__name__, name, status_name)


class RecordingFormatter(object):
    def __init__(self, log):
        self.log = log

    def uri(self, uri):
        self.log.append(u"fmt.uri %s" % uri)

    def feature(self, feature):
        self.log.append(u"fmt.feature %s" % describe(feature))

    def rule(self, rule):
        self.log.append(u"fmt.rule %s" % describe(rule))

    def background(self, background):
        self.log.append(u"fmt.background %s" % background.name)

    def scenario(self, scenario):
        self.log.append(u"fmt.scenario %s" % describe(scenario))

    def step(self, step):
        self.log.append(u"fmt.step %s" % describe(step))

    def match(self, match):
        func = getattr(match, "func", None)
        self.log.append(u"fmt.match %s %s" % (type(match).__name__,
                                               getattr(func, "__name__", None)))

    def result(self, step):
        self.log.append(u"fmt.result %s hook_failed=%s" %
                        (describe(step), step.hook_failed))

    def rule_finished(self):
        self.log.append(u"fmt.rule_finished")

    def eof(self):
        self.log.append(u"fmt.eof")

    def close(self):
        self.log.append(u"fmt.close")


class LogToList(logging.Handler):
    def __init__(self, log):
        logging.Handler.__init__(self)
        self.log = log

    def emit(self, record):
        self.log.append(u"logging %s %s" % (record.levelname,
                                            record.getMessage()))


class RecordingReporter(object):
    def __init__(self, log):
        self.log = log

    def feature(self, feature):
        self.log.append(u"rep.feature %s" % describe(feature))

    def end(self):
        self.log.append(u"rep.end")


# -----------------------------------------------------------------------------
# HOOKS
# -----------------------------------------------------------------------------
HOOK_NAMES = [
    "before_all", "after_all", "before_feature", "after_feature",
    "before_rule", "after_rule", "before_scenario", "after_scenario",
    "before_step", "after_step", "before_tag", "after_tag",
]


class HookPlan(object):
    """Generated hook functions: log each call, raise at chosen call numbers."""

    def __init__(self, log, faults=None, actions=None, only=None):
        self.log = log
        self.faults = faults or {}      # call-number -> exception factory
        self.actions = actions or {}    # (hook-name, element-name) -> callable
        self.only = only                # None or set of hook names
        self.counter = 0

    def make_hook(self, name):
        def hook(context, *args):
            self.counter += 1
            number = self.counter
            arg = args[0] if args else None
            what = u"-" if arg is None else (
                u"tag=%s" % arg if "tag" in name else describe(arg))
            self.log.append(u"hook#%d %s %s" % (number, name, what))
            action = self.actions.get((name, getattr(arg, "name", arg)))
            if action:
                action(context, arg)
            fault = self.faults.get(number)
            if fault:
                raise fault()
        hook.__name__ = name
        return hook

    def hooks(self):
        names = HOOK_NAMES if self.only is None else self.only
        return dict((name, self.make_hook(name)) for name in names)


def fault_exception():
    return Exception("INJECTED-Exception")


def fault_assertion():
    return AssertionError("INJECTED-AssertionError")


def fault_assertion_noargs():
    return AssertionError()


def fault_unicode():
    return ValueError(u"INJECTED \xe4\xf6\xfc")


def fault_keyboard():
    return KeyboardInterrupt()


# -----------------------------------------------------------------------------
# RUN ONE PROGRAM
# -----------------------------------------------------------------------------
LINE_NO = re.compile(r"line \d+")
HEX_ID = re.compile(r"0x[0-9a-fA-F]+")


def normalize(text):
    text = LINE_NO.sub("line N", text)
    text = HEX_ID.sub("0xX", text)
    return text


def walk(features):
    for feature in features:
        yield 0, feature
        for item in feature.run_items:
            for entry in walk_item(item, 1):
                yield entry


def walk_item(item, depth):
    yield depth, item
    if hasattr(item, "run_items"):          # Rule
        for sub in item.run_items:
            for entry in walk_item(sub, depth + 1):
                yield entry
    elif hasattr(item, "scenarios"):        # ScenarioOutline
        for sub in item.scenarios:
            for entry in walk_item(sub, depth + 1):
                yield entry
    else:
        for step in item.all_steps:
            yield depth + 1, step


def run_program(feature_keys, args=(), faults=None, actions=None, only=None,
                show=True, title=None):
    log = []
    config = Configuration(command_args=list(args), load_config=False)
    config.reporters = [RecordingReporter(log)]
    features = []
    for key in feature_keys:
        features.append(parse_feature(FEATURES[key].lstrip(),
                                      filename=u"features/%s.feature" % key))
    runner = ModelRunner(config, features=features,
                         step_registry=make_registry())
    plan = HookPlan(log, faults=faults, actions=actions, only=only)
    runner.hooks = plan.hooks()
    runner.formatters = [RecordingFormatter(log)]

    real_stdout = sys.stdout
    captured = io.StringIO() if six.PY3 else io.BytesIO()
    sys.stdout = captured
    handler = LogToList(log)
    logging.getLogger().addHandler(handler)
    outcome = None
    try:
        try:
            outcome = u"returned %r" % (runner.run(),)
        except BaseException as e:      # pylint: disable=broad-except
            outcome = u"raised %s: %s" % (type(e).__name__, e)
    finally:
        sys.stdout = real_stdout
        logging.getLogger().removeHandler(handler)

    if show:
        emit(u"=" * 70)
        emit(u"PROGRAM %s" % title)
        emit(u"outcome: %s" % outcome)
        emit(u"hook_failures=%r aborted=%r undefined=%d hook_calls=%d" % (
            runner.hook_failures, runner.aborted,
            len(runner.undefined_steps), plan.counter))
        emit(u"-- call log")
        for line in log:
            emit(u"  " + line)
        emit(u"-- final model")
        for depth, element in walk(features):
            message = getattr(element, "error_message", None)
            exception = getattr(element, "exception", None)
            emit(u"  %s%s hook_failed=%r exc=%s" % (
                u"  " * depth, describe(element),
                getattr(element, "hook_failed", None),
                type(exception).__name__))
            if message:
                for part in normalize(message).splitlines():
                    emit(u"  %s    | %s" % (u"  " * depth, part))
        emit(u"-- stdout")
        value = captured.getvalue()
        if not isinstance(value, six.text_type):
            value = value.decode("utf-8")
        for line in normalize(value).splitlines():
            emit(u"  > " + line)
    return plan.counter


def run_steps_directly(args, quiet, capture, fault):
    from behave.runner import Context
    log = []
    config = Configuration(command_args=list(args), load_config=False)
    config.reporters = []
    feature = parse_feature(FEATURES["NESTED"].lstrip(),
                            filename=u"features/NESTED.feature")
    runner = ModelRunner(config, features=[feature],
                         step_registry=make_registry())
    faults = {fault: fault_exception} if fault else None
    plan = HookPlan(log, faults=faults, only=["before_step", "after_step"])
    runner.hooks = plan.hooks()
    runner.formatters = [RecordingFormatter(log)]
    runner.context = Context(runner)
    runner.setup_capture()
    emit(u"=" * 70)
    emit(u"DIRECT Step.run args=%s quiet=%s capture=%s fault=%s" %
         (" ".join(args), quiet, capture, fault))
    real_stdout = sys.stdout
    sys.stdout = io.StringIO() if six.PY3 else io.BytesIO()
    try:
        runner.feature = feature
        runner.context._push(layer="feature")
        runner.context.feature = feature
        for scenario in feature.scenarios:
            runner.context._push(layer="scenario")
            runner.context.scenario = scenario
            for step in scenario.steps:
                plan.counter = 0
                try:
                    result = u"%r" % (step.run(runner, quiet=quiet,
                                               capture=capture),)
                except BaseException as e:  # pylint: disable=broad-except
                    result = u"raised %s: %s" % (type(e).__name__, e)
                emit(u"  %s -> %s hook_failed=%r duration-type=%s undefined=%d" % (
                    describe(step), result, step.hook_failed,
                    type(step.duration).__name__, len(runner.undefined_steps)))
                for part in normalize(step.error_message or u"").splitlines():
                    emit(u"      | %s" % part)
            runner.context._pop()
    finally:
        sys.stdout = real_stdout
        runner.teardown_capture()
    for line in log:
        emit(u"  " + line)


def main():
    variations = [
        (("A", "B", "C"), ()),
        (("A", "B", "C"), ("--stop",)),
        (("A", "B"), ("--tags=@common",)),
        (("B", "C"), ("--tags=not @r1", "--show-skipped")),
        (("A", "C"), ("--tags=@s1 or @only", "--no-skipped")),
        (("C", "EMPTY", "NOSTEPS"), ()),
        (("C", "EMPTY", "NOSTEPS"), ("--show-skipped", "--tags=@empty or @nosteps")),
        (("B",), ("--verbose",)),
    ]
    # -- 1. Fault-free runs and EVERY hook call as injection point.
    for keys, args in variations:
        title = u"%s args=%s" % ("+".join(keys), " ".join(args))
        count = run_program(keys, args, title=title + u" fault-free")
        factories = [("Exception", fault_exception),
                     ("AssertionError", fault_assertion)]
        for k in range(1, count + 1):
            name, factory = factories[k % 2]
            run_program(keys, args, faults={k: factory},
                        title=u"%s fault@%d=%s" % (title, k, name))
            if len(keys) == 3 and not args:
                # -- BOTH exception kinds for the plain variation.
                name, factory = factories[(k + 1) % 2]
                run_program(keys, args, faults={k: factory},
                            title=u"%s fault@%d=%s" % (title, k, name))

    # -- 2. Pairs of injection points.
    keys, args = ("B", "C"), ()
    count = run_program(keys, args, show=False)
    points = list(range(1, count + 1, 3))
    for k1, k2 in itertools.combinations(points, 2):
        if (k1 + k2) % 4:
            continue
        run_program(keys, args,
                    faults={k1: fault_exception, k2: fault_assertion},
                    title=u"B+C pair fault@%d,%d" % (k1, k2))
    for k in range(1, 12):
        run_program(("A",), ("--stop",),
                    faults={k: fault_assertion_noargs, k + 1: fault_unicode},
                    title=u"A --stop pair fault@%d,%d" % (k, k + 1))

    # -- 3. Dry-run: hooks are not called at all.
    for args in (("--dry-run",), ("--dry-run", "--tags=@common"),
                 ("--dry-run", "--show-skipped", "--tags=@s2")):
        run_program(("A", "B"), args, faults={1: fault_exception},
                    title=u"A+B %s" % " ".join(args))

    # -- 4. Hooks that exclude / skip elements, subset of hooks only.
    def skip_it(context, element):
        element.skip("excluded by hook")

    def mark_skipped(context, element):
        element.mark_skipped()

    def abort_run(context, element):
        context.abort(reason="by hook")

    run_program(("A", "B"), (), title=u"skip in before_scenario/feature/rule",
                actions={("before_scenario", u"A1"): skip_it,
                         ("before_feature", u"Beta"): skip_it})
    run_program(("B",), (), title=u"mark_skipped in before_rule/before_tag",
                actions={("before_rule", u"First rule"): mark_skipped,
                         ("before_scenario", u"B5"): mark_skipped})
    run_program(("A", "B"), (), title=u"abort in after_scenario",
                actions={("after_scenario", u"A2"): abort_run})
    run_program(("A", "B"), (), title=u"abort in before_feature",
                actions={("before_feature", u"Alpha"): abort_run})
    run_program(("B",), (), title=u"abort in before_step",
                actions={("before_step", u"a step that skips the scenario"): abort_run})
    for only in (["before_tag", "after_tag"], ["after_scenario", "after_all"],
                 ["before_step"], ["before_all"], []):
        for k in (1, 2, 5):
            run_program(("A", "C"), ("--tags=@s1 or @s2 or @only",), only=only,
                        faults={k: fault_exception},
                        title=u"only=%s fault@%d" % (",".join(only), k))

    # -- 5. KeyboardInterrupt in steps and in hooks (BaseException).
    run_program(("INT", "C"), (), title=u"KeyboardInterrupt in step")
    for k in range(1, 14):
        run_program(("INT", "C"), (), faults={k: fault_keyboard},
                    title=u"KeyboardInterrupt in hook@%d" % k)
    for k in (1, 2, 3, 6, 9):
        run_program(("C",), ("--verbose",), faults={k: fault_unicode},
                    title=u"verbose unicode fault@%d" % k)

    # -- 6. Failing cleanups registered by hooks (testrun/feature/scenario).
    def bad_cleanup():
        raise RuntimeError("XCLEANUP")

    def add_bad_cleanup(context, element):
        context.add_cleanup(bad_cleanup)

    for where in (("before_all", None), ("after_all", None),
                  ("before_feature", u"Gamma"), ("before_scenario", u"C1"),
                  ("after_scenario", u"C1"), ("before_tag", u"only"),
                  ("before_step", u"a passing step")):
        run_program(("C", "EMPTY"), (), actions={where: add_bad_cleanup},
                    title=u"failing cleanup added in %s" % where[0])
        run_program(("C", "EMPTY"), ("--stop",), actions={where: add_bad_cleanup},
                    faults={2: fault_exception},
                    title=u"failing cleanup added in %s + fault@2" % where[0])

    # -- 7. Features passed as a one-shot iterator, empty feature list.
    run_program((), (), title=u"no features")
    run_program((), (), faults={1: fault_exception}, title=u"no features fault@1")
    run_program((), (), faults={2: fault_assertion}, title=u"no features fault@2")

    # -- 8. Hooks that change the tag list while the tag hooks are running.
    def add_tag(context, tag):
        owner = getattr(context, "scenario", None) or context.feature
        if u"added" not in owner.tags:
            owner.tags.append(u"added")

    def drop_tags(context, element):
        del element.tags[1:]

    run_program(("A",), (), actions={("before_tag", u"s1"): add_tag,
                                     ("before_tag", u"fa"): add_tag},
                title=u"tag appended in before_tag")
    run_program(("A",), (), actions={("after_tag", u"s1"): add_tag,
                                     ("before_scenario", u"A1"): drop_tags},
                faults={5: fault_exception},
                title=u"tags changed in before_scenario/after_tag + fault@5")

    # -- 9. Pending/nested/bare-assertion steps with step-hook faults.
    count = run_program(("NESTED",), (), title=u"NESTED fault-free")
    for k in range(1, count + 1):
        run_program(("NESTED",), (), faults={k: fault_exception},
                    title=u"NESTED fault@%d" % k)
    run_program(("NESTED",), ("--dry-run",), title=u"NESTED --dry-run")
    run_program(("NESTED",), ("--tags=@wip",), only=["before_step", "after_step"],
                faults={1: fault_assertion, 2: fault_exception},
                title=u"NESTED step hooks only fault@1,2")

    # -- 10. Step.run() called directly (dry-run and normal mode, quiet or not).
    for args in ((), ("--dry-run",)):
        for quiet in (False, True):
            for capture in (True, False):
                for fault in (None, 1, 2):
                    run_steps_directly(args, quiet, capture, fault)

    text = u"\n".join(OUT) + u"\n"
    if six.PY2:
        text = text.encode("utf-8")
        sys.stdout.write(text)
    else:
        sys.stdout.buffer.write(text.encode("utf-8"))


if __name__ == "__main__":
    main()
