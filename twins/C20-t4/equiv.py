# -*- coding: UTF-8 -*-
"""Equivalence transcript for C20-t4
(behave/configuration.py: Configuration.__init__ (args -> attributes),
make_defaults, setup_userdata, update_userdata)."""
from __future__ import print_function
import sys
sys.path.insert(0, "/tmp/wtT/C20")
import os
import re
import subprocess
import tempfile

from behave.configuration import Configuration
from behave.userdata import UserData

WORKDIR = os.path.realpath(tempfile.mkdtemp(prefix="c20t4_"))


def norm(value):
    if isinstance(value, str):
        return value.replace(WORKDIR, "<WORKDIR>")
    if isinstance(value, (list, tuple)):
        return type(value)(norm(x) for x in value)
    if isinstance(value, dict):
        return dict((k, norm(v)) for k, v in value.items())
    return value


def describe(value):
    value = norm(value)
    if isinstance(value, (type(None), bool, int, float, str, list, tuple, dict)):
        if isinstance(value, UserData):
            return "UserData(%r)" % (list(value.items()),)
        if isinstance(value, list) and value and not isinstance(value[0], (str, tuple, list)):
            return "[%s]" % ", ".join(x.__class__.__name__ for x in value)
        return repr(value)
    if hasattr(value, "pattern"):
        return "re(%r)" % value.pattern
    return "<%s>" % value.__class__.__name__


def dump_config(config):
    # -- KEEP: instance attribute ORDER (= order of setattr calls) is part of the transcript.
    for name, value in config.__dict__.items():
        print("    %s = %s" % (name, describe(value)))


# -- PART 1: make_defaults()
print("== PART 1: make_defaults")
class_defaults_before = repr(sorted(Configuration.defaults.items(), key=lambda kv: kv[0]))
for kwargs in ({}, {"jobs": 4}, {"stage": "x", "brand_new": [1, 2]}, {"userdata": {"a": "1"}, "color": "on"}):
    data = Configuration.make_defaults(**kwargs)
    print("kwargs=%r" % (kwargs,))
    print("    keys = %r" % (list(data.keys()),))
    print("    changed = %r" % (sorted((k, v) for k, v in data.items()
                                      if Configuration.defaults.get(k, "<NONE>") != v),))
    print("    is a copy: %r" % (data is not Configuration.defaults,))
print("class defaults unchanged: %r" % (
    class_defaults_before == repr(sorted(Configuration.defaults.items(), key=lambda kv: kv[0])),))

# -- PART 2: Configuration objects: defaults / file / command line / kwargs.
print("== PART 2: Configuration")
SCENARIOS = [
    ("nofile", None),
    ("ini", "[behave]\nstop = true\njobs = 2\nlang = de\nshow_skipped = false\nformat = plain\n"
            "outfiles = out.txt\npaths = feat\n"
            "[behave.userdata]\nfoo = file_foo\nbar = file_bar\n"),
]
CMDLINES = [
    [],
    ["-D", "foo=cmd_foo"],
    ["-D", "foo=1", "-D", "baz", "--define", "foo=2"],
    ["--jobs", "6", "--no-skipped", "--lang=fr", "features/x.feature:3", "./a/../b"],
    ["--show-skipped", "-q", "--wip"],
    ["--steps-catalog", "-D", "bar='quoted'"],
    "--stop -D 'name=with space' -t @a -t 'not @b'",
]
for kind, content in SCENARIOS:
    project = os.path.join(WORKDIR, "project_" + kind)
    os.makedirs(project)
    os.chdir(project)
    if content:
        with open("behave.ini", "w") as f:
            f.write(content)
    for args in CMDLINES:
        for kwargs in ({}, {"jobs": 9, "userdata": {"kw": "1", "foo": "kw_foo"}, "extra_default": "E"}):
            label = "KIND %s ARGS %r KW %r" % (kind, args, kwargs)
            command_args = list(args) if isinstance(args, list) else args
            try:
                config = Configuration(command_args=command_args, **kwargs)
            except BaseException as e:  # noqa
                print("%s !! %s: %s" % (label, e.__class__.__name__, e))
                continue
            print(label)
            dump_config(config)
            print("    -- defaults(instance) keys = %r" % (list(config.defaults.keys()),))
            print("    -- userdata type = %s" % type(config.userdata).__name__)
            userdata_id = id(config.userdata)
            config.update_userdata({"foo": "updated_foo", "upd": "U"})
            print("    -- after update_userdata: %r (same object: %r)" % (
                list(config.userdata.items()), id(config.userdata) == userdata_id))
            config.setup_userdata()
            print("    -- after 2nd setup_userdata: %r (same object: %r)" % (
                list(config.userdata.items()), id(config.userdata) == userdata_id))
            config.userdata_defines = None
            config.update_userdata([("foo", "no_defines")])
            print("    -- defines=None, update: %r" % (list(config.userdata.items()),))
            config.userdata_defines = []
            config.userdata = {"plain": "dict"}
            config.setup_userdata()
            print("    -- defines=[], plain dict: %s %r" % (type(config.userdata).__name__, list(config.userdata.items())))
            config.userdata_defines = {"m": "mapping"}
            config.userdata = [("pairs", "p")]
            config.setup_userdata()
            print("    -- defines=mapping, pairs: %s %r" % (type(config.userdata).__name__, list(config.userdata.items())))

# -- PART 3: error paths.
print("== PART 3: errors")
os.chdir(os.path.join(WORKDIR, "project_nofile"))
config = Configuration(command_args=[])
config.userdata = None
config.userdata_defines = [("a", "1")]
for label, func, args in [
    ("update_userdata(userdata=None)", config.update_userdata, ({"x": "1"},)),
    ("setup_userdata(userdata=None)", config.setup_userdata, ()),
]:
    try:
        func(*args)
        print("%s -> ok userdata=%r" % (label, config.userdata))
    except Exception as e:  # noqa
        print("%s !! %s: %s" % (label, e.__class__.__name__, e))
config = Configuration(command_args=[])
config.userdata_defines = [("broken",)]
try:
    config.update_userdata({"x": "1"})
    print("broken defines -> ok %r" % (config.userdata,))
except Exception as e:  # noqa
    print("broken defines !! %s: %s ; userdata=%r" % (e.__class__.__name__, e, list(config.userdata.items())))

# -- PART 4: end-to-end via "python -m behave" with an environment that prints the config.
print("== PART 4: python -m behave")
project = os.path.join(WORKDIR, "project_e2e")
os.makedirs(os.path.join(project, "features", "steps"))
os.chdir(project)
with open("behave.ini", "w") as f:
    f.write("[behave]\nshow_timings = false\ndefault_format = plain\n"
            "[behave.userdata]\nfoo = file_foo\nnum = 3\n")
with open("features/environment.py", "w") as f:
    f.write("def before_all(context):\n"
            "    ud = context.config.userdata\n"
            "    print('USERDATA %r' % (sorted(ud.items()),))\n"
            "    print('GETINT num=%r missing=%r' % (ud.getint('num'), ud.getint('missing', 5)))\n"
            "    context.config.update_userdata({'foo': 'env_foo', 'late': 'L'})\n"
            "    print('UPDATED %r' % (sorted(ud.items()),))\n"
            "    print('STOP=%r JOBS=%r TIMINGS=%r' % (context.config.stop, context.config.jobs, context.config.show_timings))\n")
with open("features/steps/steps.py", "w") as f:
    f.write("from behave import step\n@step(u'a step passes')\ndef step_impl(ctx):\n    pass\n")
with open("features/a.feature", "w") as f:
    f.write("Feature: F\n  Scenario: S\n    Given a step passes\n")
env = dict(os.environ, PYTHONPATH="/tmp/wtT/C20", HOME=project)
env.pop("BEHAVE_STAGE", None)
for args in ([], ["-D", "foo=cmd_foo", "-D", "flag"], ["--stop", "-D", "num=0x"], ["--show-timings", "--no-capture"]):
    proc = subprocess.run([sys.executable, "-m", "behave"] + args, env=env, cwd=project,
                          stdout=subprocess.PIPE, stderr=subprocess.STDOUT, universal_newlines=True)
    print("BEHAVE ARGS %r -> exit %d" % (args, proc.returncode))
    for line in proc.stdout.splitlines():
        if "Took " in line and "show-timings" not in str(args):
            line = "Took <DURATION>"
        if line.startswith("Took "):
            line = "Took <DURATION>"
        line = re.sub(r" in \d+\.\d+s", " in <T>s", line)
        print("    | %s" % norm(line).rstrip())
