# -*- coding: UTF-8 -*-
"""Equivalence transcript for property C10 (file-location / name selection).

Prints a canonical transcript of everything observed through the public
behaviour of behave.runner_util (+ `python -m behave` runs).
"""
from __future__ import absolute_import, print_function
import itertools
import os
import subprocess
import sys

WORKTREE = "/tmp/wtW/C10"
sys.path.insert(0, WORKTREE)
HERE = os.path.dirname(os.path.abspath(__file__))
WORK = os.path.join(HERE, "_work")

from behave import runner_util                                  # noqa: E402
from behave.runner_util import (                                # noqa: E402
    FileLocationParser, FeatureLineDatabase, FeatureListParser,
    FeatureScenarioLocationCollector, FeatureScenarioLocationCollector1,
    FeatureScenarioLocationCollector2, parse_features,
    collect_feature_locations)
from behave.model_core import FileLocation                      # noqa: E402
from behave.model import Feature, Rule, ScenarioOutline, Scenario  # noqa: E402
from behave import parser as gherkin                            # noqa: E402
from behave.configuration import Configuration                  # noqa: E402

assert runner_util.__file__.startswith(WORKTREE), runner_util.__file__

ALICE = u"""\
@feature_tag
Feature: Alice
  Some description line.

  Background:
    Given a background step

  @setup
  Scenario: A0 setup
    Given a step passes

  Scenario: A1 first
    Given a step passes
    When another step passes

    Then a step passes

  # a comment line
  @wip
  Scenario Outline: A2 outline <name>
    Given a step with <name>
    Then a step passes

    @ex1
    Examples: Alpha
      | name  |
      | one   |
      | two   |

    Examples: Beta
      | name  |
      | three |

  Scenario: A3 last.*
    Given a step passes

  @teardown
  Scenario: A4 teardown
    Given a step passes
"""

BOB = u"""\
Feature: Bob with rules

  Scenario: B1 before rules
    Given a step passes

  Rule: R1 first rule

    Background: R1 background
      Given a background step

    Scenario: B2 in rule one
      Given a step passes

    Scenario Outline: B3 outline in rule <name>
      Given a step with <name>

      Examples:
        | name |
        | x    |
        | y    |

  @rule_tag
  Rule: R2 second rule
    Scenario: B4 in rule two
      Given a step passes
    @setup
    Scenario: B5 setup in rule two
      Given a step passes

    Scenario: B6 (paren) [br]
      Given a step passes
"""

CHARLY = u"""\


# leading comment
Feature: Charly
  Scenario: C1 only
    Given a step passes
  Scenario: C2 other
    Given a step passes"""

DORA = u"""\
Feature: Dora without scenarios
  Only a description.
"""

EMPTY = u"# nothing here\n\n"

STEPS = u"""\
from behave import given, when, then, step

@step(u'a step passes')
def step_passes(ctx):
    pass

@step(u'another step passes')
def step_passes2(ctx):
    pass

@step(u'a background step')
def step_bg(ctx):
    pass

@step(u'a step with {name}')
def step_with(ctx, name):
    pass
"""

LISTFILE = u"""\
# -- a comment line
features/alice.feature:12

   # indented comment
  features/bob.feature:9
features/bob.feature:27
features/charly.feature
"""

LISTFILE2 = u"""\
alice.feature:40
alice.feature:21
*.feature
c*.feature:5
../features/dora.feature
"""

FILES = {
    "features/alice.feature": ALICE,
    "features/bob.feature": BOB,
    "features/charly.feature": CHARLY,
    "features/dora.feature": DORA,
    "features/empty.feature": EMPTY,
    "features/steps/steps.py": STEPS,
    "features/more.featureset": LISTFILE2,
    "some.txt": LISTFILE,
    "sub/dir/x.feature": CHARLY.replace("Charly", "Xavier"),
    "sub/a.feature": DORA.replace("Dora", "SubA"),
}


def setup_workdir():
    for relname, text in sorted(FILES.items()):
        path = os.path.join(WORK, relname)
        dirname = os.path.dirname(path)
        if not os.path.isdir(dirname):
            os.makedirs(dirname)
        with open(path, "wb") as f:
            f.write(text.encode("utf-8"))
    os.chdir(WORK)


def rel(path):
    if path is None:
        return None
    path = str(path)
    if os.path.isabs(path):
        if path.startswith(WORK):
            return "<W>" + path[len(WORK):]
    return path


def show(*args):
    print(*args)


def section(title):
    print()
    print("=" * 8, title)


def describe_exc(e):
    text = str(e).replace(WORK, "<W>")
    return "%s: %s" % (e.__class__.__name__, text)


def attempt(label, func, *args, **kwargs):
    try:
        result = func(*args, **kwargs)
    except Exception as e:     # pylint: disable=broad-except
        show(label, "-> RAISES", describe_exc(e))
        return None
    return result


def describe_entity(entity):
    if entity is None:
        return "None"
    return "%s(%r @%s)" % (entity.__class__.__name__, entity.name,
                           entity.location.line)


def describe_location(loc):
    return "FileLocation(%r, %r)" % (rel(loc.filename), loc.line)


# ---------------------------------------------------------------------------
def check_file_location_parser():
    section("FileLocationParser.parse")
    texts = [
        "a.feature", "a.feature:0", "a.feature:1", "a.feature:12",
        "  a.feature:12  ", " a.feature : 12 ", "a.feature: 12",
        "a.feature:12:13", "a.feature:x", "a.feature:-1", "a.feature:",
        ":12", "", "  ", "dir/a.feature:007", "C:\\x\\a.feature:3",
        "a.feature:12 # comment", u"\u00e4.feature:5", "a.feature:1e3",
        "a:b:c", "a.feature:\t9\t", "a.feature:99999999999999999999",
        "a.feature\n:3", "a.feature:3\n",
    ]
    for text in texts:
        loc = attempt(repr(text), FileLocationParser.parse, text)
        if loc is not None:
            show(repr(text), "->", describe_location(loc),
                 type(loc.line).__name__)
    attempt("None", FileLocationParser.parse, None)
    attempt("12", FileLocationParser.parse, 12)


def check_feature_list_parser():
    section("FeatureListParser.parse")
    texts = [
        u"", u"\n\n", u"# only comment", LISTFILE, LISTFILE2,
        u"a.feature\nb.feature:3\n#c.feature\n\n  d.feature:4  ",
        u"./a/../b.feature:3\n/abs/path/x.feature:7\n",
        u"features/*.feature\nfeatures/[ab]*.feature:3\nnone*.feature",
        u"sub/*/x.feature\nsub/?.feature",
        u"a.feature\r\nb.feature\rc.feature:2",
        u" #x\n\t\n a b.feature :12",
    ]
    heres = [None, "", ".", "features", os.path.join(WORK, "features"),
             "sub/dir/../.."]
    for text in texts:
        for here in heres:
            label = "parse(%r, here=%r)" % (text, rel(here))
            locs = attempt(label, FeatureListParser.parse, text, here)
            if locs is not None:
                show(label, "->", type(locs).__name__)
                for loc in locs:
                    show("    ", describe_location(loc))
    attempt("parse(None)", FeatureListParser.parse, None)

    section("FeatureListParser.parse_file")
    names = ["some.txt", "@some.txt", "@@some.txt", "features/more.featureset",
             "@features/more.featureset", "missing.txt", "@missing.txt",
             "features", os.path.join(WORK, "some.txt"), "@", ""]
    for name in names:
        label = "parse_file(%r)" % rel(name)
        locs = attempt(label, FeatureListParser.parse_file, name)
        if locs is not None:
            show(label, "->")
            for loc in locs:
                show("    ", describe_location(loc))


FEATURE_FILES = ["features/alice.feature", "features/bob.feature",
                 "features/charly.feature", "features/dora.feature"]


def line_count(filename):
    with open(filename, "rb") as f:
        return len(f.read().decode("utf-8").splitlines())


def check_line_database():
    section("FeatureLineDatabase")
    for filename in FEATURE_FILES:
        feature = gherkin.parse_file(os.path.abspath(filename))
        entities = [feature]
        entities.extend(feature.walk_scenarios(with_outlines=True,
                                               with_rules=True))
        nlines = line_count(filename)
        for entity in entities:
            show("--", filename, "ENTITY", describe_entity(entity))
            line_data = FeatureLineDatabase.make_line_data_for(entity)
            show("   line_data:", type(line_data).__name__,
                 [(line, describe_entity(e)) for line, e in line_data])
            for maker in ("make", "ctor", "ctor_with_data"):
                if maker == "make":
                    db = FeatureLineDatabase.make(entity)
                elif maker == "ctor":
                    db = FeatureLineDatabase(entity)
                else:
                    db = FeatureLineDatabase(entity, list(reversed(line_data)))
                assert db.entity is entity
                show("   %s data:" % maker, type(db.data).__name__,
                     [(line, describe_entity(e))
                      for line, e in db.data.items()])
                if entity is not feature and maker != "make":
                    continue
                lines = list(range(-2, nlines + 4)) + [10 ** 6]
                # -- ALSO: revisit lines in another order (cache in use).
                lines += [nlines, 0, 1]
                for line in lines:
                    item = attempt("select_run_item_by_line(%s)" % line,
                                   db.select_run_item_by_line, line)
                    scenarios = attempt("select_scenarios_by_line(%s)" % line,
                                        db.select_scenarios_by_line, line)
                    show("   %s line=%s item=%s scenarios=%s %s" % (
                        maker, line, describe_entity(item),
                        type(scenarios).__name__,
                        [describe_entity(s) for s in scenarios or []]))
    # -- CORNER CASES:
    db = FeatureLineDatabase()
    show("empty db:", db.entity, list(db.data.items()))
    for line in (0, 1, 5):
        attempt("empty.select_run_item_by_line(%s)" % line,
                db.select_run_item_by_line, line)
        attempt("empty.select_scenarios_by_line(%s)" % line,
                db.select_scenarios_by_line, line)
    db = FeatureLineDatabase(None, [(3, "three"), (1, "one"), (7, None),
                                    (9, "nine")])
    show("custom db:", list(db.data.items()))
    for line in range(0, 12):
        show("   custom line=%s item=%r scenarios=%r" % (
            line, db.select_run_item_by_line(line),
            db.select_scenarios_by_line(line)))
    attempt("custom.select_run_item_by_line(None)",
            db.select_run_item_by_line, None)
    attempt("custom.select_run_item_by_line('x')",
            db.select_run_item_by_line, "x")
    attempt("make(None)", FeatureLineDatabase.make, None)
    attempt("make_line_data_for('x')", FeatureLineDatabase.make_line_data_for,
            "x")


def describe_feature(feature):
    if feature is None:
        return "None"
    parts = []
    for scenario in feature.walk_scenarios(with_outlines=True):
        parts.append("%s@%s:%s/%s" % (
            scenario.name.split()[0], scenario.location.line,
            "SKIP" if scenario.should_skip else "run",
            scenario.status.name))
    return "%s [%s] skip=%s status=%s" % (
        rel(feature.filename), " ".join(parts), feature.should_skip,
        feature.status.name)


def show_parse_features(args, language=None):
    label = "parse_features(%s)" % ", ".join(
        describe_location(a) if isinstance(a, FileLocation) else repr(a)
        for a in args)
    features = attempt(label, parse_features, args, language)
    if features is None:
        return
    show(label, "->", type(features).__name__, len(features))
    for feature in features:
        show("    ", describe_feature(feature))


def check_parse_features():
    section("parse_features: every single line")
    for filename in FEATURE_FILES + ["features/empty.feature"]:
        nlines = line_count(filename)
        show_parse_features([filename])
        show_parse_features([FileLocation(filename)])
        for line in list(range(0, nlines + 4)) + [10 ** 6]:
            show_parse_features([FileLocation(filename, line)])

    section("parse_features: pairs and triples in one file")
    for filename, lines in [
            ("features/alice.feature", [0, 1, 9, 12, 14, 20, 21, 26, 28, 29, 32,
                                        33, 35, 39, 50]),
            ("features/bob.feature", [0, 1, 3, 6, 9, 12, 14, 17, 19, 20, 23, 24,
                                      27, 31, 40]),
            ("features/charly.feature", [0, 1, 4, 5, 7, 8, 9])]:
        for pair in itertools.combinations_with_replacement(lines, 2):
            show_parse_features([FileLocation(filename, n) for n in pair])
            show_parse_features([FileLocation(filename, n)
                                 for n in reversed(pair)])
        for triple in itertools.combinations(lines[::3], 3):
            show_parse_features([FileLocation(filename, n) for n in triple])

    section("parse_features: several files")
    A, B, C, D, E = (FEATURE_FILES + ["features/empty.feature"])
    L = FileLocation
    cases = [
        [],
        [A, B, C, D, E],
        [L(A, 12), L(B, 9)],
        [L(A, 12), L(A, 21), L(B, 9), L(B, 31), L(C)],
        [L(A, 12), L(B, 9), L(A, 35)],
        [L(A, 12), L(B, 9), L(A, 35), L(B, 27), L(B, 12)],
        [L(A, 12), L(A), L(B, 9)],
        [L(A), L(A, 12), L(B, 0), L(B, 9)],
        [L(A, 0), L(A, 12)],
        [L(E), L(A, 12)],
        [L(E, 3), L(E, 4), L(A, 12), L(E), L(A, 35)],
        [L(A, 12), L(E), L(A, 35)],
        [L(A, 12), L(E, 2)],
        [L(D, 1), L(D, 2), L(C, 5)],
        [L(D), L(C, 7), L(C, 8)],
        [A, L(A, 12)],
        [L(A, 12), A],
        ["./features/alice.feature", L(A, 12)],
        ["features/../features/alice.feature", "features/alice.feature"],
        [L("./features/alice.feature", 12), L(A, 35)],
        [L(os.path.abspath(A), 12), L(A, 35)],
        [L(os.path.abspath(A), 12), L(os.path.abspath(A), 35)],
        [u"features/alice.feature", u"features/bob.feature"],
        [L(A, 12), L("features/missing.feature", 3)],
        ["features/missing.feature"],
        [L(A, 12), 42],
        [None],
        [L(A, 12), "features/alice.feature:35"],
        [L(C, 5), L("sub/dir/x.feature", 7), L("sub/a.feature", 1)],
        (L(C, 5), L(C, 7)),
        iter([L(C, 5), L(B, 9)]),
    ]
    for case in cases:
        if not isinstance(case, (list, tuple)):
            case = list(case)
            show_parse_features(iter(case))
        else:
            show_parse_features(case)
    show_parse_features([L(A, 12), L(B, 9)], "de")

    section("parse_features: via @listfile")
    for listfile in ["some.txt", "features/more.featureset"]:
        locs = FeatureListParser.parse_file(listfile)
        show_parse_features(locs)
    for paths in [["@some.txt"], ["features"], ["sub", "features/charly.feature:7"],
                  ["@features/more.featureset"], ["features/alice.feature:12",
                                                  "features/alice.feature:35"],
                  ["some.txt"], ["features/none.feature"], ["@none.txt"]]:
        for strict in (True, False):
            label = "collect_feature_locations(%r, strict=%s)" % (paths, strict)
            locs = attempt(label, collect_feature_locations, paths, strict)
            if locs is None:
                continue
            show(label, "->", [describe_location(x) for x in locs])
            show_parse_features(locs)


def check_collectors():
    section("FeatureScenarioLocationCollector*")
    classes = [FeatureScenarioLocationCollector,
               FeatureScenarioLocationCollector1,
               FeatureScenarioLocationCollector2]
    filename = "features/alice.feature"

    def state(c):
        return "filename=%r feature=%s all=%s lines=%s use_all=%s sel=%s" % (
            rel(c.filename), describe_entity(c.feature),
            sorted(s.location.line for s in c.all_scenarios),
            sorted(c.scenario_lines), c.use_all_scenarios,
            sorted(s.location.line for s in c.selected_scenarios))

    for cls in classes:
        show("--", cls.__name__)
        c = cls()
        show("   new:", state(c))
        show("   build_feature without feature:", c.build_feature())
        c.add_location(FileLocation(filename, 12))
        show("   1 loc:", state(c))
        show("   build_feature without feature:", c.build_feature())
        attempt("   other filename", c.add_location, FileLocation("b.feature", 1))
        attempt("   discover without feature", c.discover_selected_scenarios)
        c.clear()
        show("   cleared:", state(c))
        for lines in [[], [0], [12], [13], [12, 35], [21, 28], [1], [99],
                      [0, 12], [12, 0], [28, 29, 33], [9, 39]]:
            for strict in (False, True):
                feature = gherkin.parse_file(os.path.abspath(filename))
                c = cls(feature, filename=filename)
                for line in lines:
                    c.add_location(FileLocation(filename, line))
                label = "   %s lines=%s strict=%s" % (cls.__name__, lines, strict)
                selected = attempt(label + " discover",
                                   c.discover_selected_scenarios, strict)
                if selected is not None:
                    show(label, "discover ->", type(selected).__name__,
                         sorted(s.location.line for s in selected))
                show(label, "state:", state(c))
                result = attempt(label + " build", c.build_feature)
                show(label, "build ->", describe_feature(result),
                     result is feature)
                show(label, "state:", state(c))
        feature = gherkin.parse_file(os.path.abspath(filename))
        c = cls(feature, FileLocation(filename, 21))
        show("   ctor with location:", state(c))
        c = cls(location=FileLocation(filename))
        show("   ctor with location only:", state(c))
        for args in [(5, []), (5, [3]), (2, [3]), (3, [3, 7]), (6, [3, 7]),
                     (7, [3, 7]), (8, [3, 7]), (0, [3, 7])]:
            show("   select_scenario_line_for%r ->" % (args,),
                 cls.select_scenario_line_for(*args))


class FakeConfig(object):
    def __init__(self, names):
        self.name = names
        self.name_re = None
        if names:
            self.name_re = Configuration.build_name_re(names)


def check_name_select():
    section("should_run_with_name_select")
    pattern_sets = [
        None, [], ["A1"], ["A1 first"], ["first", "last"], ["^A"], ["A3 last.*"],
        ["A3 last\\.\\*"], ["outline"], ["one"], ["two$"], ["Beta"], ["-- @1.2"],
        ["B6 \\(paren\\)"], ["\\[br\\]"], ["B[24]"], ["nomatch"], ["setup"],
        ["rule one", "C1"], ["x", "y"], [""], ["a|b"], ["(?i)a1 FIRST"],
    ]
    for names in pattern_sets:
        config = attempt("FakeConfig(%r)" % (names,), FakeConfig, names)
        if config is None:
            continue
        if config.name_re is not None:
            show("names=%r pattern=%r flags=%s" % (
                names, config.name_re.pattern, config.name_re.flags))
        for filename in FEATURE_FILES[:3]:
            feature = gherkin.parse_file(os.path.abspath(filename))
            parts = []
            for scenario in feature.walk_scenarios(with_outlines=True):
                answer = scenario.should_run_with_name_select(config)
                parts.append("%s@%s:%s" % (scenario.__class__.__name__[0:9],
                                           scenario.location.line, bool(answer)))
            show("   names=%r %s %s" % (names, filename, " ".join(parts)))
    attempt("build_name_re(['('])", Configuration.build_name_re, ["("])
    attempt("build_name_re([b'A1', u'B2'])", lambda: Configuration.build_name_re(
        [b"A1", u"B2"]).pattern)


def run_behave(args):
    env = dict(os.environ)
    env["PYTHONPATH"] = WORKTREE
    env["COLUMNS"] = "120"
    env.pop("BEHAVE_ARGS", None)
    cmd = [sys.executable, "-m", "behave", "-f", "plain", "--no-timings",
           "--no-color", "--show-skipped"] + args
    proc = subprocess.Popen(cmd, cwd=WORK, env=env, stdout=subprocess.PIPE,
                            stderr=subprocess.STDOUT)
    output = proc.communicate()[0].decode("utf-8", "replace")
    show("$ behave", " ".join(args), "=> rc", proc.returncode)
    for line in output.splitlines():
        if line.startswith("Took "):
            continue
        show("   |", line.replace(WORK, "<W>").rstrip())


def check_behave_runs():
    section("python -m behave")
    runs = [
        ["features/alice.feature:12"],
        ["features/alice.feature:21"],
        ["features/alice.feature:29"],
        ["features/alice.feature:24", "features/alice.feature:36"],
        ["features/bob.feature:6"],
        ["features/bob.feature:18", "features/charly.feature:7"],
        ["features/bob.feature:27", "features/bob.feature:3"],
        ["features/alice.feature:0"],
        ["features/alice.feature", "features/alice.feature:12"],
        ["@some.txt"],
        ["@features/more.featureset"],
        ["--name", "A1", "features/alice.feature"],
        ["--name", "first", "--name", "B4", "features"],
        ["--name", "A3 last.*", "features/alice.feature"],
        ["--name", "two", "features/alice.feature"],
        ["-n", "outline", "features/alice.feature:12", "features/bob.feature"],
        ["--name", "nomatch", "features/charly.feature"],
        ["--name", "C1", "features/charly.feature:7"],
        ["--dry-run", "features/bob.feature:20", "features/bob.feature:31"],
        ["features/missing.feature:3"],
        ["features/alice.txt:3"],
        ["features/empty.feature:3", "features/charly.feature:5"],
    ]
    for args in runs:
        run_behave(args)


def main():
    setup_workdir()
    check_file_location_parser()
    check_feature_list_parser()
    check_line_database()
    check_parse_features()
    check_collectors()
    check_name_select()
    check_behave_runs()


if __name__ == "__main__":
    main()
