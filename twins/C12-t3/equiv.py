#!/usr/bin/env python
# -*- coding: UTF-8 -*-
"""
Equivalence transcript for property C12 (hooks: nesting, pairing, fault containment).

Runs ``python -m behave`` (PYTHONPATH=/tmp/wtT/C12) as a subprocess on a small
generated project for a number of fault-injection / command-line cases and
prints a canonical transcript:

  * process return code
  * the hook call log written by environment.py (hook name, element, element
    status as seen inside the hook) and by the step implementations
  * the normalised console output (plain formatter + summary)
  * element statuses / error messages taken from the JSON formatter output

Volatile parts (durations, temp dir, traceback line numbers) are normalised.
"""

from __future__ import print_function
import json
import os
import re
import shutil
import subprocess
import sys
import tempfile

WORKTREE = "/tmp/wtT/C12"
sys.path.insert(0, WORKTREE)
PYTHON = "/venv/bin/python"

ENVIRONMENT_PY = r'''
from __future__ import print_function
import os

LOG = os.environ["HOOKLOG"]
FAULTS = [f.split("|") for f in os.environ.get("FAULTS", "").split(";") if f]


def _log(text):
    with open(LOG, "a") as f:
        f.write(text + "\n")


def _ident(arg):
    if arg is None:
        return ""
    return getattr(arg, "name", arg)


def _status(arg):
    status = getattr(arg, "status", None)
    if status is None:
        return ""
    return " status=%s" % status.name


def _hook(name, context, arg=None):
    ident = _ident(arg)
    _log("%s(%s)%s aborted=%s" % (name, ident, _status(arg), context.aborted))
    for hook_name, target, action in FAULTS:
        if hook_name != name or target not in ("*", ident):
            continue
        _log("  -> inject %s" % action)
        if action == "raise":
            raise RuntimeError("injected in %s(%s)" % (name, ident))
        elif action == "assert":
            assert False, "injected assert in %s(%s)" % (name, ident)
        elif action == "bareassert":
            assert False
        elif action == "skip":
            arg.skip("skipped by hook")
        elif action == "print":
            print("OUTPUT from %s(%s)" % (name, ident))
        elif action == "kbd":
            raise KeyboardInterrupt()


def before_all(context):
    _hook("before_all", context)

def after_all(context):
    _hook("after_all", context)

def before_feature(context, feature):
    _hook("before_feature", context, feature)

def after_feature(context, feature):
    _hook("after_feature", context, feature)

def before_rule(context, rule):
    _hook("before_rule", context, rule)

def after_rule(context, rule):
    _hook("after_rule", context, rule)

def before_scenario(context, scenario):
    _hook("before_scenario", context, scenario)

def after_scenario(context, scenario):
    _hook("after_scenario", context, scenario)

def before_step(context, step):
    _hook("before_step", context, step)

def after_step(context, step):
    _hook("after_step", context, step)

def before_tag(context, tag):
    _hook("before_tag", context, tag)

def after_tag(context, tag):
    _hook("after_tag", context, tag)
'''

STEPS_PY = r'''
from __future__ import print_function
import os
from behave import given, when, then, step
from behave.exception import StepNotImplementedError

LOG = os.environ["HOOKLOG"]

def _log(text):
    with open(LOG, "a") as f:
        f.write(text + "\n")

@step(u'a passing step')
def step_passing(context):
    _log("    STEP passing (text=%r table=%r)" % (context.text, context.table))

@step(u'a passing step with {n}')
def step_passing_with(context, n):
    _log("    STEP passing with %s" % n)

@step(u'a step with text')
def step_with_text(context):
    _log("    STEP with text=%r" % context.text)

@step(u'a printing step')
def step_printing(context):
    print("PRINTED by step")
    _log("    STEP printing")

@step(u'a failing step')
def step_failing(context):
    print("PRINTED before failure")
    _log("    STEP failing")
    assert False, "boom"

@step(u'a bare assert fails')
def step_bare_assert(context):
    _log("    STEP bare assert")
    assert False

@step(u'an error step')
def step_error(context):
    _log("    STEP error")
    raise ValueError("bad value")

@step(u'a pending step')
def step_pending(context):
    _log("    STEP pending")
    raise StepNotImplementedError("todo later")

@step(u'a pending step without message')
def step_pending_nomsg(context):
    _log("    STEP pending nomsg")
    raise StepNotImplementedError()

@step(u'the step skips the scenario')
def step_skips(context):
    _log("    STEP skips scenario")
    context.scenario.skip("skipped in step")

@step(u'a cleanup that fails is registered')
def step_bad_cleanup(context):
    _log("    STEP bad cleanup")
    def cleanup():
        raise RuntimeError("cleanup failed")
    context.add_cleanup(cleanup)

@step(u'nested steps run')
def step_nested(context):
    _log("    STEP nested: begin")
    context.execute_steps(u"""
        Given a passing step
        When a printing step
    """)
    _log("    STEP nested: end")

@step(u'nested failing steps run')
def step_nested_failing(context):
    _log("    STEP nested failing: begin")
    context.execute_steps(u"""
        Given a passing step
        When a failing step
    """)
    _log("    STEP nested failing: end")

@step(u'the user interrupts')
def step_interrupt(context):
    _log("    STEP interrupt")
    raise KeyboardInterrupt()
'''

F1 = u'''
@f_tag1 @f_tag2
Feature: F1

  Background:
    Given a passing step

  @s_tag1 @s_tag2
  Scenario: S1
    Given a passing step
    When a printing step
    Then a step with text
      """
      hello
      """
    And a passing step
      | a | b |
      | 1 | 2 |

  @s_fail
  Scenario: S2
    Given a passing step
    When a failing step
    Then a passing step
    And an undefined step

  @skipme
  Scenario: S3
    Given a passing step

  @o_tag
  Scenario Outline: SO <n>
    Given a passing step with <n>

    @e_tag
    Examples:
      | n |
      | 1 |
      | 2 |

  @r_tag
  Rule: R1

    @wip
    Scenario: S4
      Given a pending step
      Then a passing step

    Scenario: S5
      Given a passing step
      When nested steps run
'''

F2 = u'''
Feature: F2

  Scenario: S6
    Given an error step
    Then a passing step

  Scenario: S7
    Given a bare assert fails

  Scenario: S8
    Given the step skips the scenario
    Then a passing step

  Scenario: S9
    Given a cleanup that fails is registered
    Then a passing step

  Scenario: S10
    Given a pending step without message

  Scenario: S11
    When nested failing steps run
    Then a passing step

  Scenario: S12
    Given a passing step
'''

F3 = u'''
@skipme
Feature: F3

  Scenario: S13
    Given a passing step

  Rule: R2
    Scenario: S14
      Given a passing step
'''

F4 = u'''
@empty_tag
Feature: F4
'''

F5 = u'''
Feature: F5

  Scenario: S15
    Given a passing step
    When the user interrupts
    Then a passing step

  Scenario: S16
    Given a passing step
'''

F6 = u'''
Feature: F6

  @x_tag
  Scenario: S17
    Given a passing step

  Scenario: S18
    Given a passing step
    Then a passing step
'''

FEATURES = {"f1.feature": F1, "f2.feature": F2, "f3.feature": F3,
            "f4.feature": F4, "f5.feature": F5, "f6.feature": F6}

DEFAULT_TAGS = ["--tags=not @skipme"]
BASIC = ["features/f1.feature", "features/f6.feature"]
ALL_BUT_KBD = ["features/f1.feature", "features/f2.feature",
               "features/f3.feature", "features/f4.feature",
               "features/f6.feature"]

# -- CASES: (title, faults, command-line args)
CASES = [
    ("no faults, all features", "", DEFAULT_TAGS + ALL_BUT_KBD),
    ("no faults, no hooks selected by name", "", ["--name=S1$"] + BASIC),
    ("no faults, show skipped", "", DEFAULT_TAGS + ["--show-skipped"] + BASIC),
    ("no faults, dry-run", "", DEFAULT_TAGS + ["--dry-run"] + ALL_BUT_KBD),
    ("no faults, no capture", "", DEFAULT_TAGS + ["--no-capture"] + BASIC),
    ("no faults, stop", "", DEFAULT_TAGS + ["--stop"] + ALL_BUT_KBD),
    ("no faults, wip mode", "", ["--wip", "features/f1.feature"]),
    ("no faults, junit", "", DEFAULT_TAGS + ["--junit", "--junit-directory=reports"] + BASIC),
    ("keyboard interrupt in step", "", ["features/f5.feature", "features/f6.feature"]),
    ("hook output", "before_scenario|S2|print;after_step|a failing step|print;before_all|*|print",
        DEFAULT_TAGS + ["features/f1.feature"]),
    # -- FAULTS IN EACH HOOK KIND
    ("before_all raises", "before_all|*|raise", DEFAULT_TAGS + BASIC),
    ("before_all raises, verbose", "before_all|*|raise", DEFAULT_TAGS + ["--verbose"] + ["features/f6.feature"]),
    ("after_all raises", "after_all|*|raise", DEFAULT_TAGS + BASIC),
    ("after_all asserts", "after_all|*|assert", DEFAULT_TAGS + ["features/f6.feature"]),
    ("before_feature raises F1", "before_feature|F1|raise", DEFAULT_TAGS + BASIC),
    ("before_feature raises F1, stop", "before_feature|F1|raise", DEFAULT_TAGS + ["--stop"] + BASIC),
    ("after_feature raises F1", "after_feature|F1|raise", DEFAULT_TAGS + BASIC),
    ("before+after_feature raise F1", "before_feature|F1|raise;after_feature|F1|assert", DEFAULT_TAGS + BASIC),
    ("before_feature raises F4 (empty)", "before_feature|F4|raise", ["features/f4.feature", "features/f6.feature"]),
    ("before_rule raises R1", "before_rule|R1|raise", DEFAULT_TAGS + BASIC),
    ("after_rule raises R1", "after_rule|R1|bareassert", DEFAULT_TAGS + BASIC),
    ("before_scenario raises S1", "before_scenario|S1|raise", DEFAULT_TAGS + BASIC),
    ("before_scenario raises S1, verbose", "before_scenario|S1|raise", DEFAULT_TAGS + ["--verbose"] + ["features/f6.feature", "features/f1.feature"]),
    ("before_scenario raises S1, stop", "before_scenario|S1|raise", DEFAULT_TAGS + ["--stop"] + BASIC),
    ("before_scenario raises S5 (in rule)", "before_scenario|S5|raise", DEFAULT_TAGS + BASIC),
    ("after_scenario raises S1", "after_scenario|S1|raise", DEFAULT_TAGS + BASIC),
    ("after_scenario raises S2 (already failed)", "after_scenario|S2|raise", DEFAULT_TAGS + BASIC),
    ("before+after_scenario raise S1", "before_scenario|S1|raise;after_scenario|S1|raise", DEFAULT_TAGS + BASIC),
    ("after_scenario raises outline row", "after_scenario|SO 2 -- @1.2 |raise", DEFAULT_TAGS + BASIC),
    ("before_scenario raises everywhere", "before_scenario|*|raise", DEFAULT_TAGS + BASIC),
    ("before_scenario raises S1, junit", "before_scenario|S1|raise", DEFAULT_TAGS + ["--junit", "--junit-directory=reports"] + BASIC),
    ("before_step raises", "before_step|a printing step|raise", DEFAULT_TAGS + BASIC),
    ("before_step raises, no capture", "before_step|a printing step|raise", DEFAULT_TAGS + ["--no-capture"] + BASIC),
    ("after_step raises", "after_step|a printing step|raise", DEFAULT_TAGS + BASIC),
    ("after_step raises on failing step", "after_step|a failing step|raise", DEFAULT_TAGS + BASIC),
    ("before+after_step raise", "before_step|a step with text|assert;after_step|a step with text|raise", DEFAULT_TAGS + BASIC),
    ("before_step raises for every step", "before_step|*|raise", DEFAULT_TAGS + ["features/f6.feature"]),
    ("before_step raises in wip pending scenario", "before_step|a pending step|raise", DEFAULT_TAGS + BASIC),
    ("before_step interrupted", "before_step|a printing step|kbd", DEFAULT_TAGS + BASIC),
    ("before_feature interrupted", "before_feature|F1|kbd", DEFAULT_TAGS + BASIC),
    ("before_rule interrupted", "before_rule|R1|kbd", DEFAULT_TAGS + BASIC),
    ("before_scenario interrupted", "before_scenario|S1|kbd", DEFAULT_TAGS + BASIC),
    ("after_scenario interrupted", "after_scenario|S1|kbd", DEFAULT_TAGS + BASIC),
    ("after_step interrupted", "after_step|a printing step|kbd", DEFAULT_TAGS + BASIC),
    ("before_tag interrupted", "before_tag|s_tag1|kbd", DEFAULT_TAGS + BASIC),
    ("before_tag raises feature tag", "before_tag|f_tag2|raise", DEFAULT_TAGS + BASIC),
    ("after_tag raises feature tag", "after_tag|f_tag1|raise", DEFAULT_TAGS + BASIC),
    ("before_tag raises rule tag", "before_tag|r_tag|raise", DEFAULT_TAGS + BASIC),
    ("after_tag raises rule tag", "after_tag|r_tag|raise", DEFAULT_TAGS + BASIC),
    ("before_tag raises scenario tag", "before_tag|s_tag1|raise", DEFAULT_TAGS + BASIC),
    ("before_tag raises scenario tag, verbose", "before_tag|s_tag2|raise", DEFAULT_TAGS + ["--verbose"] + ["features/f1.feature"]),
    ("after_tag raises scenario tag", "after_tag|s_tag2|raise", DEFAULT_TAGS + BASIC),
    ("after_tag raises scenario tag of failed scenario", "after_tag|s_fail|raise", DEFAULT_TAGS + BASIC),
    ("before_tag raises outline tag", "before_tag|o_tag|raise", DEFAULT_TAGS + BASIC),
    ("before_tag raises everywhere", "before_tag|*|raise", DEFAULT_TAGS + BASIC),
    ("all element hooks raise", "before_feature|*|raise;after_feature|*|raise;before_scenario|*|raise;after_scenario|*|raise",
        DEFAULT_TAGS + BASIC),
    # -- HOOKS THAT SKIP
    ("before_scenario skips S1", "before_scenario|S1|skip", DEFAULT_TAGS + BASIC),
    ("before_scenario skips S1, show skipped", "before_scenario|S1|skip", DEFAULT_TAGS + ["--show-skipped"] + BASIC),
    ("before_feature skips F1", "before_feature|F1|skip", DEFAULT_TAGS + BASIC),
    ("before_rule skips R1", "before_rule|R1|skip", DEFAULT_TAGS + BASIC),
    # -- FAULTS COMBINED WITH OTHER FAILURE KINDS
    ("after_scenario raises after cleanup error scenario", "after_scenario|S9|raise", ["features/f2.feature"]),
    ("after_step raises on error step", "after_step|an error step|raise", ["features/f2.feature"]),
    ("before_step raises nested", "before_step|a printing step|raise", ["--name=S5", "features/f1.feature"]),
    ("hooks faults in dry-run are not triggered", "before_scenario|*|raise;before_all|*|raise", DEFAULT_TAGS + ["--dry-run"] + BASIC),
    ("after_feature raises, stop", "after_feature|F1|raise", DEFAULT_TAGS + ["--stop"] + BASIC),
]


def make_project(workdir):
    os.makedirs(os.path.join(workdir, "features", "steps"))
    with open(os.path.join(workdir, "features", "environment.py"), "w") as f:
        f.write(ENVIRONMENT_PY)
    with open(os.path.join(workdir, "features", "steps", "steps.py"), "w") as f:
        f.write(STEPS_PY)
    for name, text in FEATURES.items():
        with open(os.path.join(workdir, "features", name), "w") as f:
            f.write(text)


def normalize(text, workdir):
    text = text.replace(os.path.realpath(workdir), "<TMP>")
    text = text.replace(workdir, "<TMP>")
    text = re.sub(r"\d+m\d+\.\d+s", "XmX.XXXs", text)
    text = re.sub(r"\d+\.\d+s\b", "X.XXXs", text)
    text = re.sub(r"line \d+", "line N", text)
    text = re.sub(r"0x[0-9a-fA-F]+", "0xADDR", text)
    # -- TRACEBACK CARET MARKER LINES (python >= 3.11): keep, they are stable.
    return text


def walk_json(node, depth, out, workdir):
    if isinstance(node, list):
        for item in node:
            walk_json(item, depth, out, workdir)
        return
    if not isinstance(node, dict):
        return
    indent = "  " * depth
    if "keyword" in node or "step_type" in node:
        status = node.get("status")
        line = "%s%s: %s" % (indent, node.get("keyword", "?").strip(), node.get("name"))
        if status is not None:
            line += " [status=%s]" % status
        result = node.get("result")
        if "step_type" in node:
            if result is None:
                line += " [no result]"
            else:
                line += " [result=%s]" % result.get("status")
        out.append(line)
        if result and result.get("error_message"):
            message = result["error_message"]
            if isinstance(message, list):
                message = "\n".join(message)
            for mline in normalize(message, workdir).splitlines():
                out.append("%s    | %s" % (indent, mline))
    for key in ("elements", "steps"):
        if key in node:
            walk_json(node[key], depth + 1, out, workdir)


def run_case(number, title, faults, args):
    workdir = tempfile.mkdtemp(prefix="c12_equiv_")
    try:
        make_project(workdir)
        hooklog = os.path.join(workdir, "hook.log")
        open(hooklog, "w").close()
        env = dict(os.environ)
        env["PYTHONPATH"] = WORKTREE
        env["HOOKLOG"] = hooklog
        env["FAULTS"] = faults
        env["PYTHONDONTWRITEBYTECODE"] = "1"
        env["PYTHONHASHSEED"] = "0"
        env.pop("BEHAVE_ARGS", None)
        env["HOME"] = workdir
        command = [PYTHON, "-m", "behave", "--no-color",
                   "-f", "json", "-o", "result.json",
                   "-f", "plain"] + list(args)
        proc = subprocess.run(command, cwd=workdir, env=env,
                              stdout=subprocess.PIPE, stderr=subprocess.STDOUT,
                              universal_newlines=True, timeout=300)
        print("=" * 78)
        print("CASE %02d: %s" % (number, title))
        print("  faults: %s" % (faults or "-"))
        print("  args:   %s" % " ".join(args))
        print("  returncode: %s" % proc.returncode)
        print("-- HOOK LOG:")
        with open(hooklog) as f:
            print(normalize(f.read(), workdir).rstrip())
        print("-- OUTPUT:")
        print(normalize(proc.stdout, workdir).rstrip())
        print("-- JSON STATUSES:")
        json_file = os.path.join(workdir, "result.json")
        try:
            with open(json_file) as f:
                data = json.load(f)
            out = []
            walk_json(data, 0, out, workdir)
            print("\n".join(out))
        except Exception as e:   # pylint: disable=broad-except
            print("(json not readable: %s)" % e.__class__.__name__)
        reports = os.path.join(workdir, "reports")
        if os.path.isdir(reports):
            print("-- JUNIT REPORTS:")
            for name in sorted(os.listdir(reports)):
                with open(os.path.join(reports, name)) as f:
                    content = f.read()
                content = re.sub(r'time="[^"]*"', 'time="T"', content)
                content = re.sub(r'timestamp="[^"]*"', 'timestamp="TS"', content)
                content = re.sub(r'hostname="[^"]*"', 'hostname="H"', content)
                print("## %s" % name)
                print(normalize(content, workdir).rstrip())
    finally:
        shutil.rmtree(workdir, ignore_errors=True)


def main():
    import behave
    print("behave loaded from: %s" % os.path.dirname(behave.__file__))
    for number, (title, faults, args) in enumerate(CASES, 1):
        run_case(number, title, faults, args)
    return 0


if __name__ == "__main__":
    sys.exit(main())
