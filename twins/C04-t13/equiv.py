# -*- coding: UTF-8 -*-
"""Equivalence transcript for property C04 (faithful Gherkin parsing).

Prints a canonical dump of everything the parser entry points return (or raise)
for a fixed corpus + a seeded random corpus over all languages / aliases,
plus ModelDescriptor renderings of the parsed tables / doc-strings.
"""
from __future__ import print_function, unicode_literals
import sys
sys.path.insert(0, "/tmp/wtW/C04")
import io
import logging
import os
import random
import tempfile

from behave import parser, i18n, model
from behave.model_describe import ModelDescriptor, ModelPrinter

assert parser.__file__.startswith("/tmp/wtW/C04/"), parser.__file__

OUT = io.open(sys.stdout.fileno(), "w", encoding="utf-8", closefd=False)


def emit(text=""):
    OUT.write(text + "\n")


class ListHandler(logging.Handler):
    def __init__(self):
        logging.Handler.__init__(self)
        self.records = []

    def emit(self, record):
        self.records.append("%s:%s" % (record.levelname, record.getMessage()))


LOG = ListHandler()
logging.getLogger("behave").addHandler(LOG)
logging.getLogger("behave").setLevel(logging.DEBUG)
logging.getLogger("behave").propagate = False


# ---------------------------------------------------------------------------
# CANONICAL DUMP
# ---------------------------------------------------------------------------
def dump_tags(tags):
    return "[%s]" % ", ".join("%s@L%s(%s)" % (t, getattr(t, "line", "?"),
                                              type(t).__name__) for t in tags)


def dump_table(table, ind):
    if table is None:
        emit(ind + "table: None")
        return
    emit(ind + "table: L%s headings=%r" % (table.line, list(table.headings)))
    for row in table.rows:
        emit(ind + "  row L%s cells=%r headings_same=%s" % (
            row.line, list(row.cells), row.headings is table.headings))
    emit(ind + "  described:")
    for text_line in ModelDescriptor.describe_table(table, ind + "    ").splitlines():
        emit(text_line)
    emit(ind + "  described-noindent=%r" % ModelDescriptor.describe_table(table))


def dump_step(step, ind):
    emit(ind + "step L%s file=%r kw=%r type=%r name=%r" % (
        step.line, step.filename, step.keyword, step.step_type, step.name))
    if step.text is not None:
        emit(ind + "  text L%s ctype=%r value=%r (%s)" % (
            step.text.line, step.text.content_type, "%s" % step.text,
            type(step.text).__name__))
        emit(ind + "  doc=%r" % ModelDescriptor.describe_docstring(step.text, ind))
        emit(ind + "  doc-noindent=%r" % ModelDescriptor.describe_docstring(step.text))
    if step.table is not None:
        dump_table(step.table, ind + "  ")


def dump_statement_head(kind, stmt, ind):
    emit(ind + "%s(%s) L%s file=%r kw=%r name=%r tags=%s" % (
        kind, type(stmt).__name__, stmt.line, stmt.filename, stmt.keyword,
        stmt.name, dump_tags(getattr(stmt, "tags", []) or [])))
    emit(ind + "  description=%r" % list(getattr(stmt, "description", [])))


def dump_background(background, ind):
    if background is None:
        emit(ind + "background: None")
        return
    dump_statement_head("background", background, ind)
    for step in background.steps:
        dump_step(step, ind + "  ")


def dump_scenario(scenario, ind):
    dump_statement_head("scenario", scenario, ind)
    for step in scenario.steps:
        dump_step(step, ind + "  ")
    if isinstance(scenario, model.ScenarioOutline):
        for examples in scenario.examples:
            dump_statement_head("examples", examples, ind + "  ")
            dump_table(examples.table, ind + "    ")


def dump_rule(rule, ind):
    dump_statement_head("rule", rule, ind)
    dump_background(rule.background, ind + "  ")
    for scenario in rule.scenarios:
        dump_scenario(scenario, ind + "  ")


def dump_feature(feature, ind=""):
    if feature is None:
        emit(ind + "feature: None")
        return
    dump_statement_head("feature", feature, ind)
    emit(ind + "  language=%r" % feature.language)
    dump_background(feature.background, ind + "  ")
    # -- FILE ORDER of rules and scenarios:
    for item in feature.run_items:
        if isinstance(item, model.Rule):
            dump_rule(item, ind + "  ")
        else:
            dump_scenario(item, ind + "  ")
    emit(ind + "  #scenarios=%d #rules=%d" % (len(feature.scenarios), len(feature.rules)))
    p = getattr(feature, "parser", None)
    if p is not None:
        emit(ind + "  parser: state=%s line=%s last_step_type=%r tags=%r lines=%r "
             "table=%r examples=%r language=%r variant=%r" % (
                 p.state.name, p.line, p.last_step_type, p.tags, p.lines,
                 None if p.table is None else list(p.table.headings),
                 None if p.examples is None else (p.examples.line, p.examples.name),
                 p.language, p.variant))


def dump_any(obj, ind=""):
    if obj is None:
        emit(ind + "None")
    elif isinstance(obj, model.Feature):
        dump_feature(obj, ind)
    elif isinstance(obj, model.Rule):
        dump_rule(obj, ind)
    elif isinstance(obj, model.Background):
        dump_background(obj, ind)
    elif isinstance(obj, model.Scenario):
        dump_scenario(obj, ind)
    elif isinstance(obj, list):
        emit(ind + "list[%d]" % len(obj))
        for item in obj:
            if isinstance(item, model.Step):
                dump_step(item, ind + "  ")
            elif isinstance(item, model.Tag):
                emit(ind + "  tag %s@L%s" % (item, item.line))
            else:
                emit(ind + "  %r" % (item,))
    else:
        emit(ind + "%s %r" % (type(obj).__name__, obj))


def observe(label, func, *args, **kwargs):
    emit("=== %s" % label)
    del LOG.records[:]
    try:
        result = func(*args, **kwargs)
    except Exception as e:  # pylint: disable=broad-except
        emit("  EXC %s: %s" % (type(e).__name__, e))
        emit("  EXC args=%r line=%r line_text=%r filename=%r" % (
            e.args, getattr(e, "line", None), getattr(e, "line_text", None),
            getattr(e, "filename", None)))
    else:
        dump_any(result, "  ")
    for record in LOG.records:
        emit("  LOG %s" % record)


# ---------------------------------------------------------------------------
# FIXED CORPUS
# ---------------------------------------------------------------------------
FEATURES = []

FEATURES.append(("full-en", None, u'''
# a comment
@f1 @f2   # trailing comment
@f3
Feature: Full   feature
  As a description line
    indented description

  # comment in description
  second description
  Background: Common
    bg description
    Given a background step
      | a | b |
      | 1 | 2 |
    And another bg step
    * star bg step

  @s1
  @s2 @s3 # c
  Scenario: First
    Scenario description
    Given a given
      """
      doc string
        indented more

      after blank
      """
    When a when
    Then a then
    But a but
    And an and
    * a star

  Example: Second via alias
    * star first without previous
    And inherits from star

  @o1
  Scenario Outline: Outline <x>
    Given a <x>
      \'\'\'
      single "quoted" <y>
      \'\'\'
    Then b <y>:
      | h1 | h2 |
      | <x> | a\\|b |
      |  |  x  |

    @e1 @e2
    Examples: First
      | x | y |
      | 1 | 2 |
      | 3 | 4 |
    @e3
    Scenarios: Second ex
      | x | y |

    Examples:
      | x | y |
      | 5 |   |

  Scenario Template: Tmpl
    When w <a>
    Examples: T
      | a |
      | \\| |

  @r1
  Rule: First rule
    rule description 1
    rule description 2
    Background: Rule bg
      Given rule bg step
    @rs1
    Scenario: In rule
      And inherits from rule bg
      When x
    Scenario Outline: RO
      Given <q>
      Examples:
        | q |
        | 1 |

  Rule: Second rule (no background)
    Example: R2S1
      Given r2
      And r2 and
      But r2 but

  @r3a
  @r3b
  Rule: Third, empty
'''))

FEATURES.append(("empty-text", None, u""))
FEATURES.append(("only-comments", None, u"# nothing\n   # here\n"))
FEATURES.append(("only-feature", None, u"Feature: X"))
FEATURES.append(("feature-noname", None, u"Feature:"))
FEATURES.append(("feature-aliases", None, u"Business Need: BN\n  Scenario: S\n    Given g\n"))
FEATURES.append(("feature-ability", None, u"@a\nAbility:   spaced name   \n\n\n  Example: E\n    * s\n"))
FEATURES.append(("crlf", None, u"Feature: F\r\n  Scenario: S\r\n    Given g\r\n      \"\"\"\r\n      text  \r\n      \"\"\"\r\n    When t\r\n      | a |\r\n      | 1 |\r\n"))
FEATURES.append(("table-at-eof", None, u"Feature: F\n  Scenario: S\n    Given g\n      | a | b |\n      | 1 | 2 |"))
FEATURES.append(("examples-at-eof", None, u"Feature: F\n  Scenario Outline: S\n    Given <a>\n    Examples: E\n      | a |\n      | 1 |"))
FEATURES.append(("table-then-step", None, u"Feature: F\n  Scenario: S\n    Given g\n      | a |\n    When w\n      | b |\n      | 1 |\n  Scenario: T\n    Then t\n"))
FEATURES.append(("table-then-tag", None, u"Feature: F\n  Scenario: S\n    Given g\n      | a |\n  @t\n  Scenario: T\n    Then t\n"))
FEATURES.append(("table-malformed-row", None, u"Feature: F\n  Scenario: S\n    Given g\n      | a | b\n      | 1 | 2 |\n"))
FEATURES.append(("table-wrong-cells", None, u"Feature: F\n  Scenario: S\n    Given g\n      | a | b |\n      | 1 |\n"))
FEATURES.append(("table-no-step", None, u"Feature: F\n  Scenario: S\n    Given g\n  Scenario Outline: O\n    Given g\n  Examples:\n  |a|\n  |1|\n  | 2|\n"))
FEATURES.append(("table-before-step", None, u"Feature: F\n  Background:\n    Given x\n  Scenario: S\n    desc\n    | a |\n"))
FEATURES.append(("table-escapes", None, u"Feature: F\n  Scenario: S\n    Given g\n      | a\\|b | c\\\\|d | \\| |\n      | \\\\ | x\\ny |  |\n      ||\\||\n"))
FEATURES.append(("docstring-before-step", None, u"Feature: F\n  Scenario: S\n    desc\n    \"\"\"\n    x\n    \"\"\"\n"))
FEATURES.append(("docstring-bad-indent", None, u"Feature: F\n  Scenario: S\n    Given g\n      \"\"\"\n    x\n      \"\"\"\n"))
FEATURES.append(("docstring-unterminated", None, u"Feature: F\n  Scenario: S\n    Given g\n      \"\"\"\n      x\n"))
FEATURES.append(("docstring-mixed-quotes", None, u"Feature: F\n  Scenario: S\n    Given g\n      '''\n      \"\"\"\n      # not a comment\n      @not a tag\n      Scenario: not a scenario\n\n      '''\n    Given h\n      \"\"\"\n      '''\n      \"\"\" trailing\n    Then t\n"))
FEATURES.append(("docstring-tabs", None, u"Feature: F\n  Scenario: S\n\tGiven g\n\t\t\"\"\"\n\t\tline1\n\t\t\tline2\n\t\t\"\"\"\n"))
FEATURES.append(("docstring-empty", None, u"Feature: F\n  Scenario: S\n    Given g\n    \"\"\"\n    \"\"\"\n    When w\n    '''\n\n    '''\n"))
FEATURES.append(("and-without-previous", None, u"Feature: F\n  Scenario: S\n    And orphan\n"))
FEATURES.append(("but-without-previous", None, u"Feature: F\n  Scenario: S\n    But orphan\n"))
FEATURES.append(("and-inherits-background", None, u"Feature: F\n  Background:\n    Given g\n    When w\n  Scenario: S\n    And from bg\n    But also\n"))
FEATURES.append(("and-inherits-feature-bg-in-rule", None, u"Feature: F\n  Background:\n    Given g\n    Then t\n  Rule: R\n    Scenario: S\n      And from inherited\n  Rule: R2\n    Background: B2\n    Scenario: S2\n      But from inherited 2\n"))
FEATURES.append(("and-empty-background", None, u"Feature: F\n  Background:\n  Scenario: S\n    And orphan\n"))
FEATURES.append(("star-only", None, u"Feature: F\n  Scenario: S\n    * one\n    * two\n    Given three\n    * four\n    When five\n    * six\n"))
FEATURES.append(("lowercase-keywords", None, u"Feature: F\n  Scenario: S\n    given lower\n    WHEN upper\n    tHeN mixed\n    and lower and\n    BUT upper but\n"))
FEATURES.append(("step-no-space", None, u"Feature: F\n  Scenario: S\n    Givenx no space needed\n    Given\n    When\twith tab\n"))
FEATURES.append(("second-background", None, u"Feature: F\n  Background: A\n    Given a\n  Background: B\n    Given b\n"))
FEATURES.append(("second-background-empty-first", None, u"Feature: F\n  Background: A\n  Background: B\n    Given b\n"))
FEATURES.append(("background-after-scenario", None, u"Feature: F\n  Scenario: S\n    Given a\n  Background: B\n    Given b\n"))
FEATURES.append(("background-with-tags", None, u"Feature: F\n  @t1 @t2\n  Background: B\n    Given b\n"))
FEATURES.append(("background-with-desc-then-scenario", None, u"Feature: F\n  Background: B\n    only desc\n  Scenario: S\n    sdesc\n  Scenario: T\n"))
FEATURES.append(("rule-before-feature", None, u"Rule: R\n"))
FEATURES.append(("scenario-before-feature", None, u"Scenario: S\n  Given g\n"))
FEATURES.append(("outline-before-feature", None, u"Scenario Outline: S\n  Given g\n"))
FEATURES.append(("background-before-feature", None, u"Background: B\n"))
FEATURES.append(("garbage-before-feature", None, u"garbage\n"))
FEATURES.append(("two-features", None, u"Feature: A\n  Scenario: S\n    Given g\nFeature: B\n"))
FEATURES.append(("feature-in-tags-state", None, u"Feature: A\n  @t\n  Feature: B\n"))
FEATURES.append(("tags-then-garbage", None, u"Feature: A\n  @t\n  garbage\n"))
FEATURES.append(("tags-then-background", None, u"Feature: A\n  Scenario: S\n  @t\n  Background: B\n"))
FEATURES.append(("examples-outside-outline", None, u"Feature: F\n  Scenario: S\n    Given g\n    Examples:\n      | a |\n"))
FEATURES.append(("examples-in-feature", None, u"Feature: F\n  Examples:\n      | a |\n"))
FEATURES.append(("examples-without-table", None, u"Feature: F\n  Scenario Outline: O\n    Given <a>\n    Examples: E1\n    Examples: E2\n      | a |\n"))
FEATURES.append(("garbage-in-steps", None, u"Feature: F\n  Scenario: S\n    Given g\n    garbage here\n"))
FEATURES.append(("rule-in-steps", None, u"Feature: F\n  Scenario: S\n    Given g\n  Rule: R\n    Scenario: T\n      Given h\n  Rule: R2\n    Background:\n      Given rb\n"))
FEATURES.append(("bad-tag", None, u"Feature: F\n  @ok notatag\n  Scenario: S\n"))
FEATURES.append(("bad-tag-initial", None, u"@ok bad\nFeature: F\n"))
FEATURES.append(("tags-comment-glued", None, u"@a#x @b #c @d\nFeature: F\n  @s#1 # @hidden\n  Scenario: S\n"))
FEATURES.append(("tag-only-at", None, u"@ @@x\nFeature: F\n"))
FEATURES.append(("language-header-de", None, u"# language: de\nFunktionalit\xe4t: Titel\n  Grundlage: G\n    Angenommen a\n  Szenario: S\n    Wenn w\n    Dann d\n    Und u\n    Aber a\n  Szenariogrundriss: O\n    Gegeben sei <x>\n    Beispiele: B\n      | x |\n      | 1 |\n"))
FEATURES.append(("language-header-spaces", None, u"   #   LANGUAGE:   fr  \nFonctionnalit\xe9: T\n  Sc\xe9nario: S\n    Soit x\n    Quand y\n    Alors z\n"))
FEATURES.append(("language-header-unknown", None, u"# language: xx-unknown\nFeature: T\n"))
FEATURES.append(("language-header-after-tags", None, u"@t\n# language: de\nFeature: T\n"))
FEATURES.append(("language-header-after-feature", None, u"Feature: T\n# language: de\n  Scenario: S\n    Given g\n"))
FEATURES.append(("language-header-twice", None, u"# language: de\n# language: fr\nFonctionnalit\xe9: T\n"))
FEATURES.append(("language-arg-overridden", "fr", u"# language: de\nFunktionalit\xe4t: T\n  Szenario: S\n    Angenommen x\n"))
FEATURES.append(("language-arg-de", "de", u"Funktionalit\xe4t: T\n  Szenario: S\n    Angenommen x\n    Und y\n"))
FEATURES.append(("language-arg-de-english-text", "de", u"Feature: T\n  Scenario: S\n    Given x\n"))
FEATURES.append(("language-ja-nospace", "ja", u"\u6a5f\u80fd: T\n  \u30b7\u30ca\u30ea\u30aa: S\n    \u524d\u63d0x\n    \u3082\u3057y\n    \u306a\u3089\u3070z\n    \u304b\u3064w\n"))
FEATURES.append(("language-zh", "zh-CN", u"\u529f\u80fd: T\n  \u80cc\u666f: B\n    \u5047\u5982a\n  \u573a\u666f: S\n    \u5f53b\n    \u90a3\u4e48c\n    \u800c\u4e14d\n    \u4f46\u662fe\n"))
FEATURES.append(("description-like-keywords", None, u"Feature: F\n  Scenario without colon\n  Given in description: yes\n  Scenario: S\n    Scenariox: not a keyword\n    Examples without colon\n    Given real\n"))
FEATURES.append(("rule-desc-and-tags", None, u"Feature: F\n  fdesc\n  @r\n  Rule: R\n    rdesc\n    @x\n    @y\n    Scenario Outline: O\n      odesc\n      Given <a>\n      @e\n      Examples: E\n        | a |\n        | 1 |\n      @f\n      Examples: F\n        | a |\n        | 2 |\n    Scenario: Z\n"))
FEATURES.append(("step-trailing-colon", None, u"Feature: F\n  Scenario: S\n    Given a table:\n      | a |\n    When text:\n      \"\"\"\n      t\n      \"\"\"\n    Then plain:\n"))
FEATURES.append(("whitespace-only-lines", None, u"Feature: F\n   \t  \n  Scenario: S\n \n    Given g\n      \"\"\"\n      a\n   \n\n      b\n      \"\"\"\n"))


def fixed_corpus():
    for name, language, text in FEATURES:
        observe("parse_feature[%s] lang=%r" % (name, language),
                parser.parse_feature, text, language, "%s.feature" % name)
    # -- no filename
    observe("parse_feature[nofile-error]", parser.parse_feature, u"garbage\n")
    observe("parse_feature[nofile-ok]", parser.parse_feature,
            u"Feature: F\n  Scenario: S\n    Given g\n")

    # -- parse_file
    tmpdir = tempfile.mkdtemp(prefix="c04eq")
    for name, language, text in FEATURES[:1] + [f for f in FEATURES if f[0].startswith("language-")]:
        path = os.path.join(tmpdir, name + ".feature")
        with io.open(path, "w", encoding="utf-8", newline="") as f:
            f.write(text)
        emit("--- parse_file %s" % name)
        try:
            feature = parser.parse_file(path, language)
        except Exception as e:  # pylint: disable=broad-except
            emit("  EXC %s: %s" % (type(e).__name__,
                                    ("%s" % e).replace(os.path.relpath(tmpdir), "<TMP>").replace(tmpdir, "<TMP>")))
        else:
            if feature is not None:
                emit("  filename=%r" % os.path.basename(feature.filename))
                emit("  language=%r name=%r line=%r #items=%d" % (
                    feature.language, feature.name, feature.line, len(feature.run_items)))
                for scenario in feature.walk_scenarios(with_outlines=True):
                    emit("  scenario L%s %r kw=%r steps=%r" % (
                        scenario.line, scenario.name, scenario.keyword,
                        [(s.line, s.keyword, s.step_type, s.name) for s in scenario.steps]))
            else:
                emit("  None")
        os.remove(path)
    os.rmdir(tmpdir)


STEPS_TEXTS = [
    u"",
    u"Given a",
    u"Given a\nWhen b\nThen c\nAnd d\nBut e\n* f",
    u"* a\nAnd b",
    u"And orphan",
    u"But orphan",
    u"  Given a\n    | x | y |\n    | 1 | 2 |",
    u"  Given a\n    | x | y |\n    | 1 | 2 |\n  When b\n    \"\"\"\n    text\n      more\n    \"\"\"\n  Then c",
    u"Given a\n  '''\n  t\n  '''",
    u"Given a:\n  '''\n  t\n  '''\nWhen b:\n  | a |\nThen c:",
    u"\"\"\"\ntext\n\"\"\"",
    u"| a |",
    u"Given a\n| a | b |\n| 1 |",
    u"Given a\n| a | b\n| 1 | 2 |",
    u"garbage",
    u"Given a\ngarbage",
    u"Given a\n@tag\nScenario: New\n  Given b",
    u"Given a\nScenario: New\n  Given b\n  And c",
    u"Given a\nScenario Outline: New\n  Given <b>\n  Examples:\n   | b |\n   | 1 |",
    u"Given a\nExamples: E\n  | a |",
    u"Given a\nRule: R",
    u"Given a\nFeature: F",
    u"Given a\nBackground: B",
    u"# comment\nGiven a\n  # comment\n\n\nWhen b",
    u"Given a\n  \"\"\"\n  # kept\n\n  \"\"\"",
    u"Given a\n  \"\"\"\n x\n  \"\"\"",
    u"Given a\r\n  | a |\r\n  | 1 |\r\n",
    u"given lower\nWHEN UPPER\nand x",
    u"Given a\n  | a |\n  | 1 |\n  \"\"\"\n  both\n  \"\"\"",
    u"Given a\n  \"\"\"\n  both\n  \"\"\"\n  | a |\n  | 1 |",
]

SCENARIO_TEXTS = [
    u"",
    u"Scenario: S\n  Given a\n  When b",
    u"@t1 @t2\n@t3 # c\nScenario: S\n  desc\n  Given a\n    | a |\n    | 1 |",
    u"Scenario Outline: O\n  Given <a>\n  @e\n  Examples: E\n    | a |\n    | 1 |\n  Examples: F\n    | a |",
    u"Example: E\n  * x\n  And y",
    u"Scenario Template: T\n  desc only",
    u"Given without scenario",
    u"description without scenario",
    u"Background: B\n  Given g",
    u"Feature: F",
    u"Rule: R\n  Scenario: S\n    Given x",
    u"Examples: E\n  | a |",
    u"Scenario: A\n  Given a\nScenario: B\n  Given b",
    u"@bad tag\nScenario: S",
    u"Scenario: S\n  And orphan",
    u"# comment\n# language: de\nScenario: S\n  Given a",
]

RULE_TEXTS = [
    u"",
    u"Rule: R",
    u"@r1\n@r2 #c\nRule: R\n  rdesc\n  Background: B\n    Given b\n  @s\n  Scenario: S\n    And x\n  Scenario Outline: O\n    When <a>\n    Examples:\n      | a |\n      | 1 |",
    u"Rule: R\n  Example: E\n    Given g\n      \"\"\"\n      t\n      \"\"\"",
    u"description first",
    u"Background: B\n  Given b",
    u"Scenario: S\n  Given s",
    u"Rule: A\n  Scenario: S\nRule: B\n  Scenario: T",
    u"Feature: F",
    u"Rule: R\n  Background: A\n    Given a\n  Background: B\n    Given b",
    u"Rule: R\n  @t\n  Background: A",
    u"Rule: R\n  Scenario: S\n    Given a\n  Background: A",
]

TAGS_TEXTS = [
    u"", u"@a", u"@a @b", u"  @a   @b  ", u"@a\n@b @c\n\n@d", u"@a # comment @x", u"@a #",
    u"# only comment", u"@a#b", u"@a bad", u"bad", u"@a\n# line comment\n@b", u"@", u"@@a",
    u"@a\t@b\r\n@c", u"@a @a", u"@t\xe4g @\u30bf\u30b0", u"@a,b @c=d @e:f",
]


def variant_corpus():
    for language in (None, "en", "de"):
        for i, text in enumerate(STEPS_TEXTS):
            observe("parse_steps[%d] lang=%r" % (i, language),
                    parser.parse_steps, text, language, "steps%d" % i)
    observe("parse_steps[de-native]", parser.parse_steps,
            u"Angenommen a\nUnd b\nWenn c\nAber d\n* e\nDann f", "de")
    observe("parse_steps[nofile]", parser.parse_steps, u"Given a\ngarbage")
    for text in (u"Given one", u"Given one\n  | a |\n  | 1 |", u"", u"Given a\nWhen b", u"garbage"):
        emit("=== parse_step %r" % text)
        try:
            dump_step(parser.parse_step(text), "  ")
        except BaseException as e:  # pylint: disable=broad-except
            emit("  EXC %s: %s" % (type(e).__name__, e))
    for i, text in enumerate(SCENARIO_TEXTS):
        observe("parse_scenario[%d]" % i, parser.parse_scenario, text, None, "sc%d" % i)
    observe("parse_scenario[de]", parser.parse_scenario,
            u"@x\nSzenario: S\n  Angenommen a\n  Und b", "de")
    for i, text in enumerate(RULE_TEXTS):
        observe("parse_rule[%d]" % i, parser.parse_rule, text, None, "rule%d" % i)
    observe("parse_rule[de]", parser.parse_rule,
            u"Regel: R\n  Grundlage: G\n    Angenommen a\n  Beispiel: S\n    Und b", "de")
    for i, text in enumerate(TAGS_TEXTS):
        observe("parse_tags[%d] %r" % (i, text), parser.parse_tags, text)

    # -- Parser object reuse (reset between runs) and method-level API.
    p = parser.Parser()
    for text in (u"Feature: A\n  Scenario: S\n    Given g\n      | a |",
                 u"# language: de\nFunktionalit\xe4t: B\n  Szenario: S\n    Angenommen g",
                 u"Funktionalit\xe4t: C\n  Szenario: S\n    Wenn w",
                 u"Feature: D"):
        observe("Parser.reuse %r" % text[:20], p.parse, text, "reuse.feature")
        emit("  after: language=%r state=%s line=%s" % (p.language, p.state.name, p.line))
    p = parser.Parser()
    for kw, line in (("feature", u"Feature: x"), ("feature", u"Ability: x"), ("feature", u"Feature x"),
                     ("scenario", u"Example: x"), ("scenario", u"Scenario Outline: x"),
                     ("scenario_outline", u"Scenario Outline: x"), ("examples", u"Scenarios: x"),
                     ("rule", u"Rule:"), ("background", u" Background:")):
        emit("match_keyword(%r, %r) -> %r [language=%r]" % (kw, line, p.match_keyword(kw, line), p.language))
    try:
        p.match_keyword("nokey", u"x")
    except Exception as e:  # pylint: disable=broad-except
        emit("match_keyword nokey EXC %s: %s" % (type(e).__name__, e))
    p2 = parser.Parser("de", variant="steps")
    p2.reset()
    p2.line = 7
    for line in (u"Angenommen x", u"Und y", u"* z", u"Wenn   spaced  ", u"nix", u"wenn klein", u"Aber b", u"Dann"):
        step = p2.parse_step(line)
        emit("Parser.parse_step(%r) -> %s ; last=%r" % (
            line, None if step is None else (step.line, step.keyword, step.step_type, step.name),
            p2.last_step_type))
    emit("Parser.parse_tags -> %s" % dump_tags(p2.parse_tags(u"@a @b # c")))


# ---------------------------------------------------------------------------
# DESCRIPTOR CORPUS (ModelDescriptor on hand-made tables)
# ---------------------------------------------------------------------------
def descriptor_corpus():
    tables = [
        model.Table([u"a"]),
        model.Table([]),
        model.Table([], rows=[[], []]),
        model.Table([u"name", u"x"], rows=[[u"alice", u"1"], [u"b", u"22222222"]]),
        model.Table([u"a|b", u"c\\d"], rows=[[u"x\ny", u""], [u"|||", u"\\|"]]),
        model.Table([u"\xe4\xf6\xfc", u"\u30bf\u30b0"], rows=[[u"1", u"\u6a5f\u80fd\u6a5f\u80fd"]]),
        model.Table([u"a", u"b"], rows=[[u"1", u"2", u"3"]]),     # row longer than headings
        model.Table([u"a", u"b", u"c"], rows=[[u"1", u"2"]]),     # row shorter than headings
    ]
    # -- non-string cells (only possible by mutation after construction)
    t_int = model.Table([u"a", u"b"], rows=[[u"0", u"0"], [u"1", u"2"]])
    t_int.rows[1].cells[1] = 2
    t_none = model.Table([u"a"], rows=[[u"x"]])
    t_none.rows[0].cells[0] = None
    tables.extend([t_int, t_none])
    for i, table in enumerate(tables):
        for indentation in (None, u"", u"  ", u"\t# "):
            emit("=== describe_table[%d] indent=%r" % (i, indentation))
            try:
                emit("  %r" % ModelDescriptor.describe_table(table, indentation))
                emit("  %r" % ModelDescriptor().describe_table(table, indentation))
            except Exception as e:  # pylint: disable=broad-except
                emit("  EXC %s: %s" % (type(e).__name__, e))
        stream = io.StringIO()
        try:
            ModelPrinter(stream).print_table(table, u"    ")
        except Exception as e:  # pylint: disable=broad-except
            emit("  print_table EXC %s: %s" % (type(e).__name__, e))
        emit("  printed=%r" % stream.getvalue())
    for text in (u"", u"one", u"a\nb", u'has """ inside', u"'''", u"  keep\n    indent\n", u"\xe4\n\n\u6a5f"):
        for indentation in (None, u"", u"    "):
            emit("describe_docstring(%r, %r) -> %r" % (
                text, indentation, ModelDescriptor.describe_docstring(text, indentation)))
        stream = io.StringIO()
        ModelPrinter(stream).print_docstring(text, u"  ")
        emit("  printed=%r" % stream.getvalue())


# ---------------------------------------------------------------------------
# RANDOM CORPUS: render abstract feature trees in every language / alias
# ---------------------------------------------------------------------------
WORDS = [u"alpha", u"beta", u"gamma", u"delta", u"a b", u"x:y", u"<p>", u"caf\xe9", u"n\xb0 1",
         u"\u6a5f\u80fd", u"with # hash", u"quote \"q\"", u"it's"]
CELLS = [u"", u"1", u"a b", u"x\\|y", u"<p>", u"\\|", u"caf\xe9", u"  padded", u"\u6a5f", u"#no", u"@t"]


class Renderer(object):
    def __init__(self, rng, keywords):
        self.rng = rng
        self.kw = keywords
        self.out = []

    def ind(self):
        return self.rng.choice([u"", u" ", u"  ", u"    ", u"\t", u"      "])

    def noise(self):
        r = self.rng.random()
        if r < 0.15:
            self.out.append(u"")
        elif r < 0.25:
            self.out.append(self.ind() + u"# comment " + self.rng.choice(WORDS))
        elif r < 0.30:
            self.out.append(u"   \t ")

    def line(self, text):
        self.noise()
        self.out.append(self.ind() + text)

    def alias(self, kind):
        return self.rng.choice(self.kw[kind])

    def name(self):
        return u" ".join(self.rng.choice(WORDS) for _ in range(self.rng.randint(0, 3)))

    def tags(self):
        for _ in range(self.rng.randint(0, 2)):
            tags = [u"@t%d" % self.rng.randint(0, 99) for _ in range(self.rng.randint(1, 3))]
            text = self.rng.choice([u" ", u"  ", u"\t"]).join(tags)
            if self.rng.random() < 0.3:
                text += u"  # trailing @comment"
            self.line(text)

    def description(self):
        for _ in range(self.rng.randint(0, 2)):
            self.line(u"desc " + self.rng.choice(WORDS))

    def table(self):
        ncols = self.rng.randint(1, 3)
        for r in range(self.rng.randint(1, 3)):
            cells = [self.rng.choice(CELLS) if r else u"h%d" % c for c in range(ncols)]
            pad = self.rng.choice([u"", u" ", u"  "])
            self.line(u"|" + u"|".join(pad + c + pad for c in cells) + u"|")

    def docstring(self):
        quotes = self.rng.choice([u'"""', u"'''"])
        indent = self.rng.choice([u"", u"  ", u"      ", u"\t"])
        self.noise()
        self.out.append(indent + quotes)
        for _ in range(self.rng.randint(0, 3)):
            self.out.append(self.rng.choice([
                indent + u"text " + self.rng.choice(WORDS),
                indent + u"   deeper",
                u"",
                indent + u"# not comment",
                indent + u"| not | table |",
                indent + u"@nottag   ",
            ]))
        self.out.append(indent + quotes)

    def steps(self, allow_and_first):
        n = self.rng.randint(0, 4)
        for i in range(n):
            kinds = [u"given", u"when", u"then"]
            if i > 0 or allow_and_first:
                kinds += [u"and", u"but"]
            kind = self.rng.choice(kinds)
            kw = self.alias(kind)
            self.line(kw + u"step " + self.rng.choice(WORDS))
            r = self.rng.random()
            if r < 0.2:
                self.table()
            elif r < 0.4:
                self.docstring()

    def background(self):
        self.line(self.alias(u"background") + u":" + self.rng.choice([u"", u" "]) + self.name())
        self.description()
        self.steps(False)

    def scenario(self, and_first):
        self.tags()
        if self.rng.random() < 0.35:
            self.line(self.alias(u"scenario_outline") + u": " + self.name())
            self.description()
            self.steps(and_first)
            for _ in range(self.rng.randint(0, 2)):
                self.tags()
                self.line(self.alias(u"examples") + u":" + self.name())
                if self.rng.random() < 0.9:
                    self.table()
        else:
            self.line(self.alias(u"scenario") + u": " + self.name())
            self.description()
            self.steps(and_first)

    def feature(self):
        self.tags()
        self.line(self.alias(u"feature") + u": " + self.name())
        self.description()
        has_bg = self.rng.random() < 0.5
        if has_bg:
            self.background()
        for _ in range(self.rng.randint(0, 2)):
            self.scenario(False)
        for _ in range(self.rng.randint(0, 2)):
            self.tags()
            self.line(self.alias(u"rule") + u": " + self.name())
            self.description()
            if self.rng.random() < 0.4:
                self.background()
            for _ in range(self.rng.randint(0, 2)):
                self.scenario(False)
        return u"\n".join(self.out) + self.rng.choice([u"", u"\n", u"\n\n"])


def random_corpus():
    rng = random.Random(20240404)
    for language in sorted(i18n.languages):
        keywords = i18n.languages[language]
        for n in range(3):
            text = Renderer(rng, keywords).feature()
            observe("random parse_feature lang=%s #%d (arg)" % (language, n),
                    parser.parse_feature, text, language, "r_%s_%d.feature" % (language, n))
            if n == 0:
                observe("random parse_feature lang=%s #%d (header)" % (language, n),
                        parser.parse_feature, u"# language: %s\n%s" % (language, text),
                        None, "h_%s_%d.feature" % (language, n))
        # -- EVERY ALIAS of every keyword, once.
        lines = []
        for alias in keywords["feature"][:1]:
            lines.append(u"%s: F" % alias)
        for alias in keywords["background"][:1]:
            lines.append(u"  %s: B" % alias)
        for kind in ("given", "when", "then", "and", "but"):
            for alias in keywords[kind]:
                lines.append(u"    %sbg %s" % (alias, kind))
        for alias in keywords["scenario"]:
            lines.append(u"  %s: S %s" % (alias, alias))
            for kind in ("and", "given", "but", "when", "and", "then", "but"):
                for kw in keywords[kind]:
                    lines.append(u"    %sstep %s" % (kw, kind))
        for alias in keywords["scenario_outline"]:
            lines.append(u"  %s: O %s" % (alias, alias))
            lines.append(u"    %s<a>" % keywords["given"][-1])
            for ex in keywords["examples"]:
                lines.append(u"    %s: E %s" % (ex, ex))
                lines.append(u"      | a |")
                lines.append(u"      | 1 |")
        for alias in keywords["rule"]:
            lines.append(u"  %s: R %s" % (alias, alias))
            lines.append(u"    %s: RS" % keywords["scenario"][0])
            lines.append(u"      %srs" % keywords["when"][-1])
        text = u"\n".join(lines)
        observe("aliases parse_feature lang=%s" % language,
                parser.parse_feature, text, language, "a_%s.feature" % language)
        for alias in keywords["feature"][1:]:
            observe("aliases feature-alias lang=%s %r" % (language, alias),
                    parser.parse_feature, u"%s: F\n" % alias, language)
        # -- variants
        steps_text = u"\n".join(u"%sx %s" % (keywords[k][-1], k)
                                for k in ("given", "and", "when", "but", "then"))
        observe("random parse_steps lang=%s" % language, parser.parse_steps,
                steps_text + u"\n  | a |\n  | 1 |", language, "s_%s" % language)
        observe("random parse_scenario lang=%s" % language, parser.parse_scenario,
                u"@x\n%s: S\n%s" % (keywords["scenario"][-1], steps_text), language)
        observe("random parse_rule lang=%s" % language, parser.parse_rule,
                u"@r\n%s: R\n  %s: B\n  %s\n  %s: S\n%s" % (
                    keywords["rule"][-1], keywords["background"][-1],
                    u"%sbg" % keywords["given"][-1], keywords["scenario"][0], steps_text),
                language)
    # -- random parse_steps with malformed stuff mixed in (en)
    en = i18n.languages["en"]
    for n in range(60):
        r = Renderer(rng, en)
        r.steps(True)
        if rng.random() < 0.3:
            r.line(rng.choice([u"garbage", u"@tag", u"| x |", u'"""', u"Examples:", u"Scenario: N", u"Rule: R"]))
            r.steps(True)
        observe("random parse_steps en #%d" % n, parser.parse_steps, u"\n".join(r.out), None, "rs%d" % n)


if __name__ == "__main__":
    fixed_corpus()
    variant_corpus()
    descriptor_corpus()
    random_corpus()
    OUT.flush()
