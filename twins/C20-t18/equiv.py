# -*- coding: UTF-8 -*-
"""
Equivalence transcript for property C20 (configuration precedence, userdata).

Builds Configuration objects in scratch directories that hold config files
(ini-style and pyproject.toml, in the working directory and in $HOME),
combines them with command-line options and prints a canonical transcript.
Also drives the module-level helpers directly (config_filenames,
read_configuration, format_outfiles_coupling, parse_user_define, parse_bool,
UserData getters).
"""

from __future__ import absolute_import, print_function
import sys
import os

sys.path.insert(0, "/tmp/wtW/C20")
for _name in ("BEHAVE_COLOR", "BEHAVE_STAGE", "APPDATA"):
    os.environ.pop(_name, None)

import io
import itertools
import re
import shutil
import tempfile

import behave
assert behave.__file__.startswith("/tmp/wtW/C20/"), behave.__file__
from behave import configuration as cfgmod
from behave.configuration import Configuration
from behave import userdata as udmod
from behave.userdata import UserData, UserDataNamespace, parse_user_define, \
    parse_bool, unqote
from behave.formatter.base import StreamOpener

ROOT = os.path.realpath(tempfile.mkdtemp(prefix="c20equiv_"))
HOME = os.path.join(ROOT, "home")
START_DIR = os.getcwd()
REGEX_TYPE = type(re.compile("x"))
LINES = []


def out(text=""):
    LINES.append(text.replace(ROOT, "<ROOT>"))


def canon(value):
    if isinstance(value, StreamOpener):
        return "StreamOpener(name=%r, stream=%s)" % \
            (value.name, "None" if value.stream is None else "<stream>")
    if isinstance(value, REGEX_TYPE):
        return "regex(%r)" % value.pattern
    if isinstance(value, UserData):
        return "UserData(%s)" % canon(dict(value))
    if isinstance(value, dict):
        items = sorted(value.items(), key=lambda kv: repr(kv[0]))
        return "{%s}" % ", ".join("%s: %s" % (canon(k), canon(v))
                                  for k, v in items)
    if isinstance(value, list):
        return "[%s]" % ", ".join(canon(v) for v in value)
    if isinstance(value, tuple):
        return "(%s)" % ", ".join(canon(v) for v in value)
    if isinstance(value, (str, bytes, int, float, bool, type(None))):
        return repr(value)
    type_name = type(value).__name__
    if type_name in ("JUnitReporter", "SummaryReporter"):
        return "<%s>" % type_name
    if "TagExpression" in type_name or type_name in ("And", "Or", "Not",
                                                     "Literal", "Matcher",
                                                     "True_", "Never"):
        return "<%s %s>" % (type_name, value)
    text = repr(value)
    text = re.sub(r" at 0x[0-9a-fA-F]+", "", text)
    return text


def dump_config(config, only=None):
    for name in sorted(vars(config)):
        if only is not None and name not in only:
            continue
        out("    %s = %s" % (name, canon(getattr(config, name))))


class Capture(object):
    def __enter__(self):
        self.saved = (sys.stdout, sys.stderr)
        self.stdout = io.StringIO()
        self.stderr = io.StringIO()
        sys.stdout, sys.stderr = self.stdout, self.stderr
        return self

    def __exit__(self, *exc_info):
        sys.stdout, sys.stderr = self.saved
        return False

    def report(self):
        for label, stream in (("stdout", self.stdout), ("stderr", self.stderr)):
            text = stream.getvalue()
            if text:
                for line in text.splitlines():
                    out("    %s| %s" % (label, line))


def fresh_tree(files):
    for name in os.listdir(ROOT):
        shutil.rmtree(os.path.join(ROOT, name))
    os.makedirs(HOME)
    for relpath, content in sorted(files.items()):
        path = os.path.join(ROOT, relpath)
        dirname = os.path.dirname(path)
        if not os.path.isdir(dirname):
            os.makedirs(dirname)
        with io.open(path, "w", encoding="utf-8") as f:
            f.write(content)


def describe_error(e):
    return "%s: %s" % (type(e).__name__, str(e).replace("\n", "\\n"))


def run_case(label, files, cwd, args, only=None, ctor_kwargs=None):
    out("CASE %s" % label)
    out("  cwd=%s args=%r" % (cwd, args))
    fresh_tree(files)
    workdir = os.path.join(ROOT, cwd)
    if not os.path.isdir(workdir):
        os.makedirs(workdir)
    os.chdir(workdir)
    os.environ["HOME"] = HOME
    config = None
    with Capture() as captured:
        try:
            config = Configuration(list(args), **(ctor_kwargs or {}))
        except SystemExit as e:
            outcome = "SystemExit(%r)" % (e.code,)
        except BaseException as e:  # noqa
            outcome = "RAISED %s" % describe_error(e)
        else:
            outcome = "OK"
    os.chdir(START_DIR)
    out("  outcome: %s" % outcome)
    captured.report()
    if config is not None:
        dump_config(config, only)
    return config


def ini(behave_items=None, **sections):
    lines = []
    if behave_items is not None:
        lines.append("[behave]")
        for key, value in behave_items:
            lines.append("%s = %s" % (key, value))
    for section, items in sorted(sections.items()):
        lines.append("[%s]" % section.replace("__", "."))
        for key, value in items:
            lines.append("%s = %s" % (key, value))
    return "\n".join(lines) + "\n"


# ---------------------------------------------------------------------------
# SECTION 1: defaults only
# ---------------------------------------------------------------------------
out("=== SECTION 1: defaults, nothing configured")
run_case("defaults", {}, "proj", [])
run_case("defaults+paths", {}, "proj", ["features/a.feature", "./b//c/../d"])

# ---------------------------------------------------------------------------
# SECTION 2: boolean options, file value x command-line flag
# ---------------------------------------------------------------------------
out("=== SECTION 2: boolean matrix")
BOOLEANS = [
    # (dest, positive flag, negative flag)
    ("show_snippets", "--snippets", "--no-snippets"),
    ("show_skipped", "--show-skipped", "--no-skipped"),
    ("show_source", "--show-source", "--no-source"),
    ("show_timings", "--show-timings", "--no-timings"),
    ("show_multiline", "--multiline", "--no-multiline"),
    ("stdout_capture", "--capture", "--no-capture"),
    ("stderr_capture", "--capture-stderr", "--no-capture-stderr"),
    ("log_capture", "--logcapture", "--no-logcapture"),
    ("summary", "--summary", "--no-summary"),
    ("junit", "--junit", "--no-junit"),
    ("dry_run", "--dry-run", None),
    ("stop", "--stop", None),
    ("quiet", "--quiet", None),
    ("verbose", "--verbose", None),
    ("logging_clear_handlers", "--logging-clear-handlers", None),
]
BOOL_OBSERVED = set(b[0] for b in BOOLEANS) | set(["reporters", "defaults"])
for dest, positive, negative in BOOLEANS:
    for file_value in (None, "true", "false", "yes", "0"):
        for flag in (None, positive, negative):
            if flag is None and negative is None and file_value is None:
                continue
            files = {}
            if file_value is not None:
                files["proj/behave.ini"] = ini([(dest, file_value)])
            args = [flag] if flag else []
            run_case("bool %s file=%s cmd=%s" % (dest, file_value, flag),
                     files, "proj", args, only=set([dest, "reporters"]))

# -- several booleans at once, in file and on the command line
for file_subset in ([], BOOLEANS[:4], BOOLEANS[2:9], BOOLEANS[:10]):
    for cmd_subset, use_negative in (([], False), (BOOLEANS[1:6], True),
                                     (BOOLEANS[3:10], False),
                                     (BOOLEANS[:10], True)):
        files = {}
        if file_subset:
            files["proj/behave.ini"] = ini([(b[0], "false")
                                            for b in file_subset])
        args = [(b[2] if use_negative and b[2] else b[1]) for b in cmd_subset]
        run_case("bools file=%s cmd=%s" % ([b[0] for b in file_subset], args),
                 files, "proj", args, only=BOOL_OBSERVED - set(["defaults"]))

# ---------------------------------------------------------------------------
# SECTION 3: scalars and choices
# ---------------------------------------------------------------------------
out("=== SECTION 3: scalar matrix")
SCALARS = [
    # (dest, file value, command-line args)
    ("jobs", "4", ["--jobs", "7"]),
    ("jobs", "-1", ["-j", "-3"]),
    ("jobs", "x", ["--parallel=2"]),
    ("stage", "develop", ["--stage", "product"]),
    ("logging_level", "DEBUG", ["--logging-level", "error"]),
    ("logging_level", "bogus", ["--logging-level", "bogus"]),
    ("logging_format", "%(name)s|%(message)s", ["--logging-format", "%(msg)s"]),
    ("logging_datefmt", "%H:%M", ["--logging-datefmt", "%Y"]),
    ("logging_filter", "foo,-bar", ["--logging-filter", "baz"]),
    ("runner", "my.runner:Runner", ["-r", "other:Runner"]),
    ("junit_directory", "out/junit", ["--junit-directory", "cmd/junit"]),
    ("lang", "de", ["--lang", "fr"]),
    ("color", "never", ["--color", "always"]),
    ("color", "on", ["--no-color"]),
    ("color", "purple", ["--color=purple"]),
    ("color", "auto", ["--color"]),
    ("exclude_re", "file_.*", ["-e", "cmd_.*"]),
    ("include_re", "inc_.*", ["--include", "cmdinc.*"]),
    ("default_format", "plain", []),
    ("tag_expression_protocol", "v1", []),
    ("tag_expression_protocol", "STRICT", []),
    ("tag_expression_protocol", "nope", []),
    ("scenario_outline_annotation_schema", "  {name} <{row.id}>  ", []),
]
for dest, file_value, cmd_args in SCALARS:
    for use_file, use_cmd in itertools.product((False, True), repeat=2):
        if not use_file and not use_cmd:
            continue
        if use_cmd and not cmd_args:
            continue
        files = {}
        if use_file:
            files["proj/behave.ini"] = ini([(dest, file_value)])
        args = list(cmd_args) if use_cmd else []
        observed = set([dest, "steps_dir", "environment_file", "defaults"])
        run_case("scalar %s file=%s cmd=%s" % (dest, use_file, args),
                 files, "proj", args, only=observed)

# ---------------------------------------------------------------------------
# SECTION 4: append options, format/outfiles coupling, relative paths
# ---------------------------------------------------------------------------
out("=== SECTION 4: append options and format/outfiles coupling")
FORMATS = ["plain", "json", "progress", "pretty"]
OUTFILES = ["a.out", "sub/b.out", "/abs/c.out", "../d.out", "e.out"]
APPEND_OBSERVED = set(["format", "outfiles", "outputs", "paths", "tags",
                       "config_tags", "default_tags", "name", "name_re",
                       "tag_expression", "default_format"])
for n_formats in range(0, 4):
    for n_outfiles in range(0, 6):
        items = []
        if n_formats:
            items.append(("format", "\n    ".join(FORMATS[:n_formats])))
        if n_outfiles:
            items.append(("outfiles",
                          "\n    ".join(OUTFILES[:n_outfiles])))
        files = {"proj/behave.ini": ini(items)}
        for args in ([], ["-f", "plain"], ["-o", "cmd.out"],
                     ["-f", "json", "-o", "cmd.json", "-f", "plain"]):
            run_case("coupling formats=%d outfiles=%d cmd=%s"
                     % (n_formats, n_outfiles, args),
                     files, "proj", args, only=APPEND_OBSERVED)

LIST_FILE = ini([
    ("paths", "features\n  more/features\n  /abs/features\n  ../up"),
    ("tags", "@foo\n  not @bar\n  @zap and @zip"),
    ("default_tags", "not @xfail"),
    ("name", "Alice.*\n  Bob\n   Charly  "),
])
for args in ([], ["-t", "@cmd"], ["--tags", "@cmd and {config.tags}"],
             ["-n", "Dora", "-n", "E.*"], ["cmd/features", "x/../y.feature:3"],
             ["--wip"], ["--wip", "-t", "@one"], ["--steps-catalog"],
             ["--steps-catalog", "-f", "plain"], ["-q"],
             ["-f", "help"], ["-f", "unknown.format"],
             ["-v", "-f", "unknown.format", "-f", "behave.model:Step"]):
    run_case("lists cmd=%s" % (args,), {"proj/behave.ini": LIST_FILE},
             "proj", args,
             only=APPEND_OBSERVED | set(["wip", "stop", "color", "quiet",
                                         "dry_run", "summary", "show_source",
                                         "show_snippets", "show_skipped",
                                         "log_capture", "stdout_capture"]))
run_case("default_tags only", {"proj/behave.ini": ini([
    ("default_tags", "not @xfail\n  @smoke")])}, "proj", [],
    only=APPEND_OBSERVED)
run_case("format not a list (kwargs)", {}, "proj", [], only=APPEND_OBSERVED,
         ctor_kwargs=dict(format="plain"))

# ---------------------------------------------------------------------------
# SECTION 5: config-file discovery, several files, several depths
# ---------------------------------------------------------------------------
out("=== SECTION 5: config-file discovery and depth")
CONFIG_NAMES = ["behave.ini", ".behaverc", "setup.cfg", "tox.ini"]
DISCOVERY_OBSERVED = set(["stage", "jobs", "paths", "outfiles", "format",
                          "outputs", "junit_directory", "userdata",
                          "steps_dir", "lang", "default_format"])


def make_ini_for(tag, index, with_paths=True):
    items = [("stage", "stage_%s" % tag),
             ("jobs", str(index + 2)),
             ("lang", "l%s" % tag)]
    if index % 2 == 0:
        items.append(("junit_directory", "junit_%s" % tag))
    if with_paths:
        items.append(("paths", "feat_%s\n  ./deep/../feat2_%s" % (tag, tag)))
        items.append(("format", "plain\n  json"))
        items.append(("outfiles", "out_%s.txt" % tag))
    return ini(items, behave__userdata=[("origin", tag),
                                       ("only_%s" % tag, "1")])


def make_toml_for(tag, index):
    return (u'[tool.behave]\n'
            u'stage = "stage_%s"\n'
            u'jobs = %d\n'
            u'default_format = "fmt_%s"\n'
            u'paths = ["feat_%s", "x/../feat2_%s"]\n'
            u'format = ["progress", "plain", "json"]\n'
            u'outfiles = ["toml_%s.out"]\n'
            u'[tool.behave.userdata]\n'
            u'origin = "%s"\n'
            u'number = 12\n'
            u'ratio = 0.5\n'
            u'flag = true\n' % (tag, index + 2, tag, tag, tag, tag, tag))


ALL_NAMES = CONFIG_NAMES + ["pyproject.toml"]
for size in (1, 2, 3, 5):
    for subset in itertools.combinations(range(len(ALL_NAMES)), size):
        if size == 3 and sum(subset) % 2:
            continue
        files = {}
        for index in subset:
            name = ALL_NAMES[index]
            tag = "w%d" % index
            if name.endswith(".toml"):
                files["proj/" + name] = make_toml_for(tag, index)
            else:
                files["proj/" + name] = make_ini_for(tag, index)
        run_case("discovery cwd files=%s" % ([ALL_NAMES[i] for i in subset],),
                 files, "proj", [], only=DISCOVERY_OBSERVED)

for home_index, cwd_index in itertools.product(range(len(ALL_NAMES)),
                                               (None, 0, 2, 4)):
    files = {}
    home_name = ALL_NAMES[home_index]
    if home_name.endswith(".toml"):
        files["home/" + home_name] = make_toml_for("home", home_index)
    else:
        files["home/" + home_name] = make_ini_for("home", home_index)
    if cwd_index is not None:
        cwd_name = ALL_NAMES[cwd_index]
        if cwd_name.endswith(".toml"):
            files["proj/a/b/" + cwd_name] = make_toml_for("deep", cwd_index + 3)
        else:
            files["proj/a/b/" + cwd_name] = make_ini_for("deep", cwd_index + 3,
                                                         with_paths=(cwd_index == 0))
    # -- a config file in a PARENT directory must not be picked up
    files["proj/behave.ini"] = ini([("stage", "parent_must_not_be_used")])
    for args in ([], ["--stage", "cmd", "-D", "origin=cmdline", "-o", "c.out"]):
        run_case("depth home=%s cwd=%s cmd=%s"
                 % (home_name, None if cwd_index is None else ALL_NAMES[cwd_index],
                    args),
                 files, "proj/a/b", args, only=DISCOVERY_OBSERVED)

# -- load_config=False and keyword overrides
run_case("load_config=False", {"proj/behave.ini": ini([("stage", "ignored")])},
         "proj", ["--jobs", "3"], only=DISCOVERY_OBSERVED | set(["defaults"]),
         ctor_kwargs=dict(load_config=False))
run_case("kwargs override defaults",
         {"proj/behave.ini": ini([("stage", "from_file")])},
         "proj", [], only=DISCOVERY_OBSERVED | set(["defaults", "color"]),
         ctor_kwargs=dict(stage="from_kwargs", jobs=9, color="off",
                          userdata={"k": "v"}))
run_case("kwargs override defaults + cmd",
         {}, "proj", ["--stage", "cmd"],
         only=DISCOVERY_OBSERVED | set(["defaults", "color"]),
         ctor_kwargs=dict(stage="from_kwargs", jobs=9, extra_param=[1, 2]))
out("class defaults untouched: %s" % canon(Configuration.defaults))
out("make_defaults(): %s" % canon(Configuration.make_defaults()))
out("make_defaults(a=1, jobs=3, stage='s'): %s"
    % canon(Configuration.make_defaults(a=1, jobs=3, stage="s")))
out("make_defaults is copy: %s"
    % (Configuration.make_defaults() is not Configuration.defaults))

# -- verbose mode shows the load order
run_case("verbose load order",
         {"proj/behave.ini": make_ini_for("ini", 0),
          "proj/tox.ini": make_ini_for("tox", 1),
          "proj/notes.yaml": u"x: 1\n",
          "home/.behaverc": make_ini_for("home", 2),
          "home/pyproject.toml": make_toml_for("hometoml", 3)},
         "proj", ["-v"], only=DISCOVERY_OBSERVED)
run_case("verbose keyword",
         {"proj/setup.cfg": make_ini_for("cfg", 0)},
         "proj", [], only=DISCOVERY_OBSERVED | set(["verbose"]),
         ctor_kwargs=dict(verbose=True))

# -- config_filenames() directly
out("--- config_filenames()")
for home_subset, cwd_subset in (((), ()), ((0,), ()), ((), (4,)),
                                ((0, 1, 2, 3, 4), (0, 1, 2, 3, 4)),
                                ((1, 3), (0, 2, 4)), ((4,), (3, 1))):
    files = {}
    for index in home_subset:
        files["home/" + ALL_NAMES[index]] = u""
    for index in cwd_subset:
        files["proj/" + ALL_NAMES[index]] = u""
    files["proj/behave.ini.d/keep"] = u""      # -- directory, not a file
    fresh_tree(files)
    os.makedirs(os.path.join(ROOT, "proj", "setup.cfg.d"))
    os.chdir(os.path.join(ROOT, "proj"))
    os.environ["HOME"] = HOME
    generator = cfgmod.config_filenames()
    out("  home=%s cwd=%s lazy=%s" % (home_subset, cwd_subset,
                                       type(generator).__name__))
    for filename in generator:
        out("    %s" % filename)
    # -- windows-like branch
    saved_platform = sys.platform
    os.environ["APPDATA"] = os.path.join(ROOT, "home")
    for platform in ("win32", "cygwin", "linux"):
        sys.platform = platform
        try:
            names = list(cfgmod.config_filenames())
        finally:
            sys.platform = saved_platform
        out("    platform=%s: %s" % (platform, canon(names)))
    del os.environ["APPDATA"]
    sys.platform = "win32"
    try:
        names = list(cfgmod.config_filenames())
    finally:
        sys.platform = saved_platform
    out("    platform=win32 without APPDATA: %s" % canon(names))
    os.chdir(START_DIR)

# -- read_configuration() directly: file extension handling
out("--- read_configuration()")
fresh_tree({
    "proj/behave.ini": make_ini_for("x", 0),
    "proj/.behaverc": make_ini_for("rc", 1),
    "proj/my.cfg": make_ini_for("cfg", 2),
    "proj/dir.ini/noext": make_ini_for("noext", 3),
    "proj/dir.ini/behaverc": make_ini_for("plainrc", 3),
    "proj/some.yaml": u"a: 1\n",
    "proj/pyproject.toml": make_toml_for("t", 4),
    "proj/empty.ini": u"",
    "proj/other.ini": u"[other]\nx = 1\n",
    "proj/trailing.": make_ini_for("dot", 1),
})
os.chdir(os.path.join(ROOT, "proj"))
for path in ("behave.ini", "./behave.ini", ".behaverc", "my.cfg",
             "dir.ini/noext", "dir.ini/behaverc", "some.yaml",
             "pyproject.toml", "empty.ini", "other.ini", "trailing.",
             "missing.ini", "missing.toml", "ini", "", ".", "a.b.c.ini",
             os.path.join(ROOT, "proj", "behave.ini")):
    for verbose in (False, True):
        with Capture() as captured:
            try:
                result = "-> %s" % canon(cfgmod.read_configuration(path, verbose))
            except Exception as e:  # noqa
                result = "RAISED %s" % describe_error(e)
        out("  read_configuration(%r, verbose=%s) %s" % (path, verbose, result))
        captured.report()
os.chdir(START_DIR)

# ---------------------------------------------------------------------------
# SECTION 6: pyproject.toml specifics
# ---------------------------------------------------------------------------
out("=== SECTION 6: pyproject.toml")
TOML_CASES = [
    ("no tool", u'[project]\nname = "x"\n'),
    ("tool without behave", u'[tool.other]\nx = 1\n'),
    ("empty behave", u'[tool.behave]\n'),
    ("tool is empty", u'[tool]\n'),
    ("booleans", u'[tool.behave]\nshow_snippets = false\njunit = true\n'
                 u'summary = false\ndry_run = 1\nstop = ""\n'),
    ("scalars", u'[tool.behave]\njobs = 3\nstage = "s"\nlang = "de"\n'
                u'logging_level = "DEBUG"\ncolor = "never"\n'
                u'logging_format = "%(name)s"\n'),
    ("format is a string", u'[tool.behave]\nformat = "plain"\n'),
    ("outfiles is a number", u'[tool.behave]\noutfiles = 3\n'),
    ("tags list", u'[tool.behave]\ntags = ["@a", "not @b"]\n'
                  u'default_tags = ["@d"]\nname = ["N1", "N2"]\n'),
    ("coupling less", u'[tool.behave]\nformat = ["plain", "json", "progress"]\n'
                      u'outfiles = ["one.out"]\npaths = ["f1", "/abs/f2"]\n'),
    ("coupling more", u'[tool.behave]\nformat = ["plain"]\n'
                      u'outfiles = ["one.out", "two.out", "three.out"]\n'),
    ("sections", u'[tool.behave]\nstage = "x"\n'
                 u'[tool.behave.formatters]\nmyfmt = "behave.formatter.plain:PlainFormatter"\n'
                 u'[tool.behave.runners]\nfast = "my:FastRunner"\n'
                 u'[tool.behave.userdata]\ni = 1\nf = 1.5\nb = true\ns = "text"\n'
                 u'n = [1, 2.5, false]\n[tool.behave.userdata.t]\nk = 7\n'),
]
TOML_OBSERVED = set(["show_snippets", "junit", "summary", "dry_run", "stop",
                     "jobs", "stage", "lang", "logging_level", "color",
                     "logging_format", "format", "outfiles", "outputs", "paths",
                     "tags", "config_tags", "default_tags", "name", "userdata",
                     "more_formatters", "more_runners", "runner_aliases",
                     "reporters"])
for label, content in TOML_CASES:
    for args in ([], ["--snippets", "--no-junit", "--jobs", "5", "-f", "pretty",
                      "-D", "i=99", "-D", "s"]):
        run_case("toml %s cmd=%s" % (label, args),
                 {"proj/pyproject.toml": content}, "proj", args,
                 only=TOML_OBSERVED)
run_case("toml + ini, ini wins",
         {"proj/pyproject.toml": make_toml_for("toml", 0),
          "proj/behave.ini": ini([("stage", "ini_stage")],
                                 behave__userdata=[("origin", "ini")])},
         "proj", [], only=DISCOVERY_OBSERVED)

# ---------------------------------------------------------------------------
# SECTION 7: format_outfiles_coupling() directly
# ---------------------------------------------------------------------------
out("=== SECTION 7: format_outfiles_coupling()")
COUPLING_INPUTS = [
    {},
    {"format": []},
    {"format": ["plain"]},
    {"format": ["plain", "json"], "outfiles": []},
    {"format": ["plain", "json"], "outfiles": ["a"]},
    {"format": ["plain", "json"], "outfiles": ["a", "b"]},
    {"format": ["plain"], "outfiles": ["a", "b", "c"]},
    {"format": [], "outfiles": ["a"]},
    {"outfiles": ["only/out", "/abs/out"]},
    {"paths": ["p1", "../p2", "/abs/p3", "./p4/"]},
    {"paths": [], "outfiles": []},
    {"format": ("plain", "json", "x"), "outfiles": ["a"]},
    {"format": "abc", "outfiles": []},
    {"format": [1, None, ("t",), {"k": 1}]},
    {"format": ["plain", "json"], "outfiles": ("a",)},
    {"format": ["plain"], "outfiles": "xyz"},
    {"format": None},
    {"format": ["plain", ("a", "b")]},
    {"format": ["plain"], "paths": [1]},
    {"format": ["plain"], "other": "untouched"},
]
for config_dir in ("", "cfg/dir", "/abs/cfg", ".."):
    for data in COUPLING_INPUTS:
        data = dict((k, (list(v) if isinstance(v, list) else v))
                    for k, v in data.items())
        before = canon(data)
        outfiles_before = data.get("outfiles")
        with Capture() as captured:
            try:
                result = cfgmod.format_outfiles_coupling(data, config_dir)
                outcome = "-> %r" % (result,)
            except Exception as e:  # noqa
                outcome = "RAISED %s" % describe_error(e)
        out("  coupling(%s, %r) %s" % (before, config_dir, outcome))
        out("    after: %s" % canon(data))
        if outfiles_before is not None:
            out("    original outfiles object now: %s same-object=%s"
                % (canon(outfiles_before), data.get("outfiles") is outfiles_before))
        captured.report()

# ---------------------------------------------------------------------------
# SECTION 8: userdata defines
# ---------------------------------------------------------------------------
out("=== SECTION 8: parse_user_define / unqote / parse_bool")
NAMES = ["foo", " foo ", "foo.bar", '"foo"', "'foo'", "", "f=o"]
VALUES = ["bar", " bar ", '"bar"', "'bar'", '"bar', "bar'", "", "a=b", '"a=b"',
          "' x '", '""', "'", '"', "1", "tRuE"]
for name, value in itertools.product(NAMES, VALUES):
    for template in ("%s=%s", " %s = %s ", '"%s=%s"', "'%s=%s'", ' "%s=%s" ',
                     "\"%s='%s'\"", "\t%s=%s\n"):
        text = template % (name, value)
        try:
            out("  parse_user_define(%r) -> %r" % (text, parse_user_define(text)))
        except Exception as e:  # noqa
            out("  parse_user_define(%r) RAISED %s" % (text, describe_error(e)))
for text in ["", " ", "foo", " foo ", '"foo"', "'foo'", "=", "==", '"="', "'='",
             "a=", "=b", '"', "'", '""', "''", '"\'', u"n\xe4me=w\xe9rt",
             b"foo=bar", None, 3]:
    try:
        out("  parse_user_define(%r) -> %r" % (text, parse_user_define(text)))
    except Exception as e:  # noqa
        out("  parse_user_define(%r) RAISED %s" % (text, describe_error(e)))
for text in ["", '"', "'", '""', "''", '"a"', "'a'", '"a\'', '\'a"', 'a"', '"a',
             '""a""', "' '", '"\'\'"']:
    out("  unqote(%r) -> %r" % (text, unqote(text)))

BOOL_TEXTS = ["yes", "true", "on", "1", "no", "false", "off", "0",
              "YES", "True", "oN", " 1 ", "\tfalse\n", "Off ", "", " ", "2",
              "y", "n", "t", "f", "none", "null", "01", "1.0", "ja", "truee",
              u"\xfcber", "TRUE\x00", b"yes", b"nope", None, 1, 0, True,
              ["yes"], ("1",)]
for text in BOOL_TEXTS:
    try:
        out("  parse_bool(%r) -> %r" % (text, parse_bool(text)))
    except Exception as e:  # noqa
        out("  parse_bool(%r) RAISED %s" % (text, describe_error(e)))


class Text(str):
    """A str subclass, as produced by some option parsers."""


for text in [Text("Yes"), Text("OFF"), Text("maybe")]:
    try:
        out("  parse_bool(Text(%r)) -> %r" % (str(text), parse_bool(text)))
    except Exception as e:  # noqa
        out("  parse_bool(Text(%r)) RAISED %s" % (str(text), describe_error(e)))

out("=== SECTION 9: UserData getters")
USERDATA_VALUES = ["1", " 2 ", "-3", "4.5", "1e3", "abc", "", "true", "YES", "off",
                   "0", "no!", 5, 6.5, True, False, None, "0x10", "١٢", [1], b"7"]
GETTERS = [
    ("getint", lambda d, n, *a: d.getint(n, *a)),
    ("getfloat", lambda d, n, *a: d.getfloat(n, *a)),
    ("getbool", lambda d, n, *a: d.getbool(n, *a)),
    ("getas(str)", lambda d, n, *a: d.getas(str, n, *a)),
    ("getas(len,valuetype=int)",
     lambda d, n, *a: d.getas(len, n, *a, valuetype=int)),
    ("getas(parse_bool,valuetype=(bool,int))",
     lambda d, n, *a: d.getas(parse_bool, n, *a, valuetype=(bool, int))),
    ("getas(None)", lambda d, n, *a: d.getas(None, n, *a)),
]
for value in USERDATA_VALUES:
    data = UserData({"param": value})
    for label, getter in GETTERS:
        for default_args in ((), ("DEFAULT",)):
            for name in ("param", "missing"):
                try:
                    result = getter(data, name, *default_args)
                    out("  %r.%s(%r%s) -> %r" % (value, label, name,
                        "".join(", %r" % x for x in default_args), result))
                except Exception as e:  # noqa
                    out("  %r.%s(%r%s) RAISED %s" % (value, label, name,
                        "".join(", %r" % x for x in default_args),
                        describe_error(e)))
    out("  after getters: %s" % canon(data))

namespace_data = UserData({"my.int": "3", "my.flag": "on", "my.bad": "x",
                           "other": "1", "my.float": "2.5"})
for namespace in ("my", "", None, "other"):
    ns = UserDataNamespace(namespace, namespace_data)
    for view in ("__len__", "keys", "values", "items"):
        try:
            result = getattr(ns, view)()
            if view != "__len__":
                result = sorted(result)
            out("  namespace %r: %s -> %r" % (namespace, view, result))
        except Exception as e:  # noqa
            out("  namespace %r: %s RAISED %s" % (namespace, view,
                                                 describe_error(e)))
    for method, name in (("getint", "int"), ("getbool", "flag"),
                         ("getfloat", "float"), ("getbool", "bad"),
                         ("getint", "bad"), ("getint", "nope"),
                         ("getbool", "nope"), ("get", "int")):
        try:
            out("    %s(%r) -> %r" % (method, name, getattr(ns, method)(name)))
        except Exception as e:  # noqa
            out("    %s(%r) RAISED %s" % (method, name, describe_error(e)))
out("  UserData.make(None)=%s make(dict)=%s make(same) is same=%s"
    % (canon(UserData.make(None)), canon(UserData.make({"a": 1})),
       UserData.make(namespace_data) is namespace_data))

out("=== SECTION 10: userdata precedence: -D over config file")
USERDATA_INI = ini([("stage", "s")],
                   behave__userdata=[("foo", "file_foo"), ("bar", "file_bar"),
                                     ("number", "42"), ("flag", "no"),
                                     ("Case.Sensitive", "kept")])
USERDATA_TOML = (u'[tool.behave.userdata]\nfoo = "toml_foo"\nbar = "toml_bar"\n'
                 u'number = 42\nflag = false\n')
DEFINE_SETS = [
    [],
    ["-D", "foo=cmd_foo"],
    ["-D", "foo"],
    ["-Dfoo=1", "-D", "foo=2"],
    ["--define", "new=value", "-D", " bar = 'quoted bar' "],
    ["-D", '"number=7"', "-D", "flag", "-D", "x.y=a=b"],
    ["-D", "foo=", "-D", "=", "-D", ""],
    ["-D", "flag=maybe", "-D", "number=4x"],
]
for files_label, files in (("none", {}),
                           ("ini", {"proj/behave.ini": USERDATA_INI}),
                           ("toml", {"proj/pyproject.toml": USERDATA_TOML}),
                           ("home ini + cwd toml",
                            {"home/.behaverc": USERDATA_INI,
                             "proj/pyproject.toml": USERDATA_TOML}),
                           ("cwd ini + cwd toml",
                            {"proj/tox.ini": USERDATA_INI,
                             "proj/pyproject.toml": USERDATA_TOML})):
    for defines in DEFINE_SETS:
        config = run_case("userdata files=%s cmd=%s" % (files_label, defines),
                          files, "proj", defines,
                          only=set(["userdata", "userdata_defines"]))
        if config is None:
            continue
        out("    type(userdata)=%s" % type(config.userdata).__name__)
        for method, name in (("getint", "number"), ("getbool", "flag"),
                             ("getfloat", "number"), ("getbool", "foo"),
                             ("getint", "absent"), ("getbool", "absent")):
            try:
                out("    userdata.%s(%r) -> %r"
                    % (method, name, getattr(config.userdata, method)(name)))
            except Exception as e:  # noqa
                out("    userdata.%s(%r) RAISED %s"
                    % (method, name, describe_error(e)))
        # -- update_userdata(): command-line defines are reapplied
        userdata_object = config.userdata
        config.update_userdata({"foo": "updated_foo", "late": "L", "flag": "on"})
        out("    after update_userdata: %s same-object=%s"
            % (canon(config.userdata), config.userdata is userdata_object))
        config.update_userdata([("bar", "pairs")])
        out("    after update_userdata(pairs): %s" % canon(config.userdata))
        config.setup_userdata()
        out("    after setup_userdata again: %s same-object=%s"
            % (canon(config.userdata), config.userdata is userdata_object))
        config.userdata = {"plain": "dict", "foo": "plain_foo"}
        config.setup_userdata()
        out("    after setup_userdata on plain dict: %s type=%s"
            % (canon(config.userdata), type(config.userdata).__name__))

# ---------------------------------------------------------------------------
# SECTION 11: everything at once
# ---------------------------------------------------------------------------
out("=== SECTION 11: combined")
FULL_INI = ini([
    ("color", "off"), ("dry_run", "true"), ("show_snippets", "false"),
    ("show_skipped", "no"), ("show_source", "off"), ("show_timings", "0"),
    ("stdout_capture", "false"), ("stderr_capture", "false"),
    ("log_capture", "false"), ("summary", "false"), ("junit", "true"),
    ("junit_directory", "file_reports"), ("jobs", "3"), ("stage", "fstage"),
    ("logging_level", "WARNING"), ("logging_format", "%(asctime)s %(message)s"),
    ("logging_datefmt", "%H:%M:%S"), ("runner", "file:Runner"),
    ("format", "plain\n  progress"), ("outfiles", "f1.out"),
    ("paths", "file_features"), ("tags", "@file"),
    ("name", "FileName"), ("lang", "it"), ("exclude_re", "ex"),
    ("include_re", "in"), ("default_format", "progress"), ("stop", "true"),
    ("quiet", "false"), ("wip", "false"), ("steps_catalog", "false"),
    ("tag_expression_protocol", "v2"),
], behave__userdata=[("u", "file")],
   behave__formatters=[("filefmt", "behave.formatter.plain:PlainFormatter")],
   behave__runners=[("filerunner", "pkg.mod:FileRunner")])
FULL_CMD = ["--color", "on", "--snippets", "--show-skipped", "--show-source",
            "--show-timings", "--capture", "--capture-stderr", "--logcapture",
            "--summary", "--no-junit", "--junit-directory", "cmd_reports",
            "--jobs", "8", "--stage", "cstage", "--logging-level", "DEBUG",
            "--logging-format", "%(message)s", "--logging-datefmt", "%S",
            "-r", "cmd:Runner", "-f", "json", "-o", "cmd.out",
            "-t", "@cmd", "-n", "CmdName", "--lang", "fr", "-e", "cex",
            "-i", "cin", "-D", "u=cmd", "cmd_features"]
for use_file, use_home, cmd in itertools.product((False, True), (False, True),
                                                 ([], FULL_CMD,
                                                  FULL_CMD[:13], FULL_CMD[13:],
                                                  FULL_CMD[:-1])):
    files = {}
    if use_file:
        files["proj/sub/behave.ini"] = FULL_INI
    if use_home:
        files["home/behave.ini"] = FULL_INI.replace("fstage", "hstage") \
            .replace("file_features", "home_features").replace("jobs = 3",
                                                               "jobs = 5")
    run_case("combined file=%s home=%s cmd=%d args" % (use_file, use_home,
                                                     len(cmd)),
             files, "proj/sub", cmd)

shutil.rmtree(ROOT)
print("\n".join(LINES))
