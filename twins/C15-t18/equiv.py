# -*- coding: utf-8 -*-
# Common part (copied verbatim into every equiv.py): builds a feature tree
# and runs "python -m behave" from the worktree as a subprocess.
from __future__ import print_function, unicode_literals
import io, json, os, re, shutil, subprocess, sys, tempfile

WORKTREE = "/tmp/wtW/C15"
sys.path.insert(0, WORKTREE)
PYTHON = "/venv/bin/python"

FEATURES = {
"features/alpha.feature": u'''
@feat
Feature: Alpha with feature background
  Some description line one.
  Second description line.

  Background: Common setup
    Given a passing step
    And a table step
      | name  | value |
      | Zoë   | 1     |
      | a\\|b  | long cell text |

  Scenario: All pass
    When I add 2 and 3
    Then the result is 5

  @wip
  Scenario: Failing in the middle
    When a failing step
    Then a passing step

  Scenario: With doc-string
    Given a doc-string step
      """
      Line one with ünïcödé
        indented line two
      \\"\\"\\" inner quotes
      """
    Then a passing step

  Scenario: Undefined step here
    Given a passing step
    When this step is not defined anywhere
    Then a passing step

  @skip_me
  Scenario: Skipped by tag
    Given a passing step

  Scenario Outline: Outline <name>
    Given a passing step
    When I add <a> and <b>
    Then the result is <c>

    Examples: Good
      | name | a | b | c |
      | one  | 1 | 1 | 2 |
      | two  | 2 | 2 | 5 |

    @skip_me
    Examples: Skipped ones
      | name  | a | b | c |
      | three | 3 | 3 | 6 |
''',
"features/beta.feature": u'''
Feature: Beta with rules

  Background:
    Given a passing step

  Scenario: Before the rules
    Then a passing step

  Rule: First rule
    Background: Rule setup
      Given a table step
        | k |
        | v |

    Scenario: R1 one
      When an erroring step
      Then a passing step

    Scenario: R1 two
      When word "hello" and number 42 and float 1.5
      Then a passing step

  Rule: Second rule without background

    Scenario: R2 one
      Given a doc-string step
        """
        single line
        """

    Scenario Outline: R2 outline <x>
      When I add <x> and <x>
      Then a passing step

      Examples:
        | x |
        | 7 |
        | 8 |
''',
"features/gamma.feature": u'''
@skip_me
Feature: Gamma entirely skipped
  Scenario: Never runs
    Given a passing step
''',
"features/delta.feature": u'''
Feature: Delta empty feature
''',
"features/epsilon.feature": u'''
Feature: Epsilon background fails

  Background: Broken
    Given a failing step

  Scenario: E one
    Then a passing step

  Scenario: E two
    Then a passing step
''',
"features/steps/steps.py": u'''
# -*- coding: utf-8 -*-
from __future__ import unicode_literals
from behave import given, when, then, step

@step(u'a passing step')
def step_pass(context):
    pass

@step(u'a failing step')
def step_fail(context):
    assert False, u"XFAIL: expected fäilure\\nsecond line of message"

@step(u'an erroring step')
def step_error(context):
    raise ValueError(u"boom ünicode")

@step(u'a table step')
def step_table(context):
    assert context.table is not None
    context.table_rows = [row.cells for row in context.table]

@step(u'a doc-string step')
def step_text(context):
    assert context.text

@when(u'I add {a:d} and {b:d}')
def step_add(context, a, b):
    context.result = a + b
    if getattr(context, "do_attach", False):
        context.attach("text/plain", ("%d+%d" % (a, b)).encode("utf-8"))
        context.attach("image/png", b"\\x00\\x01\\xff")

@then(u'the result is {c:d}')
def step_result(context, c):
    assert context.result == c, "%r != %r" % (context.result, c)

@when(u'word "{w:w}" and number {n:d} and float {f:f}')
def step_typed(context, w, n, f):
    pass
''',
"features/environment.py": u'''
import os
def before_all(context):
    context.do_attach = bool(os.environ.get("TWIN_ATTACH"))
''',
}


def make_tree():
    root = tempfile.mkdtemp(prefix="twin_C15_")
    for name, text in FEATURES.items():
        path = os.path.join(root, name)
        if not os.path.isdir(os.path.dirname(path)):
            os.makedirs(os.path.dirname(path))
        with io.open(path, "w", encoding="utf-8") as f:
            f.write(text.lstrip("\n"))
    return root


_DURATION = re.compile(r'("duration":\s*)[0-9.e+-]+')
_TIMING = re.compile(r"\b\d+\.\d{3}s\b")
_TOOK = re.compile(r"Took \d+m\d+\.\d+s")
_LINENO = re.compile(r'(File "[^"]*", line )\d+')
_XMLTIME = re.compile(r'\b(time|timestamp|hostname)="[^"]*"')


def normalize(text, root):
    text = text.replace(root, "<ROOT>")
    text = _DURATION.sub(r"\g<1>0", text)
    text = _TIMING.sub("N.NNNs", text)
    text = _TOOK.sub("Took <T>", text)
    text = _LINENO.sub(r"\g<1>N", text)
    text = _XMLTIME.sub(r'\g<1>="<X>"', text)
    return text


def run_behave(root, args, env_extra=None):
    env = dict(os.environ)
    env["PYTHONPATH"] = WORKTREE
    env["PYTHONIOENCODING"] = "utf-8"
    env["PYTHONHASHSEED"] = "0"
    env.pop("TWIN_ATTACH", None)
    if env_extra:
        env.update(env_extra)
    proc = subprocess.Popen([PYTHON, "-m", "behave"] + list(args), cwd=root,
                            env=env, stdout=subprocess.PIPE,
                            stderr=subprocess.PIPE)
    out, err = proc.communicate()
    return (proc.returncode, normalize(out.decode("utf-8", "replace"), root),
            normalize(err.decode("utf-8", "replace"), root))


def show_run(root, args, env_extra=None, outfiles=()):
    print("=" * 78)
    print("RUN: behave %s %s" % (" ".join(args), sorted((env_extra or {}).items())))
    for name in outfiles:
        path = os.path.join(root, name)
        if os.path.exists(path):
            os.remove(path)
    code, out, err = run_behave(root, args, env_extra)
    print("returncode:", code)
    print("--- stdout")
    print(out)
    print("--- stderr")
    print(err)
    for name in outfiles:
        path = os.path.join(root, name)
        print("--- file %s" % name)
        if os.path.exists(path):
            with io.open(path, encoding="utf-8") as f:
                print(normalize(f.read(), root))
        else:
            print("<missing>")


# ---------------------------------------------------------------------------
# SPECIFIC PART (C15-t18): JSONFormatter.result / embedding / add_feature_element
# ---------------------------------------------------------------------------
class FakeStream(object):
    closed = False

    def __init__(self, encoding="utf-8"):
        self.encoding = encoding
        self.chunks = []

    def write(self, text):
        self.chunks.append(text)

    def flush(self):
        pass

    def close(self):
        self.closed = True

    def getvalue(self):
        return u"".join(self.chunks)


def attempt(label, func, *args):
    try:
        result = func(*args)
        print(label, "->", repr(result))
    except Exception as e:  # pylint: disable=broad-except
        print(label, "raised", type(e).__name__, str(e))


def dump(label, data):
    print(label, json.dumps(data, sort_keys=True, indent=1, default=repr))


def scripted(formatter_class_name, encoding):
    from behave.formatter import json as json_formatter
    from behave.formatter.base import StreamOpener
    from behave.configuration import Configuration
    from behave.model import Feature, Scenario, Background, Step, Table
    from behave.model_core import Status

    print("-" * 78)
    print("SCRIPTED: %s encoding=%r" % (formatter_class_name, encoding))
    formatter_class = getattr(json_formatter, formatter_class_name)
    config = Configuration(command_args=[], load_config=False)
    stream = FakeStream(encoding)
    opener = StreamOpener(stream=stream)
    formatter = formatter_class(opener, config)
    stream = formatter.stream

    # -- NO FEATURE YET:
    attempt("add_feature_element before feature", formatter.add_feature_element, {"x": 1})
    attempt("eof before feature", formatter.eof)

    steps = [Step(u"f.feature", 3 + i, u"Given", u"given", u"step %d" % i)
             for i in range(5)]
    steps[1].text = u"one\ntwo"
    steps[2].table = Table([u"a"], rows=[[u"1"]])
    background = Background(u"f.feature", 2, u"Background", u"", steps[:1])
    scenario = Scenario(u"f.feature", 5, u"Scenario", u"S1", tags=[u"t"],
                        steps=steps[1:])
    feature = Feature(u"f.feature", 1, u"Feature", u"F", tags=[u"ft"],
                      description=[u"d"], scenarios=[scenario],
                      background=background)

    formatter.feature(feature)
    dump("after feature:", formatter.current_feature_data)
    attempt("result without elements", formatter.result, steps[0])
    attempt("embedding without elements", formatter.embedding, "text/plain", b"x")
    element = {"type": "custom", "steps": []}
    print("add_feature_element returns same object:",
          formatter.add_feature_element(element) is element)
    attempt("result without steps", formatter.result, steps[0])
    attempt("embedding without steps", formatter.embedding, "text/plain", b"x")
    dump("after custom element:", formatter.current_feature_data)
    print("_step_index:", formatter._step_index)

    formatter.background(background)
    formatter.scenario(scenario)
    for step in scenario.steps:
        formatter.step(step)
    dump("after steps:", formatter.current_feature_data)
    elements = formatter.current_feature_data["elements"]
    print("elements list is kept:", elements is formatter.current_feature_data["elements"])

    # -- STEP 1: passed with embeddings.
    steps[1].status = Status.passed
    steps[1].duration = 0.5
    formatter.embedding("text/plain", b"hello")
    formatter.embedding("image/png", b"\x00\xff")
    attempt("embedding with text data", formatter.embedding, "text/plain", u"text")
    formatter.result(steps[1])
    print("_step_index:", formatter._step_index)

    # -- STEP 2: failed with multi-line error; embedding list preexisting.
    current = formatter.current_feature_element["steps"][formatter._step_index]
    attempt("embedding with text data (no list yet)", formatter.embedding, "a/b", u"text")
    dump("step after failed embedding:", current)
    marker = current["embeddings"]
    formatter.embedding("a/b", b"")
    print("embeddings list reused:", current["embeddings"] is marker)
    steps[2].status = Status.failed
    steps[2].duration = 1
    steps[2].error_message = u"Assertion Failed: first\nsecond\n"
    formatter.result(steps[2])
    result_element = current["result"]
    print("result element identity:", current["result"] is result_element)

    # -- STEP 3: error status with error_message (not stored), non-list embeddings.
    current = formatter.current_feature_element["steps"][formatter._step_index]
    current["embeddings"] = None
    attempt("embedding with embeddings=None", formatter.embedding, "a/b", b"x")
    steps[3].status = Status.error
    steps[3].error_message = u"Traceback\nValueError"
    formatter.result(steps[3])

    # -- STEP 4: failed, single-line message; then one result too many.
    steps[4].status = Status.failed
    steps[4].error_message = u"single line"
    formatter.result(steps[4])
    attempt("result beyond last step", formatter.result, steps[4])
    attempt("embedding beyond last step", formatter.embedding, "a/b", b"x")
    print("_step_index:", formatter._step_index)
    dump("before eof:", formatter.current_feature_data)
    scenario.set_status(Status.failed)
    feature.set_status(Status.failed)
    formatter.eof()
    formatter.feature(feature)
    formatter.eof()
    formatter.close()
    print("OUTPUT:")
    print(stream.getvalue())
    attempt("parsed back", lambda: json.loads(stream.getvalue()))


def scripted_no_split():
    from behave.formatter.json import JSONFormatter
    from behave.formatter.base import StreamOpener
    from behave.configuration import Configuration
    from behave.model import Feature, Scenario, Step
    from behave.model_core import Status

    class NoSplit(JSONFormatter):
        split_text_into_lines = False

    print("-" * 78)
    print("SCRIPTED: split_text_into_lines=False")
    config = Configuration(command_args=[], load_config=False)
    formatter = NoSplit(StreamOpener(stream=FakeStream(None)), config)
    stream = formatter.stream
    step = Step(u"f.feature", 3, u"When", u"when", u"w")
    step.text = u"a\nb"
    scenario = Scenario(u"f.feature", 2, u"Scenario", u"", steps=[step])
    feature = Feature(u"f.feature", 1, u"Feature", u"", scenarios=[scenario])
    formatter.feature(feature)
    formatter.scenario(scenario)
    formatter.step(step)
    formatter.embedding("x/y", b"abc")
    step.status = Status.failed
    step.error_message = u"l1\nl2"
    formatter.result(step)
    formatter.eof()
    formatter.close()
    print(stream.getvalue())


def main():
    for class_name in ("JSONFormatter", "PrettyJSONFormatter"):
        for encoding in ("utf-8", None):
            scripted(class_name, encoding)
    scripted_no_split()
    root = make_tree()
    try:
        attach = {"TWIN_ATTACH": "1"}
        show_run(root, ["--no-color", "-f", "json.pretty"])
        show_run(root, ["--no-color", "-f", "json"], attach)
        show_run(root, ["--no-color", "-f", "json.pretty", "-o", "r.json",
                        "-f", "json", "-o", "c.json", "-f", "progress2",
                        "--tags=-skip_me", "--show-skipped"], attach,
                 outfiles=["r.json", "c.json"])
        show_run(root, ["--no-color", "-f", "json.pretty", "--dry-run",
                        "--no-skipped"])
        show_run(root, ["--no-color", "-f", "json.pretty", "--stop"], attach)
        show_run(root, ["--no-color", "-f", "json.pretty", "features/delta.feature"])
        show_run(root, ["--no-color", "-f", "json.pretty", "features/gamma.feature",
                        "--tags=-skip_me"])
        show_run(root, ["--no-color", "-f", "json", "features/nothing_here"])
    finally:
        shutil.rmtree(root)


if __name__ == "__main__":
    main()
