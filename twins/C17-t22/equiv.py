# -*- coding: utf-8 -*-
# Shared part of the equiv.py scripts (copied verbatim into each of them).
from __future__ import print_function
import io, os, re, shutil, subprocess, sys, tempfile
WORKTREE = "/tmp/wtX/C17"
sys.path.insert(0, WORKTREE)

ALPHA = u'''\
Feature: Alpha

  Scenario: A1 passes
    Given a step passes

  Scenario: A2 fails
    Given a step passes
    When a step fails
    Then a step passes

  Scenario: A3 errors
    Given a step raises an error

  Scenario: A4 undefined
    Given a step that does not exist

  @skip
  Scenario: A5 skipped
    Given a step fails

  Scenario Outline: A6 outline <outcome>
    Given a step <outcome>

    Examples: first
      | outcome |
      | passes  |
      | fails   |

    Examples: second
      | outcome         |
      | raises an error |
      | passes          |

  Scenario: A7 passes again
    Given a step passes
'''

BETA = u'''\
Feature: Beta (all good)

  Scenario: B1 passes
    Given a step passes

  Scenario: B2 passes
    Given a step passes
'''

GAMMA = u'''\
Feature: Gamma with rules

  Scenario: G1 errors first
    Given a step raises an error

  Rule: R1
    Scenario: G2 passes
      Given a step passes

    @hook_error
    Scenario: G3 hook error
      Given a step passes

    Scenario Outline: G4 <outcome>
      Given a step <outcome>

      Examples:
        | outcome |
        | fails   |
        | passes  |

  Rule: R2
    Scenario: G5 fails
      Given a step fails

    @skip
    Scenario: G6 skipped
      Given a step passes
'''

DELTA = u'''\
Feature: Delta skipped only
  @skip
  Scenario: D1 skipped
    Given a step fails
'''

STEPS = u'''\
from behave import given, when, then, step

@step(u'a step passes')
def step_passes(ctx):
    pass

@step(u'a step fails')
def step_fails(ctx):
    assert False, "XFAIL-STEP"

@step(u'a step raises an error')
def step_errors(ctx):
    raise RuntimeError("XERROR-STEP")
'''

ENVIRONMENT = u'''\
def before_scenario(ctx, scenario):
    if "skip" in scenario.tags:
        scenario.skip("SKIPPED-BY-HOOK")
    if "hook_error" in scenario.tags:
        raise RuntimeError("XHOOK-ERROR")
'''

def write_file(path, text):
    dirname = os.path.dirname(path)
    if dirname and not os.path.isdir(dirname):
        os.makedirs(dirname)
    with io.open(path, "w", encoding="utf-8") as f:
        f.write(text)

def make_project(workdir):
    write_file(os.path.join(workdir, "features/alpha.feature"), ALPHA)
    write_file(os.path.join(workdir, "features/beta.feature"), BETA)
    write_file(os.path.join(workdir, "features/sub/gamma.feature"), GAMMA)
    write_file(os.path.join(workdir, "features/sub/delta.feature"), DELTA)
    write_file(os.path.join(workdir, "features/steps/steps.py"), STEPS)
    write_file(os.path.join(workdir, "features/environment.py"), ENVIRONMENT)
    write_file(os.path.join(workdir, "behave.ini"),
               u"[behave]\nshow_timings = false\ncolor = false\nshow_skipped = true\n")

def normalize(text, workdir):
    text = text.replace(os.path.realpath(workdir), "<WORKDIR>")
    text = text.replace(workdir, "<WORKDIR>")
    text = re.sub(r"\b\d+m?\d*\.\d+s\b", "<T>s", text)
    text = re.sub(r'File "[^"]*", line \d+', 'File "<F>", line <N>', text)
    return text

def run_behave(args, workdir):
    env = dict(os.environ)
    env["PYTHONPATH"] = WORKTREE
    env["PYTHONDONTWRITEBYTECODE"] = "1"
    env.pop("COLUMNS", None)
    proc = subprocess.Popen([sys.executable, "-m", "behave"] + list(args),
                            cwd=workdir, env=env, stdout=subprocess.PIPE,
                            stderr=subprocess.STDOUT)
    output = proc.communicate()[0].decode("utf-8", "replace")
    print("$ behave %s" % " ".join(args))
    print("exit-code: %d" % proc.returncode)
    print(normalize(output, workdir))
    print("$ --end")

def show_file(path, workdir):
    relname = os.path.relpath(path, workdir)
    if not os.path.exists(path):
        print("FILE %s: <missing>" % relname)
        return
    if os.path.isdir(path):
        print("FILE %s: <directory>" % relname)
        return
    with io.open(path, encoding="utf-8") as f:
        print("FILE %s:" % relname)
        for line in f.read().splitlines(True):
            print("  | %r" % normalize(line, workdir))

def describe_exception(e):
    return "%s: %s" % (e.__class__.__name__, e)

def show_selection(paths, workdir, strict=True):
    """Closed loop: paths -> collect_feature_locations -> parse_features."""
    from behave.runner_util import collect_feature_locations, parse_features
    print("SELECT %r strict=%r" % (paths, strict))
    try:
        locations = collect_feature_locations(paths, strict=strict)
    except Exception as e:  # noqa
        print("  collect raised %s" % normalize(describe_exception(e), workdir))
        return
    for location in locations:
        print("  location: %s" % normalize(repr(location), workdir))
    try:
        features = parse_features(locations)
    except Exception as e:  # noqa
        print("  parse raised %s" % normalize(describe_exception(e), workdir))
        return
    for feature in features:
        print("  feature: %s should_run=%s" % (normalize(str(feature.location), workdir),
                                              feature.should_run()))
        for scenario in feature.walk_scenarios():
            print("    %-32s %-10s should_run=%s" % (
                normalize(str(scenario.location), workdir), scenario.status.name,
                scenario.should_run()))

def end_to_end(workdir):
    rerun = os.path.join(workdir, "rerun.txt")
    print("=== E2E 1: first run over all features")
    run_behave(["-f", "rerun", "-o", "rerun.txt", "-f", "plain", "features"], workdir)
    show_file(rerun, workdir)
    print("=== E2E 2: selection from rerun file (in-process)")
    show_selection(["@rerun.txt"], workdir)
    print("=== E2E 3: second run from rerun file, writes rerun2.txt")
    run_behave(["-f", "rerun", "-o", "rerun2.txt", "-f", "plain", "@rerun.txt"], workdir)
    show_file(os.path.join(workdir, "rerun2.txt"), workdir)
    print("=== E2E 4: all-passing run removes the stale rerun file")
    shutil.copy(rerun, os.path.join(workdir, "stale.txt"))
    run_behave(["-f", "rerun", "-o", "stale.txt", "-f", "plain", "features/beta.feature"], workdir)
    show_file(os.path.join(workdir, "stale.txt"), workdir)
    print("=== E2E 5: all-passing run without previous file")
    run_behave(["-f", "rerun", "-o", "none.txt", "features/beta.feature",
                "features/sub/delta.feature"], workdir)
    show_file(os.path.join(workdir, "none.txt"), workdir)
    print("=== E2E 6: only feature with error first, in subdir outfile")
    run_behave(["-f", "rerun", "-o", "out/dir/rerun3.txt", "features/sub/gamma.feature"], workdir)
    show_file(os.path.join(workdir, "out/dir/rerun3.txt"), workdir)
    show_selection(["@out/dir/rerun3.txt"], workdir)
    print("=== E2E 7: rerun formatter with descriptions on stdout")
    run_behave(["-f", "rerun", "-D", "x=1", "features/alpha.feature:7", "features/sub/gamma.feature:3"], workdir)

def main(specific):
    workdir = tempfile.mkdtemp(prefix="c17twin_")
    olddir = os.getcwd()
    try:
        make_project(workdir)
        os.chdir(workdir)
        specific(workdir)
        end_to_end(workdir)
    finally:
        os.chdir(olddir)
        shutil.rmtree(workdir, ignore_errors=True)

# ---------------------------------------------------------------------------
# SPECIFIC PART: FeatureListParser.parse / parse_file (the '@file' expansion).
# ---------------------------------------------------------------------------
def show_locations(label, func, workdir, sort=False):
    try:
        locations = func()
    except Exception as e:  # noqa
        print("%s -> raised %s" % (label, normalize(describe_exception(e), workdir)))
        return
    items = [normalize("%r | %s" % (loc, loc), workdir) for loc in locations]
    if sort:
        items.sort()
    print("%s -> %s, %d location(s)%s" % (label, type(locations).__name__, len(items),
                                           " (sorted)" if sort else ""))
    for item in items:
        print("    " + item)

def specific(workdir):
    from behave.runner_util import FeatureListParser, collect_feature_locations
    # -- EXTRA FILES for wildcard expansion.
    for name in ("wild/a1.feature", "wild/a2.feature", "wild/b1.feature",
                 "wild/deep/c1.feature", "wild/notes.txt", "wild/odd:7.feature",
                 "wild/x.feature:12"):
        write_file(os.path.join(workdir, name), u"Feature: %s\n  Scenario: S\n    Given a step passes\n" % name)

    texts = [
        ("empty", u""),
        ("blank-lines", u"\n\n   \n\t\n"),
        ("comments", u"# one\n   # two\n#features/alpha.feature:3\n"),
        ("plain", u"features/alpha.feature\nfeatures/beta.feature\n"),
        ("locations", u"features/alpha.feature:6\nfeatures/alpha.feature:11\n  features/beta.feature:3  \n"),
        ("rerun-like", u"# -- RERUN: 2 failing scenarios during last test run.\nfeatures/alpha.feature:6\nfeatures/sub/gamma.feature:23\n\n"),
        ("crlf", u"features/alpha.feature:6\r\nfeatures/beta.feature\r\n\r\n"),
        ("no-trailing-newline", u"features/beta.feature:5"),
        ("duplicates", u"features/beta.feature\nfeatures/beta.feature\nfeatures/beta.feature:3\n"),
        ("unnormalized", u"./features//sub/../alpha.feature:6\nfeatures/./beta.feature\n"),
        ("absolute", u"/abs/path/x.feature:4\n/abs/../y.feature\n"),
        ("line-zero-and-big", u"features/alpha.feature:0\nfeatures/alpha.feature:000123456789\n"),
        ("odd-colons", u"features/alpha.feature:\nfeatures/alpha.feature:x\nfeatures:3/alpha.feature:4\n:5\n"),
        ("trailing-comment-not-supported", u"features/alpha.feature:6 # why\n"),
        ("wild-one", u"wild/b*.feature\n"),
        ("wild-none", u"wild/zzz*.feature\nwild/a1.feature\n"),
        ("wild-with-line", u"wild/a*.feature:3\n"),
        ("wild-question", u"wild/b?.feature\nwild/dee[p]/c1.feature\n"),
        ("wild-colon-file", u"wild/od*.feature\nwild/x.featur*\n"),
        ("mixed-order", u"features/beta.feature:3\nwild/b*.feature\n# c\nfeatures/alpha.feature:6\nwild/deep/*.feature\nfeatures/beta.feature:6\n"),
    ]
    print("=== T22.1: FeatureListParser.parse(text, here)")
    for here in (None, "", ".", "sub/dir", workdir):
        for label, text in texts:
            show_locations("parse[%s] here=%r" % (label, normalize(str(here), workdir) if here else here),
                           lambda: FeatureListParser.parse(text, here), workdir)
    print("=== T22.2: multi-match wildcards (order of glob is filesystem dependent)")
    for here in (None, ".", workdir):
        for label, text in [("wild-many", u"wild/a*.feature\n"),
                            ("wild-all", u"wild/*\n"),
                            ("wild-mixed", u"features/beta.feature\nwild/*.feature\nfeatures/alpha.feature:3\n")]:
            show_locations("parse[%s] here=%r" % (label, normalize(str(here), workdir) if here else here),
                           lambda: FeatureListParser.parse(text, here), workdir, sort=True)
    print("=== T22.3: parse with bad arguments")
    for label, args in [("text=None", (None,)), ("text=bytes", (b"features/alpha.feature:3\n",)),
                        ("text=list", (["features/alpha.feature"],)), ("here=int", (u"a.feature\n", 5))]:
        show_locations("parse(%s)" % label, lambda: FeatureListParser.parse(*args), workdir)

    print("=== T22.4: FeatureListParser.parse_file(filename)")
    write_file("list_top.txt", u"# top\nfeatures/alpha.feature:6\n\nfeatures/sub/gamma.feature:3\nwild/b*.feature\n")
    write_file("lists/nested.txt", u"../features/alpha.feature:11\n../wild/deep/c?.feature\nrelative/to/list.feature:9\n/abs/q.feature\n")
    write_file("lists/empty.txt", u"")
    write_file("lists/only_comments.txt", u"# nothing\n\n# here\n")
    write_file("@at_name.txt", u"features/beta.feature\n")
    for filename in ("list_top.txt", "@list_top.txt", "./list_top.txt", "lists/nested.txt",
                     "@lists/nested.txt", os.path.join(workdir, "lists/nested.txt"),
                     "lists/empty.txt", "lists/only_comments.txt", "@at_name.txt", "@@at_name.txt",
                     "missing.txt", "@missing.txt", "@", "", "lists", "@lists"):
        show_locations("parse_file(%r)" % normalize(filename, workdir),
                       lambda: FeatureListParser.parse_file(filename), workdir)
    for bad in (None, 5):
        show_locations("parse_file(%r)" % (bad,), lambda: FeatureListParser.parse_file(bad), workdir)

    class TracingParser(FeatureListParser):
        calls = []
        @staticmethod
        def parse(text, here=None):
            TracingParser.calls.append(("parse", text, here))
            return FeatureListParser.parse(text, here)
    show_locations("TracingParser.parse_file('@lists/nested.txt')",
                   lambda: TracingParser.parse_file("@lists/nested.txt"), workdir)
    print("    calls:", TracingParser.calls)

    print("=== T22.5: through collect_feature_locations and parse_features")
    for paths in (["@list_top.txt"], ["@lists/nested.txt"], ["@lists/empty.txt"], ["@missing.txt"],
                  ["features/beta.feature", "@list_top.txt", "features/sub/delta.feature:3"]):
        show_selection(paths, workdir)
    print("=== T22.6: behave run with a list file that uses a wildcard")
    write_file("list_wild.txt", u"# wildcard list\nfeatures/al*.feature:6\nfeatures/al*.feature\nfeatures/sub/gam*.feature\n")
    run_behave(["-f", "rerun", "-o", "rerun_wild.txt", "@list_wild.txt"], workdir)
    show_file(os.path.join(workdir, "rerun_wild.txt"), workdir)


if __name__ == "__main__":
    main(specific)
