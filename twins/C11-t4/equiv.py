# -*- coding: UTF-8 -*-
"""
Equivalence transcript for property C11 (step matching and dispatch).

Exercises behave.matchers / behave.step_registry through their public behaviour
and prints a canonical transcript. Run on clean and on patched tree; the two
transcripts must be identical.

USAGE: cd /tmp/wtT/C11 && /venv/bin/python _twins/C11-tK/equiv.py > transcript.txt 2>&1
"""
from __future__ import print_function
import os
import shutil
import subprocess
import sys
import tempfile
import contextlib

WORKTREE = "/tmp/wtT/C11"
sys.path.insert(0, WORKTREE)

import parse                                            # noqa: E402
from behave import matchers                             # noqa: E402
from behave.matchers import (                           # noqa: E402
    Match, MatchWithError, NoMatch, StepParseError,
    ParseMatcher, CFParseMatcher, RegexMatcher, SimplifiedRegexMatcher,
    CucumberRegexMatcher, StepMatcherFactory, get_step_matcher_factory,
)
from behave.model_core import Argument                  # noqa: E402
from behave.step_registry import StepRegistry, AmbiguousStep   # noqa: E402

assert matchers.__file__.startswith(WORKTREE), matchers.__file__


def out(*parts):
    print(*parts)


def show_args(args):
    if args is None:
        return "None"
    return "[" + ", ".join(
        "Arg(start=%r,end=%r,orig=%r,value=%r,name=%r)" %
        (a.start, a.end, a.original, a.value, a.name) for a in args) + "]"


class FakeContext(object):
    def __init__(self, log):
        self.log = log

    @contextlib.contextmanager
    def use_with_user_mode(self):
        self.log.append("enter-user-mode")
        try:
            yield self
        finally:
            self.log.append("exit-user-mode")


class FakeStep(object):
    def __init__(self, step_type, name):
        self.step_type = step_type
        self.name = name


def make_func(name, log):
    # -- ENSURE: Each function has its own location (filename:line).
    source = (
        "def {name}(context, *args, **kwargs):\n"
        "    log.append('CALL {name} args=%r kwargs=%r' %\n"
        "               (args, sorted(kwargs.items())))\n").format(name=name)
    scope = {"log": log}
    code = compile(source, "generated_steps/%s.py" % name, "exec")
    exec(code, scope)   # pylint: disable=exec-used
    return scope[name]


# ---------------------------------------------------------------------------
# SECTION 1: check_match() of the matcher classes
# ---------------------------------------------------------------------------
@parse.with_pattern(r"\d+")
def parse_number(text):
    return int(text)


@parse.with_pattern(r"[a-z]+")
def parse_bad(text):
    raise ValueError("bad-converter:%s" % text)


def section_check_match():
    out("== SECTION 1: check_match / match / matches")
    log = []
    func = make_func("f", log)
    custom = dict(Number=parse_number, Bad=parse_bad)
    cases = [
        (ParseMatcher, "a step passes", [
            "a step passes", "A step passes", "a step passes ", "xa step passes", ""]),
        (ParseMatcher, "I have {count:d} apples and {name}", [
            "I have 12 apples and Bob", "I have x apples and Bob",
            "I have 12 apples and ", "i have 12 apples and Bob"]),
        (ParseMatcher, "{} then {second} then {} and {first:Number}", [
            "a then b then c and 42", "a then b then c and x"]),
        (ParseMatcher, "value {x:Bad}", ["value abc", "value 123"]),
        (ParseMatcher, u"caf\xe9 {word:w} ☃", [u"caf\xe9 tea ☃", u"cafe tea ☃"]),
        (CFParseMatcher, "numbers {numbers:Number+} end", [
            "numbers 1, 2, 3 end", "numbers 7 end", "numbers  end", "Numbers 1 end"]),
        (CFParseMatcher, "opt {number:Number?}done", ["opt 5done", "opt done"]),
        (SimplifiedRegexMatcher, r"I have (?P<count>\d+) (\w+) and (?P<who>\w+)?", [
            "I have 3 apples and Bob", "I have 3 apples and ",
            "I have 3 apples and Bob!", "i have 3 apples and Bob"]),
        (SimplifiedRegexMatcher, r"plain (\d+)|other", ["plain 1", "other", "otherx"]),
        (SimplifiedRegexMatcher, r"no groups", ["no groups", "no groups here", " no groups"]),
        (CucumberRegexMatcher, r"^anchored (?P<a>x+)(y*)$", ["anchored xxyy", "anchored xx", "anchored"]),
        (RegexMatcher, r"prefix (?P<rest>.+)", ["prefix tail", "prefix tail more", "noprefix"]),
        (RegexMatcher, r"((?P<outer>a(?P<inner>b))c)", ["abc", "abcd", "ab"]),
    ]
    for cls, pattern, texts in cases:
        if issubclass(cls, ParseMatcher):
            matcher = cls(func, pattern, "given", custom_types=custom)
        else:
            matcher = cls(func, pattern, "given")
        out("-- %s pattern=%r regex_pattern=%r describe=%r" %
            (cls.__name__, pattern, matcher.regex_pattern, matcher.describe()))
        for text in texts:
            try:
                args = matcher.check_match(text)
                out("   check_match(%r) -> %s (type=%s)" %
                    (text, show_args(args), type(args).__name__))
            except Exception as e:     # pylint: disable=broad-except
                out("   check_match(%r) RAISED %s: %s" % (text, e.__class__.__name__, e))
            m = matcher.match(text)
            out("   match(%r) -> %s func_is_f=%s args=%s" %
                (text, type(m).__name__,
                 getattr(m, "func", None) is func,
                 show_args(getattr(m, "arguments", None))))
            if isinstance(m, MatchWithError):
                out("   stored_error=%s: %s" % (m.stored_error.__class__.__name__, m.stored_error))
            out("   matches(%r) -> %r" % (text, matcher.matches(text)))
            if m is not None:
                del log[:]
                try:
                    m.run(FakeContext(log))
                except StepParseError as e:
                    log.append("StepParseError: %s cause=%r" % (e, getattr(e, "__cause__", None)))
                for line in log:
                    out("     run: " + line)


# ---------------------------------------------------------------------------
# SECTION 2: Match.run with hand-made arguments
# ---------------------------------------------------------------------------
def section_match_run():
    out("== SECTION 2: Match.run")
    log = []
    func = make_func("g", log)
    arg_lists = [
        [],
        [Argument(0, 1, "a", "a")],
        [Argument(0, 1, "1", 1, "x"), Argument(2, 3, "b", "b"),
         Argument(4, 5, "2", 2, "y"), Argument(6, 7, "c", "c")],
        [Argument(0, 1, "1", 1, "x"), Argument(2, 3, "2", 2, "x")],      # duplicate name
        [Argument(0, 1, "", None), Argument(2, 3, "", None, "z")],       # None values
        [Argument(0, 1, "e", "e", "")],                                   # empty name
        (Argument(0, 1, "t", "t"), Argument(1, 2, "u", "u", "k")),        # tuple
    ]
    for args in arg_lists:
        del log[:]
        match = Match(func, args)
        result = match.run(FakeContext(log))
        out("-- run(%s) -> %r" % (show_args(args), result))
        for line in log:
            out("     " + line)
        out("   arguments-unchanged: %s" % show_args(match.arguments))
    # -- GENERATOR as arguments
    del log[:]
    match = Match(func, (a for a in [Argument(0, 1, "p", "p"), Argument(1, 2, "q", "q", "n")]))
    match.run(FakeContext(log))
    out("-- run(generator)")
    for line in log:
        out("     " + line)
    # -- arguments=None
    del log[:]
    try:
        Match(func).run(FakeContext(log))
        out("-- run(None) no error")
    except Exception as e:  # pylint: disable=broad-except
        out("-- run(None) RAISED %s: %s log=%r" % (e.__class__.__name__, e, log))
    # -- func raising
    def boom(context, *args, **kwargs):
        log.append("boom args=%r kwargs=%r" % (args, kwargs))
        raise RuntimeError("boom")
    del log[:]
    try:
        Match(boom, [Argument(0, 1, "1", 1, "x")]).run(FakeContext(log))
    except RuntimeError as e:
        out("-- run(boom) RAISED RuntimeError: %s log=%r" % (e, log))
    # -- wrong signature
    def strict(context, x):
        log.append("strict x=%r" % (x,))
    for args in ([Argument(0, 1, "1", 1, "x")], [Argument(0, 1, "1", 1)],
                 [Argument(0, 1, "1", 1), Argument(0, 1, "2", 2, "x")],
                 [Argument(0, 1, "1", 1, "y")]):
        del log[:]
        try:
            Match(strict, args).run(FakeContext(log))
            out("-- run(strict) ok log=%r" % log)
        except TypeError as e:
            out("-- run(strict) RAISED TypeError log=%r" % log)
    # -- NoMatch / MatchWithError
    del log[:]
    try:
        NoMatch().run(FakeContext(log))
    except Exception as e:  # pylint: disable=broad-except
        out("-- NoMatch.run RAISED %s log=%r" % (e.__class__.__name__, log))
    try:
        MatchWithError(func, ValueError("xx")).run(FakeContext(log))
    except StepParseError as e:
        out("-- MatchWithError.run RAISED StepParseError: %s" % e)


# ---------------------------------------------------------------------------
# SECTION 3: StepRegistry
# ---------------------------------------------------------------------------
def section_registry():
    out("== SECTION 3: StepRegistry")
    factory = get_step_matcher_factory()
    factory.reset()
    log = []
    registry = StepRegistry()
    funcs = {}

    def add(keyword, pattern, name):
        func = funcs.get(name)
        if func is None:
            func = funcs[name] = make_func(name, log)
        try:
            registry.add_step_definition(keyword, pattern, func)
            out("   add(%s, %r, %s) OK" % (keyword, pattern, name))
        except AmbiguousStep as e:
            out("   add(%s, %r, %s) AmbiguousStep: %s" % (keyword, pattern, name, e))
        except Exception as e:  # pylint: disable=broad-except
            out("   add(%s, %r, %s) RAISED %s: %s" % (keyword, pattern, name, e.__class__.__name__, e))

    def dump():
        for step_type in ("given", "when", "then", "step"):
            out("   steps[%s] = %r" % (
                step_type,
                [(m.__class__.__name__, m.pattern, m.func.__name__, m.step_type)
                 for m in registry.steps[step_type]]))

    add("Given", "a generic-looking step", "given_1")
    add("step", "a generic-looking step", "step_1")        # other type: no conflict
    add("GIVEN", "a {thing} step", "given_2")               # not matched by existing
    add("given", "a generic-looking step", "given_1")       # same func+pattern: ignored
    add("given", "a generic-looking step", "given_3")       # ambiguous
    add("given", "a red step", "given_4")                   # matched by 'a {thing} step'
    add("when", "a {thing} step", "when_1")
    add("When", "I do {x:d} and {y:d}", "when_2")
    add("then", "a {thing} step", "then_1")
    add("step", "I do {x:d} and {y:d}", "step_2")
    add("step", "only generic {word:w}", "step_3")
    add("step", "only generic {word:w}", "step_3")          # ignored
    add("step", "only generic thing", "step_4")             # ambiguous
    add("given", "later {a} wins?", "given_5")
    add("given", "later x {b}", "given_6")                  # 'later {a} wins?' does not match "later x {b}"
    factory.use_step_matcher("re")
    add("given", r"regex (?P<n>\d+) (\w+)", "given_re1")
    add("given", r"regex 12 abc", "given_re2")              # ambiguous
    add("given", r"REGEX 12 abc", "given_re3")              # case differs: OK
    add("given", r"bad regex (", "given_bad")               # bad step definition -> ignored
    add("then", r"^anchored", "then_bad")                   # AssertionError
    factory.use_step_matcher("cfparse")
    factory.register_type(Number=parse_number)
    add("then", "numbers {n:Number+}", "then_cf")
    add("then", "numbers 1, 2", "then_cf2")                 # ambiguous
    factory.use_default_step_matcher()
    add("bogus", "x", "bogus_1")                            # KeyError
    dump()
    out("   bad_step_definitions = %r" % [m.pattern for m in registry.error_handler.bad_step_definitions])

    steps = [
        ("given", "a generic-looking step"), ("when", "a generic-looking step"),
        ("then", "a generic-looking step"), ("step", "a generic-looking step"),
        ("given", "a red step"), ("given", "A red step"), ("given", "a red step "),
        ("when", "I do 1 and 2"), ("then", "I do 1 and 2"), ("step", "I do 1 and 2"),
        ("given", "I do 1 and 2"), ("given", "I do x and 2"),
        ("given", "only generic word"), ("step", "only generic word"),
        ("given", "later x wins?"), ("given", "later x y"),
        ("given", "regex 12 abc"), ("given", "regex 12 abc def"), ("given", "REGEX 12 abc"),
        ("then", "numbers 1, 2, 3"), ("then", "numbers"),
        ("given", "undefined thing"), ("step", "a red step"),
        ("bogus", "a red step"),
    ]
    snapshots = dict((k, list(v)) for k, v in registry.steps.items())
    for step_type, text in steps:
        step = FakeStep(step_type, text)
        try:
            match = registry.find_match(step)
        except Exception as e:  # pylint: disable=broad-except
            out("-- find_match(%s %r) RAISED %s: %s" % (step_type, text, e.__class__.__name__, e))
            match = None
        else:
            if match is None:
                out("-- find_match(%s %r) -> None" % (step_type, text))
            else:
                out("-- find_match(%s %r) -> %s func=%s args=%s" % (
                    step_type, text, type(match).__name__, match.func.__name__,
                    show_args(match.arguments)))
                del log[:]
                match.run(FakeContext(log))
                for line in log:
                    out("     " + line)
        try:
            sd = registry.find_step_definition(step)
            out("   find_step_definition -> %s" % (
                None if sd is None else (sd.__class__.__name__, sd.pattern, sd.func.__name__, sd.step_type),))
        except Exception as e:  # pylint: disable=broad-except
            out("   find_step_definition RAISED %s: %s" % (e.__class__.__name__, e))
    same = all(registry.steps[k] == v for k, v in snapshots.items())
    out("   registry lists unchanged after lookups: %s" % same)

    # -- Only generic steps / empty generic list
    registry2 = StepRegistry()
    f1 = make_func("only_given", log)
    registry2.add_step_definition("given", "x {a}", f1)
    m = registry2.find_match(FakeStep("given", "x 1"))
    out("-- no-generic: %s %s" % (m.func.__name__, show_args(m.arguments)))
    out("-- no-generic when: %r" % registry2.find_match(FakeStep("when", "x 1")))
    registry2.clear()
    out("-- after clear: %r" % registry2.find_match(FakeStep("given", "x 1")))

    # -- "<string>" location: same func+pattern is NOT ignored
    registry3 = StepRegistry()
    scope = {}
    exec("def sfunc(context):\n    pass\n", scope)   # pylint: disable=exec-used
    registry3.add_step_definition("given", "string step", scope["sfunc"])
    try:
        registry3.add_step_definition("given", "string step", scope["sfunc"])
        out("-- <string> re-register: OK")
    except AmbiguousStep as e:
        out("-- <string> re-register: AmbiguousStep: %s" % e)

    # -- decorators
    registry4 = StepRegistry()
    ns = {}
    from behave.step_registry import setup_step_decorators
    setup_step_decorators(ns, registry4)
    @ns["given"]("deco {v:d}")
    def deco_given(context, v):
        log.append("deco_given v=%r" % v)
    @ns["Step"]("deco {v:d}")
    def deco_step(context, v):
        log.append("deco_step v=%r" % v)
    for st in ("given", "when", "step"):
        del log[:]
        registry4.find_match(FakeStep(st, "deco 7")).run(FakeContext(log))
        out("-- decorators %s: %r" % (st, log))
    factory.reset()


# ---------------------------------------------------------------------------
# SECTION 4: End-to-end run with "python -m behave"
# ---------------------------------------------------------------------------
FEATURE = u'''\
Feature: Matching
  Scenario: Types and generic steps
    Given a basket with 3 apples
    When a basket with 4 apples
    Then a basket with 5 apples
    And I see "quoted text" and 42
    But an undefined step
  Scenario: Regex and conversion errors
    Given regex value 17 for bob
    Then I see "x" and 1
  Scenario: Case sensitivity
    Given A basket with 3 apples
'''

FEATURE2 = u'''\
Feature: Conversion errors
  Scenario: Converter raises
    Given a basket with 1 apples
    When number is abc
    Then never reached
  Scenario: Converter passes
    When number is 12
'''

STEPS1 = u'''\
from behave import given, when, then, step, use_step_matcher, register_type
import parse

@parse.with_pattern(r"\\w+")
def parse_strict_number(text):
    return int(text)

register_type(StrictNumber=parse_strict_number)

@step(u'a basket with {count:d} apples')
def step_generic_basket(ctx, count):
    print("GENERIC basket count=%r" % count)

@when(u'a basket with {count:d} apples')
def step_when_basket(ctx, count):
    print("WHEN basket count=%r" % count)

@then(u'I see "{text}" and {number:d}')
def step_then_see(ctx, text, number):
    print("SEE text=%r number=%r" % (text, number))

@when(u'number is {n:StrictNumber}')
def step_when_number(ctx, n):
    print("NUMBER n=%r" % n)

@then(u'never reached')
def step_never(ctx):
    print("NEVER")

use_step_matcher("re")

@given(r'regex value (?P<value>\\d+) for (\\w+)')
def step_regex(ctx, who, value):
    print("REGEX who=%r value=%r" % (who, value))
'''

STEPS2 = u'''\
from behave import given
# -- Matcher must be back to default (parse) here.
@given(u'zzz {x} for (not a regex')
def step_parse_again(ctx, x):
    print("PARSE AGAIN x=%r" % x)
'''

STEPS_AMBIGUOUS = u'''\
from behave import given
@given(u'dup {x}')
def step_dup1(ctx, x):
    pass

@given(u'dup thing')
def step_dup2(ctx):
    pass
'''


def run_behave(workdir, args):
    env = dict(os.environ)
    env["PYTHONPATH"] = WORKTREE
    env["PYTHONHASHSEED"] = "0"
    env.pop("BEHAVE_ARGS", None)
    proc = subprocess.Popen(
        [sys.executable, "-m", "behave"] + args,
        cwd=workdir, env=env, stdout=subprocess.PIPE, stderr=subprocess.STDOUT)
    output = proc.communicate()[0].decode("utf-8", "replace")
    output = output.replace(workdir, "<WORKDIR>")
    lines = []
    for line in output.splitlines():
        if line.startswith("Took ") or "Took " in line and line.strip().startswith("Took"):
            line = "Took <T>"
        lines.append(line.rstrip())
    return proc.returncode, lines


def normalize_durations(lines):
    """Normalize durations and strip traceback frames (file/line/source text
    of behave internals are not observable behaviour; line numbers shift).
    """
    import re
    result = []
    traceback_indent = None
    for line in lines:
        indent = len(line) - len(line.lstrip())
        if traceback_indent is not None:
            if line.strip() and indent > traceback_indent:
                continue    # -- SKIP: traceback frame line
            traceback_indent = None
        if line.strip() == "Traceback (most recent call last):":
            traceback_indent = indent
        line = re.sub(r"\d+\.\d+s", "<T>s", line)
        line = re.sub(r'"duration": [0-9.e-]+', '"duration": 0', line)
        result.append(line)
    return result


def section_end_to_end():
    out("== SECTION 4: python -m behave")
    workdir = tempfile.mkdtemp(prefix="c11_equiv_")
    workdir = os.path.realpath(workdir)
    try:
        os.makedirs(os.path.join(workdir, "features", "steps"))
        def write(relpath, text):
            with open(os.path.join(workdir, relpath), "wb") as f:
                f.write(text.encode("utf-8"))
        write("features/matching.feature", FEATURE)
        write("features/steps/a_steps.py", STEPS1)
        write("features/steps/b_steps.py", STEPS2)
        for fmt in ("plain", "pretty", "json"):
            rc, lines = run_behave(workdir, ["-f", fmt, "--no-color", "--no-timings",
                                             "--no-capture", "features/matching.feature"])
            out("-- format=%s returncode=%d" % (fmt, rc))
            for line in normalize_durations(lines):
                out("   | " + line)
        write("features/convert.feature", FEATURE2)
        for fmt in ("plain", "pretty"):
            rc, lines = run_behave(workdir, ["-f", fmt, "--no-color", "--no-timings",
                                             "--no-capture", "features/convert.feature"])
            out("-- convert: format=%s returncode=%d" % (fmt, rc))
            for line in normalize_durations(lines):
                out("   | " + line)
        write("features/steps/c_steps.py", STEPS_AMBIGUOUS)
        rc, lines = run_behave(workdir, ["-f", "plain", "--no-color", "--no-timings", "features"])
        out("-- ambiguous returncode=%d" % rc)
        for line in normalize_durations(lines):
            if line.strip().startswith("raise "):
                continue    # -- traceback source line (not behaviour)
            if "AmbiguousStep" in line or "already been defined" in line or "existing step" in line:
                out("   | " + line)
    finally:
        shutil.rmtree(workdir, ignore_errors=True)


if __name__ == "__main__":
    section_check_match()
    section_match_run()
    section_registry()
    section_end_to_end()
    out("== DONE")
