# -*- coding: utf-8 -*-
"""
Equivalence transcript for property C17 (rerun file lists exactly the
unsuccessful scenarios; fed back it selects them).

Prints a canonical transcript of:
  A. Status predicates for every enum member
  B. FileLocationParser / FeatureListParser / collect_feature_locations
  C. parse_features() scenario selection
  D. RerunFormatter driven in-process with a write-recording stream
  E. closed loop via "python -m behave": run -> rerun file -> second run
"""
from __future__ import print_function
import io
import os
import re
import shutil
import subprocess
import sys

WORKTREE = "/tmp/wtW/C17"
sys.path.insert(0, WORKTREE)

from behave.model_core import Status, FileLocation          # noqa: E402
from behave.formatter.base import StreamOpener              # noqa: E402
from behave.formatter.rerun import RerunFormatter           # noqa: E402
from behave import runner_util                              # noqa: E402
from behave.runner_util import (                            # noqa: E402
    FileLocationParser, FeatureListParser,
    collect_feature_locations, parse_features)

HERE = os.path.dirname(os.path.abspath(__file__))
WORK = os.path.join(HERE, "_work")
PYTHON = sys.executable


def out(*args):
    text = " ".join(str(a) for a in args)
    text = text.replace(WORK, "<W>").replace(WORKTREE, "<T>")
    print(text)


def section(title):
    out("")
    out("=" * 70)
    out(title)
    out("=" * 70)


def attempt(label, func, *args, **kwargs):
    try:
        result = func(*args, **kwargs)
    except BaseException as e:   # noqa
        out("%s -> RAISES %s: %s" % (label, type(e).__name__, e))
        return None
    out("%s -> %r" % (label, result))
    return result


def write_file(relname, text):
    path = os.path.join(WORK, relname)
    dirname = os.path.dirname(path)
    if not os.path.isdir(dirname):
        os.makedirs(dirname)
    with io.open(path, "w", encoding="utf-8") as f:
        f.write(text)
    return path


# ---------------------------------------------------------------------------
# FIXTURE FILES
# ---------------------------------------------------------------------------
FEATURE_A = u"""\
Feature: Alice all passing

  Scenario: A1 passes
    Given a step passes
    Then a step passes

  Scenario: A2 passes
    Given a step passes
"""

FEATURE_B = u"""\
Feature: Bob mixed

  Background:
    Given a step passes

  Scenario: B1 passes
    When a step passes

  Scenario: B2 fails with assertion
    When a step fails
    Then a step passes

  Scenario: B3 raises an exception
    When a step raises an error
    Then a step passes

  Scenario: B4 has an undefined step
    When this step is not defined anywhere
    Then a step passes

  @skipme
  Scenario: B5 is skipped by hook
    When a step fails

  Scenario Outline: B6 outline <name>
    When a step <outcome>

    Examples: first
      | name | outcome |
      | r1   | passes  |
      | r2   | fails   |
      | r3   | raises an error |

    Examples: second
      | name | outcome |
      | r4   | passes  |
      | r5   | fails   |

  @hook_fail
  Scenario: B7 before_scenario hook fails
    When a step passes

  Scenario: B8 passes at the end
    When a step passes
"""

FEATURE_C = u"""\
Feature: Carol with rules

  Scenario: C1 outside rule passes
    Given a step passes

  Scenario: C2 outside rule raises
    Given a step raises an error

  Rule: First rule

    Scenario: C3 in rule fails
      Given a step fails

    Scenario: C4 in rule passes
      Given a step passes

    Scenario Outline: C5 rule outline <name>
      Given a step <outcome>

      Examples:
        | name | outcome |
        | x1   | fails   |
        | x2   | passes  |

  Rule: Second rule

    Scenario: C6 in second rule passes
      Given a step passes

    @after_hook_fail
    Scenario: C7 after_scenario hook fails
      Given a step passes
"""

FEATURE_D = u"""\
Feature: Dave first problem is an error

  Scenario: D1 raises an exception first
    Given a step raises an error

  Scenario: D2 then fails
    Given a step fails

  Scenario: D3 passes
    Given a step passes
"""

FEATURE_E = u"""\
@skipme
Feature: Erin all skipped

  Scenario: E1 skipped
    Given a step fails
"""

FEATURE_F = u"""\
Feature: Frank only undefined

  Scenario: F1 undefined only
    Given nothing matches this one

  Scenario: F2 passes
    Given a step passes
"""

STEPS = u"""\
from behave import given, when, then, step

@step(u'a step passes')
def step_passes(ctx):
    pass

@step(u'a step fails')
def step_fails(ctx):
    assert False, "XFAIL-STEP"

@step(u'a step raises an error')
def step_raises(ctx):
    raise RuntimeError("OOPS-STEP")
"""

ENVIRONMENT = u"""\
def before_feature(ctx, feature):
    if "skipme" in feature.tags:
        feature.skip("by hook")

def before_scenario(ctx, scenario):
    if "skipme" in scenario.effective_tags:
        scenario.skip("by hook")
    if "hook_fail" in scenario.tags:
        raise RuntimeError("OOPS-BEFORE-SCENARIO")

def after_scenario(ctx, scenario):
    if "after_hook_fail" in scenario.tags:
        raise RuntimeError("OOPS-AFTER-SCENARIO")
"""


def make_fixture():
    if os.path.isdir(WORK):
        shutil.rmtree(WORK)
    os.makedirs(WORK)
    write_file("features/alice.feature", FEATURE_A)
    write_file("features/bob.feature", FEATURE_B)
    write_file("features/sub/carol.feature", FEATURE_C)
    write_file("features/sub/dave.feature", FEATURE_D)
    write_file("features/erin.feature", FEATURE_E)
    write_file("features/frank.feature", FEATURE_F)
    write_file("features/steps/steps.py", STEPS)
    write_file("features/environment.py", ENVIRONMENT)
    write_file("features/notes.txt", u"not a feature\n")
    write_file("features/empty.feature", u"# -- no feature in here\n")
    write_file("behave.ini", u"[behave]\nshow_timings = false\n")


# ---------------------------------------------------------------------------
# A. STATUS
# ---------------------------------------------------------------------------
def part_status():
    section("A. Status predicates")
    predicates = ["has_failed", "is_error", "is_failure", "is_passed",
                  "is_untested", "is_pending", "is_undefined", "is_final"]
    for status in Status:
        values = []
        for name in predicates:
            result = getattr(status, name)()
            values.append("%s=%r" % (name, result))
        out("%-20s %3d %s" % (status.name, status.value, " ".join(values)))
    for status in Status:
        attempt("to_status_v0(%s)" % status.name, status.to_status_v0)
    out("eq-string:", Status.failed == "failed", Status.error == "failed",
        Status.error != "error", Status.failed == Status.failed,
        Status.failed == Status.error, Status.failed == 20)
    out("hash:", [hash(s) == hash(s.value) for s in Status])
    out("in-set:", Status.failed in set([Status.error, Status.failed]),
        Status.passed in frozenset([Status.error]))


# ---------------------------------------------------------------------------
# B. LOCATION PARSING
# ---------------------------------------------------------------------------
def show_locations(label, locations):
    out("%s: %d location(s)" % (label, len(locations)))
    for location in locations:
        out("   %r | str=%s" % (location, location))


def part_locations():
    os.chdir(WORK)
    section("B1. FileLocationParser.parse")
    texts = [
        "alice.feature", "alice.feature:10", "  alice.feature:10  ",
        "alice.feature:0", "alice.feature:007", "alice.feature:",
        "alice.feature:abc", "alice.feature:1:2", "C:/x/alice.feature:12",
        ":12", "12", "", "   ", "a b.feature : 3", "a b.feature: 3",
        "a.feature:3\n", "a.feature:-3", "dir/with:colon/a.feature",
        u"\u00e4.feature:5", "a.feature:5 # comment", "a.feature:1e3",
        "\ta.feature:44\t",
    ]
    for text in texts:
        location = attempt("parse(%r)" % text, FileLocationParser.parse, text)
        if location is not None:
            out("      filename=%r line=%r str=%s" %
                (location.filename, location.line, location))
    attempt("parse(None)", FileLocationParser.parse, None)
    attempt("parse(12)", FileLocationParser.parse, 12)

    section("B2. FeatureListParser.parse")
    listing = u"""\
# -- a comment
features/alice.feature

   # indented comment
features/bob.feature:10
  features/bob.feature:14
features/sub/*.feature
features/*.nothing
features/s?b/carol.feature:5
%s/features/frank.feature:3
features/../features/./erin.feature
features/bob.feature:10
""" % WORK
    show_locations("here=None", FeatureListParser.parse(listing))
    show_locations("here=WORK", FeatureListParser.parse(listing, WORK))
    show_locations("here=rel", FeatureListParser.parse(listing, "some/dir"))
    show_locations("empty", FeatureListParser.parse(u""))
    show_locations("only-comments", FeatureListParser.parse(u"#a\n\n  #b\n"))
    show_locations("crlf", FeatureListParser.parse(u"a.feature:1\r\nb.feature\r\n"))
    attempt("parse(None)", FeatureListParser.parse, None)

    section("B3. FeatureListParser.parse_file")
    write_file("list1.txt", listing)
    write_file("lists/list2.txt",
               u"../features/alice.feature:3\n../features/sub/d*.feature\n")
    write_file("empty_list.txt", u"")
    os.chdir(WORK)
    for name in ["list1.txt", "@list1.txt", "lists/list2.txt",
                 "@lists/list2.txt", os.path.join(WORK, "lists/list2.txt"),
                 "empty_list.txt", "missing.txt", "@missing.txt", "features",
                 "@@list1.txt"]:
        try:
            locations = FeatureListParser.parse_file(name)
        except Exception as e:  # noqa
            out("parse_file(%r) RAISES %s: %s" % (name, type(e).__name__, e))
            continue
        show_locations("parse_file(%r)" % name, locations)

    section("B4. collect_feature_locations")
    cases = [
        (["features"], {}),
        (["features/"], {}),
        (["features/sub"], {}),
        (["features/alice.feature"], {}),
        (["features/alice.feature:7", "features/bob.feature:10"], {}),
        (["@list1.txt"], {}),
        (["@lists/list2.txt", "features/erin.feature"], {}),
        (["features/sub", "@lists/list2.txt", "features/bob.feature:3"], {}),
        (["features/missing.feature"], {}),
        (["features/missing.feature"], {"strict": False}),
        (["features/missing.feature:3", "features/alice.feature"],
         {"strict": False}),
        (["features/notes.txt"], {}),
        (["features/notes.txt:3"], {"strict": False}),
        (["features/alice.feature", "features/notes.txt"], {}),
        (["@missing.txt"], {}),
        (["@missing.txt"], {"strict": False}),
        (["@@list1.txt"], {}),
        (["@empty_list.txt"], {}),
        ([], {}),
        (["missing_dir"], {}),
        ([os.path.join(WORK, "features", "sub")], {}),
    ]
    for paths, kwargs in cases:
        try:
            locations = collect_feature_locations(paths, **kwargs)
        except Exception as e:  # noqa
            out("collect(%r, %r) RAISES %s: %s" %
                (paths, kwargs, type(e).__name__, e))
            continue
        show_locations("collect(%r, %r)" % (paths, kwargs), locations)
    attempt("collect(None)", collect_feature_locations, None)
    attempt("collect([None])", collect_feature_locations, [None])


# ---------------------------------------------------------------------------
# C. parse_features
# ---------------------------------------------------------------------------
def show_features(label, features):
    out("%s: %d feature(s)" % (label, len(features)))
    for feature in features:
        out("  FEATURE %s | %s | should_run=%r" %
            (feature.name, feature.location, feature.should_run()))
        for scenario in feature.walk_scenarios():
            out("     %-40s %-28s status=%-9s should_run=%r" %
                (scenario.name, scenario.location, scenario.status.name,
                 scenario.should_run()))


def part_parse_features():
    section("C. parse_features")
    os.chdir(WORK)
    F = FileLocation
    cases = [
        ("no-lines", ["features/alice.feature", "features/bob.feature"]),
        ("strings-with-normpath", ["features/./alice.feature",
                                   "features/sub/../bob.feature"]),
        ("one-line", [F("features/bob.feature", 9)]),
        ("two-lines-same-file", [F("features/bob.feature", 9),
                                 F("features/bob.feature", 13)]),
        ("line-and-all", [F("features/bob.feature", 9),
                          F("features/bob.feature")]),
        ("all-and-line", [F("features/bob.feature"),
                          F("features/bob.feature", 9)]),
        ("inexact-lines", [F("features/bob.feature", 10),
                           F("features/bob.feature", 2),
                           F("features/bob.feature", 999)]),
        ("outline-header", [F("features/bob.feature", 25)]),
        ("outline-rows", [F("features/bob.feature", 31),
                          F("features/bob.feature", 37)]),
        ("examples-line", [F("features/bob.feature", 34)]),
        ("rule-line", [F("features/sub/carol.feature", 9)]),
        ("rule-members", [F("features/sub/carol.feature", 11),
                          F("features/sub/carol.feature", 22),
                          F("features/sub/carol.feature", 6)]),
        ("line-zero", [F("features/bob.feature", 0)]),
        ("interleaved", [F("features/bob.feature", 9),
                         F("features/alice.feature", 3),
                         F("features/bob.feature", 13)]),
        ("three-files", [F("features/alice.feature", 7),
                         F("features/sub/dave.feature", 6),
                         F("features/sub/dave.feature", 3),
                         F("features/frank.feature")]),
        ("empty-feature-file", [F("features/empty.feature"),
                                F("features/empty.feature", 3),
                                F("features/alice.feature", 3)]),
        ("empty-feature-between", [F("features/alice.feature", 3),
                                   F("features/empty.feature"),
                                   F("features/alice.feature", 7)]),
        ("empty-list", []),
        ("abs-path", [F(os.path.join(WORK, "features/alice.feature"), 7)]),
    ]
    for label, locations in cases:
        try:
            features = parse_features(locations)
        except BaseException as e:  # noqa
            out("%s RAISES %s: %s" % (label, type(e).__name__, e))
            continue
        show_features(label, features)
    attempt("bad-type", parse_features, [12])
    attempt("missing-file", parse_features, ["features/missing.feature"])
    attempt("none", parse_features, None)
    attempt("language=de", parse_features, ["features/alice.feature"],
            language="de")
    attempt("language=en", lambda: len(parse_features(
        ["features/alice.feature"], language="en")))

    out("-- closed loop in-process: @list1.txt")
    show_features("list1", parse_features(collect_feature_locations(["@list1.txt"])))


# ---------------------------------------------------------------------------
# D. RerunFormatter in-process
# ---------------------------------------------------------------------------
class RecordingStream(object):
    closed = False

    def __init__(self, log):
        self.log = log

    def write(self, text):
        self.log.append(("write", text))

    def flush(self):
        self.log.append(("flush",))

    def close(self):
        self.log.append(("close",))
        self.closed = True


class FakeConfig(object):
    pass


class FakeScenario(object):
    def __init__(self, filename, line, name, status):
        self.filename = filename
        self.line = line
        self.name = name
        self.status = status
        self.location = FileLocation(filename, line)

    def __repr__(self):
        return "<S %s>" % self.name


class FakeFeature(object):
    def __init__(self, status, scenarios, truthy=True):
        self.status = status
        self.scenarios = scenarios
        self.truthy = truthy
        self.walked = 0

    def walk_scenarios(self):
        self.walked += 1
        return list(self.scenarios)

    def __bool__(self):
        return self.truthy
    __nonzero__ = __bool__


class TimestampRerunFormatter(RerunFormatter):
    show_timestamp = True


class DescribingRerunFormatter(RerunFormatter):
    show_failed_scenarios_descriptions = True


def describe_stream(stream):
    if stream is None:
        return None
    return "<%s closed=%r>" % (type(stream).__name__,
                               getattr(stream, "closed", None))


def show_log(log):
    for entry in log:
        if entry[0] == "write":
            text = re.sub(r"# NOW: \d{4}-\d\d-\d\d \d\d:\d\d:\d\d",
                          "# NOW: <TIMESTAMP>", entry[1])
            out("   write(%r) %s" % (text, type(entry[1]).__name__))
        else:
            out("   %s()" % entry[0])


def drive_formatter(label, formatter_class, features, filename=None,
                    prepare=None):
    out("-- %s" % label)
    log = []
    if filename:
        opener = StreamOpener(filename=filename)
    else:
        opener = StreamOpener(stream=RecordingStream(log))
    formatter = formatter_class(opener, FakeConfig())
    if prepare:
        prepare(formatter)
    for feature in features:
        if feature is not None:
            formatter.feature(feature)
        formatter.eof()
        out("   after eof: current_feature=%r failed=%r walked=%r" %
            (formatter.current_feature, formatter.failed_scenarios,
             getattr(feature, "walked", None)))
    try:
        formatter.close()
    except BaseException as e:  # noqa
        out("   close RAISES %s: %s" % (type(e).__name__, e))
    show_log(log)
    out("   stream=%r opener.stream=%r failed=%r" %
        (formatter.stream, describe_stream(opener.stream),
         formatter.failed_scenarios))
    if filename:
        if os.path.isdir(filename):
            out("   FILE %s: <directory>" % filename)
        elif os.path.exists(filename):
            with io.open(filename, encoding="utf-8") as f:
                out("   FILE %s:" % filename)
                for line in f.read().splitlines():
                    out("      |" + line)
        else:
            out("   FILE %s: <absent>" % filename)
    return formatter


def part_formatter():
    section("D. RerunFormatter in-process")
    os.chdir(WORK)
    S = FakeScenario
    fa = os.path.join(WORK, "features/alice.feature")
    fb = os.path.join(WORK, "features/bob.feature")
    all_status = [S(fa, 10 + i, "s_%s" % st.name, st)
                  for i, st in enumerate(Status)]
    f_failed = FakeFeature(Status.failed, [
        S(fa, 3, "a1", Status.passed), S(fa, 7, "a2", Status.failed),
        S(fa, 11, "a3", Status.error), S(fa, 15, "a4", Status.skipped),
        S(fa, 19, "a5", Status.hook_error), S(fa, 23, "a6", Status.undefined),
        S(fa, 27, "a7", Status.untested)])
    f_error = FakeFeature(Status.error, [
        S(fb, 5, "b1", Status.error), S(fb, 9, "b2", Status.passed),
        S(fb, 12, u"b3 \u00e4", Status.failed)])
    f_passed = FakeFeature(Status.passed, [
        S(fb, 5, "p1", Status.passed), S(fb, 9, "p2 (stale)", Status.failed)])
    f_skipped = FakeFeature(Status.skipped, [S(fb, 5, "k1", Status.skipped)])
    f_falsy = FakeFeature(Status.failed, [S(fb, 5, "z1", Status.failed)],
                          truthy=False)
    f_every = FakeFeature(Status.hook_error, all_status)
    f_again = FakeFeature(Status.failed, [S(fa, 40, "a9", Status.failed)])
    f_nofail = FakeFeature(Status.failed, [S(fa, 40, "n1", Status.passed)])
    f_rel = FakeFeature(Status.failed, [
        S("features/x.feature", 4, "x1", Status.failed),
        S("features/x.feature", 8, "x2", Status.error),
        S("features/y.feature", 2, "y1", Status.failed),
        S("features/x.feature", 12, "x3", Status.failed)])

    for cls in (RerunFormatter, DescribingRerunFormatter,
                TimestampRerunFormatter):
        drive_formatter("%s mixed" % cls.__name__, cls,
                        [f_passed, f_failed, f_skipped, f_error, f_again])
        drive_formatter("%s nothing failed" % cls.__name__, cls,
                        [f_passed, f_skipped, f_nofail])
        drive_formatter("%s relative names" % cls.__name__, cls, [f_rel])
    drive_formatter("every status", RerunFormatter, [f_every])
    drive_formatter("falsy feature", RerunFormatter, [f_falsy])
    drive_formatter("eof without feature", RerunFormatter, [None, f_failed, None])
    drive_formatter("no features", RerunFormatter, [])

    def preset(formatter):
        formatter.failed_scenarios.append(S(fa, 1, "preset", Status.failed))
    formatter = drive_formatter("reset()", RerunFormatter, [f_error],
                                prepare=preset)
    formatter.feature(f_error)
    formatter.reset()
    out("   after reset: %r %r" % (formatter.current_feature,
                                   formatter.failed_scenarios))

    out("-- file based")
    target = os.path.join(WORK, "out", "deep", "rerun_d.txt")
    drive_formatter("file: failures create dirs+file", DescribingRerunFormatter,
                    [f_failed, f_error], filename=target)
    drive_formatter("file: stale file removed", RerunFormatter,
                    [f_passed], filename=target)
    drive_formatter("file: nothing to remove", RerunFormatter,
                    [f_passed], filename=target)
    drive_formatter("file: rewritten", RerunFormatter, [f_error],
                    filename=target)
    drive_formatter("file: overwritten", RerunFormatter, [f_again],
                    filename=target)
    os.makedirs(os.path.join(WORK, "out", "adir"))
    drive_formatter("file: name is a directory, no failures", RerunFormatter,
                    [f_passed], filename=os.path.join(WORK, "out", "adir"))

    out("-- no stream name, no failures")
    opener = StreamOpener(stream=RecordingStream([]))
    formatter = RerunFormatter(opener, FakeConfig())
    attempt("close()", formatter.close)
    formatter = RerunFormatter(opener, FakeConfig())
    attempt("report_scenario_failures() when empty",
            formatter.report_scenario_failures)


# ---------------------------------------------------------------------------
# E. CLOSED LOOP via subprocess
# ---------------------------------------------------------------------------
def run_behave(label, args):
    env = dict(os.environ)
    env["PYTHONPATH"] = WORKTREE
    env["PYTHONHASHSEED"] = "0"
    env["COLUMNS"] = "200"
    env.pop("BEHAVE_CONFIG", None)
    env["HOME"] = WORK
    command = [PYTHON, "-m", "behave", "--no-color", "-T"] + args
    process = subprocess.Popen(command, cwd=WORK, env=env,
                               stdout=subprocess.PIPE,
                               stderr=subprocess.STDOUT)
    output = process.communicate()[0].decode("utf-8", "replace")
    output = re.sub(r'(File "[^"]*[/\\]behave[/\\][^"]*", line )\d+',
                    r"\1N", output)
    output = re.sub(r"Took \d+m?\d*\.\d+s|Took \d+min \d+\.\d+s|Took [\d.]+ ?s(econds)?",
                    "Took <T>", output)
    out("-- RUN %s: behave %s" % (label, " ".join(args)))
    out("   exit-code: %d" % process.returncode)
    for line in output.splitlines():
        out("   |" + line.rstrip())


def show_file(relname):
    path = os.path.join(WORK, relname)
    if not os.path.exists(path):
        out("-- FILE %s: <absent>" % relname)
        return
    out("-- FILE %s:" % relname)
    with io.open(path, encoding="utf-8") as f:
        for line in f.read().splitlines():
            out("   |" + line)


def part_closed_loop():
    section("E. closed loop: run -> rerun file -> second run")
    os.chdir(WORK)
    run_behave("1 (all features)",
               ["-f", "rerun", "-o", "rerun.txt", "-f", "plain", "features"])
    show_file("rerun.txt")
    shutil.copy(os.path.join(WORK, "rerun.txt"),
                os.path.join(WORK, "rerun_1.txt"))
    run_behave("2 (fed back)",
               ["-f", "rerun", "-o", "rerun.txt", "-f", "plain", "@rerun_1.txt"])
    show_file("rerun.txt")
    run_behave("2b (fed back, dry-run, steps format)",
               ["--dry-run", "-f", "plain", "--no-skipped", "@rerun_1.txt"])
    run_behave("3 (passing only: stale file removed)",
               ["-f", "rerun", "-o", "rerun.txt", "-f", "progress",
                "features/alice.feature"])
    show_file("rerun.txt")
    run_behave("4 (passing only: nothing to remove)",
               ["-f", "rerun", "-o", "rerun.txt", "-f", "progress",
                "features/alice.feature"])
    show_file("rerun.txt")
    run_behave("5 (rerun to stdout, error-first feature)",
               ["-f", "rerun", "features/sub/dave.feature",
                "features/frank.feature"])
    run_behave("6 (selected by location)",
               ["-f", "rerun", "-o", "rerun6.txt", "-f", "plain",
                "--no-skipped", "features/bob.feature:13",
                "features/bob.feature:31", "features/sub/carol.feature:9"])
    show_file("rerun6.txt")
    run_behave("7 (rerun6 fed back)",
               ["-f", "plain", "--no-skipped", "@rerun6.txt"])
    run_behave("8 (missing list file)", ["@nope.txt"])
    run_behave("9 (bad filename)", ["features/notes.txt"])
    run_behave("10 (tags exclude failing)",
               ["-f", "rerun", "-o", "rerun10.txt", "-f", "progress",
                "--tags=not @hook_fail", "--stop", "features/bob.feature"])
    show_file("rerun10.txt")


def main():
    make_fixture()
    part_status()
    part_locations()
    part_parse_features()
    part_formatter()
    part_closed_loop()
    os.chdir(HERE)
    shutil.rmtree(WORK)
    out("")
    out("DONE")


if __name__ == "__main__":
    main()
