# -*- coding: utf-8 -*-
"""Canonical transcript of v1 tag expressions and dialect auto-detection."""
from __future__ import print_function
import sys
sys.path.insert(0, "/tmp/wtW/C08")
import itertools
import re


class _Scrubbed(object):
    """Removes memory addresses from everything that is printed."""
    def __init__(self, stream):
        self.stream = stream

    def write(self, text):
        self.stream.write(re.sub(r" at 0x[0-9a-fA-F]+", " at 0x?", text))

    def flush(self):
        self.stream.flush()


sys.stdout = _Scrubbed(sys.stdout)

from behave.tag_expression import builder
from behave.tag_expression.builder import (
    make_tag_expression, TagExpressionProtocol,
    _select_tag_expression_parser4auto, _parse_tag_expression_v1,
    _parse_tag_expression_v2, _any_word_is_keyword,
    _any_word_contains_keyword, _any_word_contains_wildcards,
    _any_word_starts_with)
from behave.tag_expression.v1 import TagExpression

assert builder.__file__.startswith("/tmp/wtW/C08/"), builder.__file__

UNIVERSE = ["a", "b", "c"]
SUBSETS = [list(c) for n in range(len(UNIVERSE) + 1)
           for c in itertools.combinations(UNIVERSE, n)]


def describe(func, *args, **kwargs):
    try:
        return "OK %r" % (func(*args, **kwargs),)
    except BaseException as e:  # noqa
        return "EXC %s: %s" % (type(e).__name__, e)


def truth_table(expr):
    bits = []
    for subset in SUBSETS:
        try:
            bits.append("1" if expr.check(subset) else "0")
        except Exception as e:  # noqa
            bits.append("E(%s)" % type(e).__name__)
    return "".join(bits)


def show_expression(label, source, protocol):
    try:
        expr = make_tag_expression(source, protocol)
    except BaseException as e:  # noqa
        print("%s %s %r => EXC %s: %s" % (label, protocol.name, source,
                                           type(e).__name__, e))
        return
    extra = ""
    if isinstance(expr, TagExpression):
        extra = " ands=%r limits=%r len=%d" % (
            expr.ands, sorted(expr.limits.items()), len(expr))
    print("%s %s %r => %s str=%r repr=%r table=%s%s" % (
        label, protocol.name, source, type(expr).__name__, str(expr),
        repr(expr), truth_table(expr), extra))


# ---------------------------------------------------------------------------
print("== SECTION 1: normalize_tag / normalized_tags_from_or")
RAW_TAGS = ["a", "@a", "-a", "~a", "-@a", "~@a", " a ", " @a ", " -@a", "~ a",
            "", " ", "@", "-", "~", "-@", "~@", "@@a", "--a", "~~a", "-~a",
            "~-a", "@-a", "@~a", "-@@a", "a@b", "a-b", "a~b", "a:1", "-a:2",
            "~@a:3", u"ä", u"~@ä", "\t@a\n", "not", "-not"]
for raw in RAW_TAGS:
    print("normalize_tag(%r) = %s" % (raw, describe(TagExpression.normalize_tag, raw)))
for raw in ["a,b", "@a,-b,~@c", " a , b ", "a,,b", ",", "", "a", "-a:1,b:2",
            " ~a,@b ,-@c "]:
    print("normalized_tags_from_or(%r) = %s" % (
        raw, describe(lambda r=raw: list(TagExpression.normalized_tags_from_or(r)))))
gen = TagExpression.normalized_tags_from_or(None)
print("normalized_tags_from_or(None) lazy:", type(gen).__name__)
print("  next ->", describe(next, gen))

# ---------------------------------------------------------------------------
print("== SECTION 2: CNF formulas, list and string form, v1 and auto_detect")
LITERALS = []
for name in UNIVERSE:
    for neg in ["", "-", "~"]:
        for at in ["", "@"]:
            LITERALS.append(neg + at + name)
CLAUSES = []
for lit in LITERALS:
    CLAUSES.append(lit)
pairs = [("a", "b"), ("-a", "b"), ("~@a", "@c"), ("-b", "~c"), ("@a", "-@a"),
         ("a", "a"), ("@b", "c"), ("~a", "-@b")]
for pair in pairs:
    CLAUSES.append(",".join(pair))
CLAUSES.append("a,b,c")
CLAUSES.append("-a,-b,-c")
CLAUSES.append("~@a,@b,-c")
count = 0
for n in (1, 2, 3):
    combos = list(itertools.product(CLAUSES, repeat=n))
    step = {1: 1, 2: 7, 3: 389}[n]
    for groups in combos[::step]:
        groups = list(groups)
        for proto in (TagExpressionProtocol.V1, TagExpressionProtocol.AUTO_DETECT):
            show_expression("LIST", groups, proto)
            show_expression("TEXT", " ".join(groups), proto)
            count += 2
        show_expression("TUPLE", tuple(groups), TagExpressionProtocol.AUTO_DETECT)
print("formulas shown:", count)

# ---------------------------------------------------------------------------
print("== SECTION 3: limits")
LIMIT_CASES = [
    ["a:1"], ["-a:1"], ["~@a:3"], ["a:1,b:2"], ["a:1", "b:2"], ["a:1", "a:1"],
    ["a:1", "-a:1"], ["a:1", "a:2"], ["a:1", "-a:2"], ["~@a:1", "@a:7"],
    ["a:1,a:2"], ["a:1:2"], ["a:1:x"], ["a:"], ["a:x"], ["a: 1"], ["a:1 "],
    ["a:-1"], ["a:0", "a:0"], ["a:0", "a:1"], ["a:1.5"], [":1"], ["-:1"],
    ["a:01", "a:1"], ["a:1", "b", "-c:4"], ["a:1,b", "c:3,-a:1"],
    ["a:1,b", "c:3,-a:2"], ["a:+1"], ["a:1_0"], ["a::"], ["a::1"],
    ["-a:2,a:3"], ["b:2", "x", "b:3"],
]
for case in LIMIT_CASES:
    for proto in (TagExpressionProtocol.V1, TagExpressionProtocol.AUTO_DETECT):
        show_expression("LIMIT", case, proto)
    show_expression("LIMIT-TEXT", " ".join(case), TagExpressionProtocol.V1)

print("-- direct TagExpression construction")
for parts in [[], [""], [" "], [","], ["", "a"], ["a", ""], [",a"], ["a,"],
              ["a,,b"], ["-"], ["~"], ["@"], ["-,a"], ("a", "b"), ["a b"],
              [" a , -b "], "ab", "a,b", iter(["a", "-b"]), [None], [1], None]:
    def build(parts=parts):
        e = TagExpression(parts)
        return (e.ands, sorted(e.limits.items()), len(e), str(e), repr(e),
                truth_table(e), e.to_string(), e.to_string(pretty=False))
    print("TagExpression(%r) = %s" % (parts, describe(build)))

print("-- partial state after inconsistent limits")
te = TagExpression(["a:1", "b"])
print(describe(te.store_and_extract_limits, ["c:3", "a:2", "d:4"]))
print("ands=%r limits=%r" % (te.ands, sorted(te.limits.items())))
print(describe(te.store_and_extract_limits, iter([])))
print(describe(te.store_and_extract_limits, iter(["-e:5", "e:5", "f"])))
print("ands=%r limits=%r" % (te.ands, sorted(te.limits.items())))
print(describe(te.store_and_extract_limits, ["g:x", "h:1"]))
print("ands=%r limits=%r" % (te.ands, sorted(te.limits.items())))

# ---------------------------------------------------------------------------
print("== SECTION 4: check() with assorted tag containers")
EXPRS = [[], ["a"], ["-a"], ["a,b"], ["a", "b"], ["-a,b", "c"], ["-a", "-b"],
         ["~a,-b,c", "a,b"], ["--a"], ["-"], ["a,-a"], ["a", "-a"]]
CONTAINERS = [[], (), set(), frozenset(["a"]), ["a", "a"], ("a", "b"),
              iter(["a", "c"]), {"a": 1, "b": 2}, "abc", "a", ["-a"], ["", "a"],
              [u"a", u"b", u"c"], None, 5, [["a"]]]
for parts in EXPRS:
    e = TagExpression(parts)
    for container in CONTAINERS:
        shown = "iter(['a','c'])" if not isinstance(
            container, (list, tuple, set, frozenset, dict, str, int, type(None))) \
            else repr(sorted(container) if isinstance(container, (set, frozenset)) else container)
        if not isinstance(container, (list, tuple, set, frozenset, dict, str, int, type(None))):
            container = iter(["a", "c"])
        print("check %r on %s = %s" % (parts, shown, describe(e.check, container)))


class LoggingTags(object):
    """Records how the tag container is consumed."""
    def __init__(self, tags, log):
        self.tags = tags
        self.log = log

    def __iter__(self):
        self.log.append("iter")
        for t in self.tags:
            self.log.append("yield %s" % t)
            yield t


for parts in EXPRS:
    log = []
    e = TagExpression(parts)
    print("check %r on LoggingTags = %s log=%r" % (
        parts, describe(e.check, LoggingTags(["a", "c"], log)), log))

# ---------------------------------------------------------------------------
print("== SECTION 5: dialect auto-detection")
NAMES = {_parse_tag_expression_v1: "v1", _parse_tag_expression_v2: "v2"}


def selected(source):
    try:
        return NAMES[_select_tag_expression_parser4auto(source)]
    except BaseException as e:  # noqa
        return "EXC %s: %s" % (type(e).__name__, e)


AUTO_CASES = [
    "", " ", "a", "@a", "-a", "~a", "-@a", "~@a", "a b", "@a @b", "a,b", "@a,@b",
    "a, b", "a ,b", "-a,b", "a,-b", "a -b", "a ~b", "~a ~b", "a and b",
    "a or b", "not a", "not a and b", "a and not b", "(a)", "(a or b)",
    "(a or b) and c", "not (a or b)", "not(a)", "a and(b)", "-a and b",
    "~a or b", "a and -b", "a or ~b", "not -a", "(-a)", "( -a )", "(~@a)",
    "-(a)", "~(a or b)", "a,b and c", "a,b or c", "a,not", "a,b c", "-a,b c,d",
    "or", "and", "not", "(", ")", "()", "or a", "a or", "and and", "origin",
    "android", "nothing", "fnord", "-origin", "~android", "origin android",
    "origin,android", "or,and", "a,or", "or,a", "-or", "~not", "-not a",
    "a.*", "a*", "*a", "a?", "a.?", "*", "?", "a* b", "a*,b", "-a*", "~a?",
    "a[bc]", "a.* and b", "a.*,b", "fo?o bar", "a-b", "a~b", "a-b c", "a~b,c",
    "a-b and c", "a@b", "@a@b", "a:1", "-a:1", "a:1 b", "a:1,b:2", "a:1 and b",
    "@-a", "@~a", "@-a and b", "@a and @b", "@a or not @b", "(@a)", "not @a",
    "-@a and @b", "a  b", "a\tb", "a\nb", " a", "a ", " -a ", "a(b)", "a(b",
    "a)b", "-a(b)", "a ( b", "a,(b)", "(a,b)", "-(", "~)", "AND", "Or", "NOT",
    "a AND b", "a Or b", "-a AND b", u"ä", u"-ä", u"ä and b",
    u"~ä or b", "a -", "a ~", "- a", "~ a", "- and", "a and -", "--a",
    "--a and b", "a,-", "a,~b", "a,-b and c", "x,-y or z", "not a,b",
    "a\\*", "a b c d e", "a,b,c,d", "a and b or c", "a and (b or not c)",
]
for case in AUTO_CASES:
    print("select(%r) = %s" % (case, selected(case)))
    words = case.split()
    if len(words) > 1:
        print("select(%r) = %s" % (words, selected(words)))
        print("select(%r) = %s" % (tuple(words), selected(tuple(words))))
for odd in [None, 5, 5.0, b"a b", {"a": 1}, set(["a"]), iter(["a"]), [], (),
            [""], ["a"], ["-a"], ["a", "-b"], ["a and b"], ["a", "not b"],
            ["a or b", "-c"], ["(a)", "b"], [1], ["a", None], [["a"]],
            ["a,b", "c.*"], ["-a,b", "c?"]]:
    print("select(%r) = %s" % ("iter" if hasattr(odd, "__next__") else odd, selected(odd)))

print("-- evaluation under each protocol")
for case in AUTO_CASES:
    for proto in (TagExpressionProtocol.AUTO_DETECT, TagExpressionProtocol.V1,
                  TagExpressionProtocol.V2, TagExpressionProtocol.STRICT,
                  TagExpressionProtocol.DEFAULT):
        show_expression("EVAL", case, proto)
for odd in [None, 5, b"a b", {"a": 1}, [], (), ["a"], ["a", "-b"], ["a", "not b"],
            ["a or b", "-c"], [1], ["a", None]]:
    for proto in (TagExpressionProtocol.AUTO_DETECT, TagExpressionProtocol.V1,
                  TagExpressionProtocol.V2):
        show_expression("ODD", odd, proto)

print("-- default protocol / current / use")
print("current:", TagExpressionProtocol.current().name)
show_expression("DEFAULT", "-a b", None) if False else None
for src in ["-a b", "a and b", "-a and b", ["a,b", "-c"]]:
    print("make(%r) = %s" % (src, describe(
        lambda s=src: (type(make_tag_expression(s)).__name__,
                       truth_table(make_tag_expression(s))))))
for name in ["v1", "V2", "auto_detect", "strict", "Strict", "default", "bogus", ""]:
    print("from_name(%r) = %s" % (name, describe(
        lambda n=name: TagExpressionProtocol.from_name(n).name)))
print("choices:", TagExpressionProtocol.choices())
for name in ["v1", "v2", "auto_detect"]:
    TagExpressionProtocol.use(name)
    print("use(%s) current=%s" % (name, TagExpressionProtocol.current().name))
    for src in ["-a b", "a and b", "-a and b", "a"]:
        print("  make(%r) = %s" % (src, describe(
            lambda s=src: (type(make_tag_expression(s)).__name__,
                           truth_table(make_tag_expression(s))))))
print("use(5):", describe(TagExpressionProtocol.use, 5))
TagExpressionProtocol.use(TagExpressionProtocol.DEFAULT)

# ---------------------------------------------------------------------------
print("== SECTION 6: word helpers")
WORD_LISTS = [[], [""], ["a"], ["or"], ["a", "or"], ["origin"], ["a,b"], [","],
              ["-a"], ["~a"], ["a-"], ["a", "~b"], ["a*"], ["a?"], ["a", "b.*"],
              ["(", "a", ")"], ["not", "not"], ("and",), ("a", "b"), ["-"],
              ["a", "", "b"], [u"ä"], ["-~"], ["~-"], "or", "a-b", ""]
KEYWORD_LISTS = [[], ["and", "or", "not", "(", ")"], [","], ["~", "-"], [""],
                 ["a"], ("or",), ["or", "or"], "or", ""]
for words in WORD_LISTS:
    print("wildcards(%r) = %s" % (words, describe(_any_word_contains_wildcards, words)))
    for keys in KEYWORD_LISTS:
        print("is_keyword(%r, %r) = %s" % (words, keys, describe(_any_word_is_keyword, words, keys)))
        print("contains_keyword(%r, %r) = %s" % (words, keys, describe(_any_word_contains_keyword, words, keys)))
        print("starts_with(%r, %r) = %s" % (words, keys, describe(_any_word_starts_with, words, keys)))
for words, keys in [([1], ["a"]), (["a"], [1]), (None, ["a"]), (["a"], None),
                    ([], [None])]:
    shown = (repr(words) if not hasattr(words, "__next__") else "iter", keys)
    for func in (_any_word_is_keyword, _any_word_contains_keyword, _any_word_starts_with):
        w = iter(["a", "or"]) if hasattr(words, "__next__") else words
        print("%s%r = %s" % (func.__name__, shown, describe(func, w, keys)))
print("== END")
