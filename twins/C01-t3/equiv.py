# -*- coding: UTF-8 -*-
"""
Equivalence transcript for property C01 (run verdict: no false green/red).

Builds a small behave project in a temp directory, runs
``python -m behave`` (PYTHONPATH=/tmp/wtT/C01) as a subprocess for a matrix
of feature sets / options / injected faults, and prints per run:

  * exit code
  * normalised stdout/stderr (durations and temp paths masked)
  * call log written by environment hooks, steps, cleanups and a recording
    formatter (every formatter callback with the statuses seen at that time)

Additionally runs a few in-process checks on the public model API
(ModelRunner.run_model return value, Status helpers).
"""
from __future__ import print_function
import os
import re
import shutil
import subprocess
import sys
import tempfile

WORKTREE = "/tmp/wtT/C01"
sys.path.insert(0, WORKTREE)
PYTHON = "/venv/bin/python"

# ---------------------------------------------------------------------------
# PROJECT FILES
# ---------------------------------------------------------------------------
ENVIRONMENT_PY = r'''
import os
from behave.model_core import Status

def _log(text):
    with open(os.environ["EQUIV_LOG"], "a") as f:
        f.write(text + "\n")

def _maybe_fail(context, hook_name, what=""):
    spec = context.config.userdata.get("fail_hook", "")
    for item in spec.split(","):
        if not item:
            continue
        name, _, kind = item.partition(":")
        if name == hook_name or name == "%s=%s" % (hook_name, what):
            if kind == "kbd":
                raise KeyboardInterrupt()
            elif kind == "assert":
                assert False, "hook-assert %s" % hook_name
            raise RuntimeError("hook-boom %s %s" % (hook_name, what))

def _cleanup_ok():
    _log("CLEANUP ok")

def _cleanup_bad():
    _log("CLEANUP bad")
    raise ValueError("cleanup-boom")

def before_all(context):
    _log("HOOK before_all")
    cleanup = context.config.userdata.get("cleanup", "")
    if "all_bad" in cleanup:
        context.add_cleanup(_cleanup_bad)
    if "all_ok" in cleanup:
        context.add_cleanup(_cleanup_ok)
    if "quiet_handler" in cleanup:
        context.on_cleanup_error = lambda ctx, func, exc: _log(
            "ON_CLEANUP_ERROR %s %s" % (func.__name__, exc))
    _maybe_fail(context, "before_all")

def after_all(context):
    _log("HOOK after_all aborted=%s failed=%s" % (context.aborted, context.failed))
    _maybe_fail(context, "after_all")

def before_feature(context, feature):
    _log("HOOK before_feature %s" % feature.name)
    cleanup = context.config.userdata.get("cleanup", "")
    if "feature_bad" in cleanup:
        context.add_cleanup(_cleanup_bad)
    if "skipme" in feature.tags:
        feature.skip("hook says so")
    _maybe_fail(context, "before_feature", feature.name)

def after_feature(context, feature):
    _log("HOOK after_feature %s status=%s" % (feature.name, feature.status.name))
    _maybe_fail(context, "after_feature", feature.name)

def before_rule(context, rule):
    _log("HOOK before_rule %s" % rule.name)
    _maybe_fail(context, "before_rule", rule.name)

def after_rule(context, rule):
    _log("HOOK after_rule %s status=%s" % (rule.name, rule.status.name))
    _maybe_fail(context, "after_rule", rule.name)

def before_scenario(context, scenario):
    _log("HOOK before_scenario %s" % scenario.name)
    cleanup = context.config.userdata.get("cleanup", "")
    if "scenario_bad" in cleanup and "cleanup" in scenario.tags:
        context.add_cleanup(_cleanup_bad)
    if "skipme" in scenario.tags:
        scenario.skip("hook says so")
    if "continue" in scenario.effective_tags:
        scenario.continue_after_failed_step = True
    _maybe_fail(context, "before_scenario", scenario.name)

def after_scenario(context, scenario):
    _log("HOOK after_scenario %s status=%s" % (scenario.name, scenario.status.name))
    _maybe_fail(context, "after_scenario", scenario.name)

def before_tag(context, tag):
    _log("HOOK before_tag %s" % tag)
    _maybe_fail(context, "before_tag", tag)

def after_tag(context, tag):
    _log("HOOK after_tag %s" % tag)
    _maybe_fail(context, "after_tag", tag)

def before_step(context, step):
    _log("HOOK before_step %s" % step.name)
    _maybe_fail(context, "before_step", step.name)

def after_step(context, step):
    _log("HOOK after_step %s status=%s" % (step.name, step.status.name))
    _maybe_fail(context, "after_step", step.name)
'''

STEPS_PY = r'''
import os
import sys
from behave import given, when, then, step
from behave.api.pending_step import StepNotImplementedError, PendingStepError

def _log(text):
    with open(os.environ["EQUIV_LOG"], "a") as f:
        f.write(text + "\n")

@step(u'a step passes')
def step_passes(context):
    _log("STEP passes")

@step(u'another step passes')
def step_passes2(context):
    _log("STEP passes2")
    print("captured-stdout-of-passing-step")

@step(u'a step fails')
def step_fails(context):
    _log("STEP fails")
    print("captured-stdout-of-failing-step")
    assert False, "XFAIL-STEP"

@step(u'a step fails without message')
def step_fails_nomsg(context):
    _log("STEP fails-nomsg")
    raise AssertionError()

@step(u'a step raises "{what}"')
def step_raises(context, what):
    _log("STEP raises %s" % what)
    if what == "KeyboardInterrupt":
        raise KeyboardInterrupt()
    raise RuntimeError(what)

@step(u'a step is pending')
def step_pending(context):
    _log("STEP pending")
    raise StepNotImplementedError(u"STEP: a step is pending")

@step(u'a step is pending without message')
def step_pending_nomsg(context):
    _log("STEP pending-nomsg")
    raise PendingStepError()

@step(u'a step skips the scenario')
def step_skips(context):
    _log("STEP skips")
    context.scenario.skip("step says so")

@step(u'a step with value "{value}"')
def step_value(context, value):
    _log("STEP value %s" % value)
    assert value != "bad", "bad value"
    if value == "boom":
        raise ValueError("boom value")

@step(u'a step adds a failing cleanup')
def step_adds_cleanup(context):
    _log("STEP adds failing cleanup")
    def bad_cleanup():
        _log("CLEANUP step-level bad")
        raise ValueError("step-cleanup-boom")
    context.add_cleanup(bad_cleanup)

@step(u'a step executes nested steps "{kind}"')
def step_nested(context, kind):
    _log("STEP nested %s" % kind)
    if kind == "ok":
        context.execute_steps(u"Given a step passes\nWhen another step passes")
    elif kind == "failing":
        context.execute_steps(u"Given a step passes\nWhen a step fails")
    else:
        context.execute_steps(u"Given an unknown nested step")
'''

FORMATTER_PY = r'''
import os
from behave.formatter.base import Formatter

def _log(text):
    with open(os.environ["EQUIV_LOG"], "a") as f:
        f.write(text + "\n")

class RecordingFormatter(Formatter):
    name = "recording"
    description = "records all formatter callbacks"

    def uri(self, uri):
        _log("FMT uri %s" % os.path.basename(uri))
    def feature(self, feature):
        _log("FMT feature %s" % feature.name)
    def rule(self, rule):
        _log("FMT rule %s" % rule.name)
    def background(self, background):
        _log("FMT background %s" % background.name)
    def scenario(self, scenario):
        _log("FMT scenario %s" % scenario.name)
    def step(self, step):
        _log("FMT step %s" % step.name)
    def match(self, match):
        _log("FMT match %s" % type(match).__name__)
    def result(self, step):
        message = (step.error_message or "").splitlines()
        _log("FMT result %s status=%s msg=%r" % (step.name, step.status.name, message))
    def eof(self):
        _log("FMT eof")
    def close(self):
        _log("FMT close")
        self.close_stream()
'''

FEATURES = {}

FEATURES["passing.feature"] = u'''
@f_pass
Feature: All passing
  Background: Common
    Given a step passes

  @s1
  Scenario: P1
    When another step passes
    Then a step passes

  Scenario Outline: PO-<value>
    When a step with value "<value>"
    Examples: E1
      | value |
      | one   |
      | two   |

  Rule: R1
    Scenario: P2
      Then a step passes
'''

FEATURES["failing.feature"] = u'''
@f_fail
Feature: With failures
  @fail
  Scenario: F1 assertion
    Given a step passes
    When a step fails
    Then a step passes
    And an undefined step after failure

  Scenario: F2 passing in between
    Given a step passes

  @fail
  Scenario: F3 raises
    Given a step raises "oops"
    Then a step passes

  @fail
  Scenario: F4 assertion without message
    Given a step fails without message

  @fail @continue
  Scenario: F5 continue after failed step
    Given a step fails
    When another step passes
    Then a step fails
'''

FEATURES["undefined.feature"] = u'''
Feature: Undefined and pending
  @undef
  Scenario: U1 undefined
    Given a step passes
    When this step is not defined
    Then a step passes
    And this one is also not defined

  @pending
  Scenario: U2 pending
    Given a step is pending
    Then a step passes

  @wip
  Scenario: U3 pending in wip
    Given a step is pending
    Then a step passes

  @pending
  Scenario: U4 pending without message
    Given a step is pending without message

  @wip
  Scenario: U5 pending without message in wip
    Given a step is pending without message
    Then another step passes
'''

FEATURES["outline.feature"] = u'''
Feature: Outline with failing row
  @outline
  Scenario Outline: O-<value>
    Given a step passes
    When a step with value "<value>"
    Then a step passes

    @good
    Examples: Good
      | value |
      | a     |
    @bad
    Examples: Bad
      | value |
      | bad   |
      | b     |
      | boom  |
      | c     |

  Scenario: After outline
    Given a step passes
'''

FEATURES["skipping.feature"] = u'''
Feature: Skipping
  Scenario: S1 step skips scenario
    Given a step passes
    When a step skips the scenario
    Then a step fails

  @skipme
  Scenario: S2 hook skips scenario
    Given a step fails

  Scenario: S3 no steps

  Scenario: S4 passes
    Given a step passes
'''

FEATURES["skipped_feature.feature"] = u'''
@skipme
Feature: Skipped by hook
  Scenario: SF1
    Given a step fails
'''

FEATURES["empty.feature"] = u'''
Feature: Empty feature
'''

FEATURES["abort.feature"] = u'''
Feature: Abort
  Scenario: A1 before
    Given a step passes

  Scenario: A2 interrupted
    Given a step passes
    When a step raises "KeyboardInterrupt"
    Then a step passes

  Scenario: A3 after
    Given a step passes
'''

FEATURES["cleanup.feature"] = u'''
Feature: Cleanups
  @cleanup
  Scenario: C1 cleanup registered by hook
    Given a step passes

  Scenario: C2 cleanup registered by step
    Given a step adds a failing cleanup
    Then a step passes

  Scenario: C3 passes
    Given a step passes
'''

FEATURES["nested.feature"] = u'''
Feature: Nested steps
  Scenario: N1 ok
    Given a step executes nested steps "ok"
  Scenario: N2 failing
    Given a step executes nested steps "failing"
    Then a step passes
  Scenario: N3 undefined
    Given a step executes nested steps "undefined"
'''

FEATURES["rules.feature"] = u'''
@f_rules
Feature: Rules
  Background: FB
    Given a step passes

  @r_ok
  Rule: OK rule
    Scenario: RS1
      Then a step passes

  @r_bad
  Rule: Bad rule
    Background: RB
      Given another step passes
    Scenario: RS2
      Then a step fails
    Scenario: RS3
      Then a step passes

  Rule: Empty rule
'''

FEATURES["broken.feature"] = u'''
Feature: Broken
  Scenario: B1
    Given a step passes
  Examples: misplaced
    | x |
'''


# ---------------------------------------------------------------------------
# HARNESS
# ---------------------------------------------------------------------------
class Project(object):
    def __init__(self):
        self.workdir = tempfile.mkdtemp(prefix="c01equiv_")
        self.log_file = os.path.join(self.workdir, "calls.log")
        features_dir = os.path.join(self.workdir, "features")
        steps_dir = os.path.join(features_dir, "steps")
        os.makedirs(steps_dir)
        self._write(os.path.join(features_dir, "environment.py"), ENVIRONMENT_PY)
        self._write(os.path.join(steps_dir, "steps.py"), STEPS_PY)
        self._write(os.path.join(self.workdir, "recording_formatter.py"), FORMATTER_PY)
        for name, text in FEATURES.items():
            self._write(os.path.join(features_dir, name), text)

    @staticmethod
    def _write(path, text):
        with open(path, "w") as f:
            f.write(text)

    def write(self, relpath, text):
        path = os.path.join(self.workdir, relpath)
        dirname = os.path.dirname(path)
        if not os.path.isdir(dirname):
            os.makedirs(dirname)
        self._write(path, text)

    def close(self):
        shutil.rmtree(self.workdir, ignore_errors=True)

    def normalize(self, text):
        text = text.replace(self.workdir, "<WORKDIR>")
        text = re.sub(r"\d+\.\d+s", "<T>s", text)
        text = re.sub(r'"duration": [0-9][0-9.e+-]*', '"duration": <T>', text)
        text = re.sub(r"Took \d+m", "Took <M>m", text)
        text = re.sub(r"0x[0-9a-fA-F]+", "0x<ADDR>", text)
        return text

    def behave(self, title, args, with_recorder=True, formatter="plain"):
        if os.path.exists(self.log_file):
            os.remove(self.log_file)
        env = dict(os.environ)
        env["PYTHONPATH"] = os.pathsep.join([WORKTREE, self.workdir])
        env["EQUIV_LOG"] = self.log_file
        env["PYTHONDONTWRITEBYTECODE"] = "1"
        env["PYTHONHASHSEED"] = "0"
        env.pop("BEHAVE_DEBUG", None)
        cmd = [PYTHON, "-m", "behave", "--no-color"]
        if with_recorder:
            # -- NOTE: Outfiles are assigned to formatters in order.
            cmd += ["-f", "recording_formatter:RecordingFormatter",
                    "-o", os.path.join(self.workdir, "recorder.out")]
        if formatter:
            cmd += ["-f", formatter]
        cmd += list(args)
        proc = subprocess.Popen(cmd, cwd=self.workdir, env=env,
                                stdout=subprocess.PIPE, stderr=subprocess.STDOUT,
                                universal_newlines=True)
        output, _ = proc.communicate()
        print("=" * 78)
        print("RUN: %s" % title)
        print("ARGS: %s" % " ".join(args))
        print("EXIT-CODE: %s" % proc.returncode)
        print("-- OUTPUT:")
        print(self.normalize(output).rstrip())
        print("-- CALL-LOG:")
        if os.path.exists(self.log_file):
            with open(self.log_file) as f:
                print(self.normalize(f.read()).rstrip())
        else:
            print("(none)")
        sys.stdout.flush()
        return proc.returncode


def hooks_matrix(project, features, hook_specs, extra_args=()):
    for spec in hook_specs:
        project.behave("fail_hook=%s on %s" % (spec, ",".join(features)),
                       ["-D", "fail_hook=%s" % spec] + list(extra_args) +
                       ["features/%s" % name for name in features])

# ---------------------------------------------------------------------------
# SPECIFIC PART: C01-t3 -- Step.run() (keep_going / failure details)
# ---------------------------------------------------------------------------
def inprocess_step_checks():
    from behave.configuration import Configuration
    from behave.runner import ModelRunner, Context
    from behave.parser import parse_feature
    from behave.step_registry import StepRegistry
    from behave.api.pending_step import StepNotImplementedError, PendingStepError

    calls = []
    registry = StepRegistry()

    def do_step(context, what):
        calls.append("step %s" % what)
        print("stdout of %s" % what)
        if what == "fails":
            assert False, "assert-message"
        elif what == "fails-nomsg":
            raise AssertionError()
        elif what == "raises":
            raise RuntimeError("runtime-message")
        elif what == "pending":
            raise StepNotImplementedError("pending-message")
        elif what == "pending-nomsg":
            raise PendingStepError()
        elif what == "interrupts":
            raise KeyboardInterrupt()
        elif what == "skips":
            context.scenario.skip("by step")
    registry.add_step_definition("step", u'it {what}', do_step)

    class Fmt(object):
        def match(self, match):
            calls.append("fmt.match %s" % type(match).__name__)
        def result(self, step):
            calls.append("fmt.result %s" % step.status.name)

    kinds = ["passes", "fails", "fails-nomsg", "raises", "pending",
             "pending-nomsg", "interrupts", "skips"]
    lines = [u"Feature: F", u"  Scenario: Normal"]
    lines += [u"    Given it %s" % kind for kind in kinds]
    lines += [u"    Given undefined thing"]
    lines += [u"  @wip", u"  Scenario: Wip"]
    lines += [u"    Given it %s" % kind for kind in kinds]
    lines += [u"    Given undefined thing"]
    text = u"\n".join(lines) + u"\n"

    def boom(context, step):
        calls.append("hook-boom")
        raise RuntimeError("hook boom")

    variants = [
        ("default", [], {}, {}),
        ("quiet", [], {}, {"quiet": True}),
        ("no-capture-arg", [], {}, {"capture": False}),
        ("quiet+no-capture-arg", [], {}, {"quiet": True, "capture": False}),
        ("dry-run", ["--dry-run"], {}, {}),
        ("no-capture-config", ["--no-capture", "--no-capture-stderr", "--no-logcapture"], {}, {}),
        ("before_step fails", [], {"before_step": boom}, {}),
        ("after_step fails", [], {"after_step": boom}, {}),
        ("both step hooks fail", [], {"before_step": boom, "after_step": boom}, {}),
    ]
    for title, args, hooks, kwargs in variants:
        feature = parse_feature(text, filename="f.feature")
        config = Configuration(command_args=["--no-color"] + args, load_config=False)
        config.reporters = []
        runner = ModelRunner(config, [feature], step_registry=registry)
        runner.formatters = [Fmt()]
        runner.hooks = dict(hooks)
        runner.context = Context(runner)
        runner.setup_capture()
        print("IN-PROCESS VARIANT: %s" % title)
        for scenario in feature.scenarios:
            runner.context._push("scenario")
            runner.context.scenario = scenario
            for step in scenario.steps:
                keep_going = step.run(runner, **kwargs)
                error_message = step.error_message
                print("  [%s] %s -> keep_going=%r status=%s has_failed=%r hook_failed=%r" % (
                    scenario.name, step.name, keep_going, step.status.name,
                    step.has_failed(), step.hook_failed))
                print("     duration_ok=%r exception=%r" % (
                    isinstance(step.duration, (int, float)) and step.duration >= 0,
                    type(step.exception).__name__ if step.exception else None))
                print("     error_message=%r" % (error_message,))
                print("     captured=%r" % (step.captured.make_report(),))
                print("     calls=%s" % " | ".join(calls))
                del calls[:]
                scenario.should_skip = False
                scenario.clear_status()
            runner.context._pop()
        print("  aborted=%r undefined=%d hook_failures=%d" % (
            runner.aborted, len(runner.undefined_steps), runner.hook_failures))


if __name__ == "__main__":
    project = Project()
    try:
        names = ["passing", "failing", "undefined", "nested", "abort",
                 "skipping", "outline"]
        for name in names:
            project.behave("feature %s" % name, ["features/%s.feature" % name])
        for name in ("failing", "undefined", "nested"):
            project.behave("feature %s (json)" % name,
                           ["features/%s.feature" % name], formatter="json")
            project.behave("feature %s (pretty)" % name,
                           ["features/%s.feature" % name], formatter="pretty")
        project.behave("no-capture", ["--no-capture", "features/failing.feature",
                                      "features/nested.feature"])
        project.behave("dry-run", ["--dry-run", "features/failing.feature",
                                   "features/undefined.feature"])
        project.behave("wip", ["--wip", "features/undefined.feature"])
        project.behave("stop", ["--stop", "features/failing.feature"])
        project.behave("junit", ["--junit", "--junit-directory=reports",
                                 "features/failing.feature"])
        hooks_matrix(project, ["passing", "failing"],
                     ["before_step", "after_step", "before_step=a step fails",
                      "after_step=a step fails", "after_step=another step passes",
                      "before_step:kbd", "after_step:assert"])
        project.behave("verbose step hook error",
                       ["-v", "-D", "fail_hook=after_step=a step fails",
                        "features/failing.feature"])
    finally:
        project.close()
    print("=" * 78)
    inprocess_step_checks()
