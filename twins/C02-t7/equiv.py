# -*- coding: UTF-8 -*-
"""
Equivalence transcript for property C02 (step execution: order,
outcome-to-status mapping, stop after first non-pass).

Runs generated features through behave's public model/runner API and prints
a canonical transcript: call log of the step functions, formatter event
sequence (with the step status seen at event time), final step/scenario
statuses, error messages (line numbers normalised), undefined steps.
"""
from __future__ import print_function
import sys
sys.path.insert(0, "/tmp/wtU/C02")

import io
import itertools
import logging
import os
import random
import re
import contextlib

os.chdir("/tmp/wtU/C02")

from behave.configuration import Configuration
from behave.parser import parse_feature
from behave.runner import ModelRunner
from behave.step_registry import StepRegistry
from behave.matchers import ParseMatcher, NoMatch, Match, MatchWithError
from behave.api.pending_step import StepNotImplementedError
from behave.api.async_step import async_run_until_complete
from behave.model_core import Status
from behave import model as behave_model

logging.getLogger("behave").addHandler(logging.NullHandler())
logging.getLogger("behave").propagate = False

OUT = io.StringIO()


def emit(text=u""):
    OUT.write(text)
    OUT.write(u"\n")


_RE_LINE = re.compile(r"line \d+")
_RE_ADDR = re.compile(r"0x[0-9a-fA-F]+")
_RE_PYLOC = re.compile(r"(\.py):\d+")


def norm(text):
    if text is None:
        return u"None"
    text = u"%s" % (text,)
    text = _RE_LINE.sub("line N", text)
    text = _RE_ADDR.sub("0xADDR", text)
    text = _RE_PYLOC.sub(r"\1:N", text)
    return text.replace("\n", "\\n")


# ---------------------------------------------------------------------------
# STEP LIBRARY: one generic step; behaviour looked up in PLAN at run time.
# ---------------------------------------------------------------------------
CALLS = []
PLAN = {}


def parse_boom(text):
    raise ValueError("cannot convert %r" % text)


parse_boom.pattern = r"\w+"
ParseMatcher.register_type(Boom=parse_boom)


class CustomPending(StepNotImplementedError):
    pass


def perform(context, ident, flavour):
    scenario = getattr(context, "scenario", None)
    scenario_name = scenario.name if scenario is not None else None
    CALLS.append((flavour, ident, scenario_name,
                  norm(context.text), context.table is not None))
    action = PLAN.get(ident, "pass")
    if callable(action):
        return action(context)
    if action == "pass":
        return
    if action == "fail":
        assert False, "boom-%s" % ident
    if action == "failnomsg":
        raise AssertionError()
    if action == "error":
        raise RuntimeError("error-%s" % ident)
    if action == "pending":
        raise StepNotImplementedError("todo-%s" % ident)
    if action == "pendingnomsg":
        raise CustomPending()
    if action == "skip":
        context.scenario.skip()
        return
    if action == "skipreason":
        context.scenario.skip("because-%s" % ident)
        return
    if action == "kbd":
        raise KeyboardInterrupt()
    if action == "print_fail":
        print("captured-output-%s" % ident)
        assert False, "boom-%s" % ident
    raise LookupError("unknown action %s" % action)


def step_sync(context, ident):
    perform(context, ident, "sync")


def step_positional(context, ident):
    perform(context, ident, "then")


async def _astep(context, ident):
    perform(context, ident, "async")


step_async = async_run_until_complete(_astep)


def step_conv(context, ident, value):
    perform(context, ident, "conv")     # never reached: conversion fails


def step_typed(context, ident, number):
    CALLS.append(("typed", ident, number, type(number).__name__))
    perform(context, ident, "typed")


def make_registry():
    registry = StepRegistry()
    registry.add_step_definition("step", u"s {ident:w}", step_sync)
    registry.add_step_definition("then", u"t {ident:w}", step_positional)
    registry.add_step_definition("step", u"a {ident:w}", step_async)
    registry.add_step_definition("given", u"c {ident:w} {value:Boom}", step_conv)
    registry.add_step_definition("when", u"n {ident:w} {number:d}", step_typed)
    return registry


# ---------------------------------------------------------------------------
# RECORDING FORMATTER
# ---------------------------------------------------------------------------
class Recorder(object):
    name = "recorder"

    def __init__(self, label, events):
        self.label = label
        self.events = events
        self.current_steps = []

    def _add(self, *parts):
        self.events.append((self.label,) + parts)

    def uri(self, uri):
        self._add("uri", uri)

    def feature(self, feature):
        self._add("feature", feature.name)

    def rule(self, rule):
        self._add("rule", rule.name)

    def background(self, background):
        self._add("background", background.name)

    def scenario(self, scenario):
        self.current_steps = []
        self._add("scenario", scenario.name)

    def step(self, step):
        self.current_steps.append(step)
        self._add("step", step.keyword, step.name, step.status.name)

    def match(self, match):
        kind = type(match).__name__
        func = getattr(match.func, "__name__", None)
        args = None
        if match.arguments is not None:
            args = [(a.name, a.value) for a in match.arguments]
        seen = [s.status.name for s in self.current_steps]
        self._add("match", kind, func, args, seen)

    def result(self, step):
        self._add("result", step.keyword, step.name, step.status.name,
                  norm(step.error_message))

    def eof(self):
        self._add("eof")

    def close(self):
        self._add("close")


# ---------------------------------------------------------------------------
# RUN SUPPORT
# ---------------------------------------------------------------------------
def make_config(dry_run=False, extra_args=None):
    args = ["--no-color"]
    if dry_run:
        args.append("--dry-run")
    if extra_args:
        args.extend(extra_args)
    config = Configuration(command_args=args, load_config=False)
    config.reporters = []
    config.format = []
    return config


def walk_scenarios(feature):
    for scenario in feature.walk_scenarios(with_outlines=False):
        yield scenario


def describe_step(step):
    return u"%s|%s|%s|hook_failed=%s|exc=%s|err=%s" % (
        step.keyword, step.name, step.status.name, step.hook_failed,
        type(step.exception).__name__, norm(step.error_message))


def describe_feature(feature):
    emit(u"  feature %r status=%s" % (feature.name, feature.status.name))
    for scenario in walk_scenarios(feature):
        emit(u"  scenario %r status=%s should_skip=%s skip_reason=%s "
             u"was_dry_run=%r hook_failed=%s" % (
                 scenario.name, scenario.status.name, scenario.should_skip,
                 scenario.skip_reason, bool(scenario.was_dry_run),
                 scenario.hook_failed))
        for step in scenario.all_steps:
            emit(u"    " + describe_step(step))
        bg_ids = [id(s) for s in scenario.background_steps]
        emit(u"    n_background_steps=%d distinct=%s" % (
            len(bg_ids), len(set(bg_ids)) == len(bg_ids)))


def run_feature(title, feature, plan, dry_run=False, continue_after=False,
                hooks=None, registry=None, n_formatters=1, extra_args=None,
                reset=False):
    """Run one feature object and emit the transcript."""
    del CALLS[:]
    PLAN.clear()
    PLAN.update(plan)
    events = []
    config = make_config(dry_run=dry_run, extra_args=extra_args)
    runner = ModelRunner(config, features=[feature],
                         step_registry=registry or make_registry())
    runner.formatters = [Recorder("F%d" % i, events)
                         for i in range(n_formatters)]
    if hooks:
        runner.hooks.update(hooks)
    for scenario in feature.walk_scenarios(with_outlines=True):
        if continue_after:
            scenario.continue_after_failed_step = True
        elif "continue_after_failed_step" in scenario.__dict__:
            del scenario.continue_after_failed_step
    if reset:
        feature.reset()

    emit(u"CASE %s dry_run=%s continue_after=%s" % (title, dry_run, continue_after))
    captured_stdout = io.StringIO()
    outcome = None
    with contextlib.redirect_stdout(captured_stdout):
        try:
            outcome = "returned %r" % (runner.run(),)
        except BaseException as e:      # noqa
            outcome = "raised %s: %s" % (type(e).__name__, norm(e))
    emit(u"  run: %s" % outcome)
    emit(u"  stdout: %s" % norm(captured_stdout.getvalue()))
    emit(u"  aborted=%s hook_failures=%s context.failed=%s" % (
        runner.aborted, runner.hook_failures, runner.context.failed))
    emit(u"  calls:")
    for call in CALLS:
        emit(u"    %r" % (call,))
    emit(u"  events:")
    for event in events:
        emit(u"    %r" % (event,))
    emit(u"  undefined_steps: %r" % (
        [(s.keyword, s.name, s.status.name) for s in runner.undefined_steps],))
    describe_feature(feature)
    return runner


# ---------------------------------------------------------------------------
# FEATURE GENERATION
# ---------------------------------------------------------------------------
KIND_TEXT = {
    # kind -> (step text template, plan action or None)
    "pass": (u"s {i}", "pass"),
    "fail": (u"s {i}", "fail"),
    "failnomsg": (u"s {i}", "failnomsg"),
    "error": (u"s {i}", "error"),
    "pending": (u"s {i}", "pending"),
    "pendingnomsg": (u"s {i}", "pendingnomsg"),
    "undefined": (u"zz undefined {i}", None),
    "skip": (u"s {i}", "skip"),
    "skipreason": (u"s {i}", "skipreason"),
    "kbd": (u"s {i}", "kbd"),
    "conv": (u"c {i} xyz", None),
    "apass": (u"a {i}", "pass"),
    "afail": (u"a {i}", "fail"),
    "aerror": (u"a {i}", "error"),
    "apending": (u"a {i}", "pending"),
    "askip": (u"a {i}", "skip"),
    "tpass": (u"t {i}", "pass"),
    "typed": (u"n {i} 42", "pass"),
    "print_fail": (u"s {i}", "print_fail"),
}
KEYWORDS = {"conv": u"Given", "tpass": u"Then", "typed": u"When"}


class Builder(object):
    def __init__(self):
        self.counter = 0
        self.plan = {}

    def step_lines(self, kinds, indent=u"    "):
        lines = []
        for kind in kinds:
            self.counter += 1
            ident = u"x%d" % self.counter
            template, action = KIND_TEXT[kind]
            if action is not None:
                self.plan[ident] = action
            keyword = KEYWORDS.get(kind, u"Given" if not lines else u"And")
            if kind in KEYWORDS and lines:
                keyword = KEYWORDS[kind]
            lines.append(u"%s%s %s" % (indent, keyword, template.format(i=ident)))
        return lines


def build_feature(own_kinds_list, feature_bg=None, rule_bg=None, tags=(),
                  name=u"F", outline_rows=0, scenario_tags=()):
    """own_kinds_list: list of kind-sequences, one scenario per entry."""
    b = Builder()
    lines = []
    if tags:
        lines.append(u" ".join(u"@" + t for t in tags))
    lines.append(u"Feature: %s" % name)
    if feature_bg is not None:
        lines.append(u"  Background: fbg")
        lines.extend(b.step_lines(feature_bg))
    indent = u"    "
    if rule_bg is not None:
        lines.append(u"  Rule: R1")
        lines.append(u"    Background: rbg")
        lines.extend(b.step_lines(rule_bg, indent=u"      "))
        indent = u"      "
    for index, kinds in enumerate(own_kinds_list):
        if scenario_tags:
            lines.append(indent[:-2] + u" ".join(u"@" + t for t in scenario_tags))
        if outline_rows:
            lines.append(indent[:-2] + u"Scenario Outline: SO%d <row>" % index)
        else:
            lines.append(indent[:-2] + u"Scenario: S%d" % index)
        lines.extend(b.step_lines(kinds, indent=indent))
        if outline_rows:
            lines.append(indent + u"Examples: E")
            lines.append(indent + u"  | row |")
            for r in range(outline_rows):
                lines.append(indent + u"  | r%d |" % r)
    text = u"\n".join(lines) + u"\n"
    feature = parse_feature(text, filename=u"gen.feature")
    return feature, b.plan, text


# ---------------------------------------------------------------------------
# SECTIONS
# ---------------------------------------------------------------------------
MAIN_KINDS = ["pass", "fail", "error", "pending", "undefined", "skip", "kbd",
              "conv"]


def section_exhaustive():
    emit(u"== SECTION exhaustive: sequences up to length 3, no background")
    for length in (0, 1, 2, 3):
        for seq in itertools.product(MAIN_KINDS, repeat=length):
            for wip in (False, True):
                for dry_run in (False, True):
                    if length == 3 and dry_run and wip:
                        continue
                    feature, plan, _ = build_feature(
                        [list(seq)], scenario_tags=("wip",) if wip else ())
                    title = u"exh %s wip=%s" % (u",".join(seq), wip)
                    run_feature(title, feature, plan, dry_run=dry_run)
    emit(u"== SECTION exhaustive/continue_after_failed_step, length 1..3")
    for length in (1, 2, 3):
        for seq in itertools.product(MAIN_KINDS, repeat=length):
            feature, plan, _ = build_feature([list(seq)])
            run_feature(u"cont %s" % u",".join(seq), feature, plan,
                        continue_after=True)


def section_backgrounds():
    emit(u"== SECTION backgrounds: 1 and 2 inherited levels")
    kinds = ["pass", "fail", "error", "pending", "undefined", "skip", "conv"]
    for fbg in kinds:
        for own in kinds:
            for dry_run in (False, True):
                feature, plan, _ = build_feature(
                    [["pass", own], [own, "pass"]], feature_bg=[fbg, "pass"])
                run_feature(u"bg1 fbg=%s own=%s" % (fbg, own), feature, plan,
                            dry_run=dry_run)
    for fbg in kinds:
        for rbg in kinds:
            for own in ("pass", "fail", "undefined"):
                feature, plan, _ = build_feature(
                    [[own, "pass"], ["pass", "undefined", own]],
                    feature_bg=[fbg], rule_bg=["pass", rbg])
                run_feature(u"bg2 fbg=%s rbg=%s own=%s" % (fbg, rbg, own),
                            feature, plan)
    # -- rule background only, empty scenario, scenario without own steps
    feature, plan, _ = build_feature([[], ["pass"]], rule_bg=["pass", "fail"])
    run_feature(u"bg rule-only", feature, plan)
    feature, plan, _ = build_feature([[], []], feature_bg=["pass"], rule_bg=[])
    run_feature(u"bg empty-rule-bg", feature, plan)
    run_feature(u"bg empty-rule-bg dry", feature, plan, dry_run=True)


def section_outlines():
    emit(u"== SECTION outlines")
    for own in (["pass", "fail", "pass"], ["undefined", "pass"],
                ["pass", "skip", "undefined"], ["apass", "afail", "pass"]):
        for dry_run in (False, True):
            feature, plan, _ = build_feature(
                [own, ["pass"]], feature_bg=["pass"], rule_bg=["pass"],
                outline_rows=2)
            run_feature(u"outline %s" % u",".join(own), feature, plan,
                        dry_run=dry_run)
    # -- parametrized background step
    text = u"""
Feature: PB
  Background: fbg
    Given s bg_<row>
    And s bgplain

  Scenario Outline: SO <row>
    Given s own_<row>
    When s tail
    Examples: E
      | row |
      | r0  |
      | r1  |
"""
    for plan in ({}, {"bg_r1": "fail"}, {"own_r0": "error", "bgplain": "skip"}):
        feature = parse_feature(text, filename=u"pb.feature")
        run_feature(u"outline parametrized-bg %r" % sorted(plan.items()),
                    feature, plan)


def section_flavours():
    emit(u"== SECTION flavours: async, typed, no-message, multi-formatter")
    seqs = [
        ["apass", "afail", "pass"], ["aerror", "apass"], ["apending", "pass"],
        ["askip", "pass", "undefined"], ["failnomsg", "pass"],
        ["pendingnomsg", "pass"], ["skipreason", "pass"],
        ["tpass", "typed", "pass"], ["typed", "fail", "tpass"],
        ["print_fail", "undefined", "pass", "undefined"],
        ["pass", "pass", "pass", "pass"],
    ]
    for seq in seqs:
        for wip in (False, True):
            for dry_run in (False, True):
                feature, plan, _ = build_feature(
                    [seq], scenario_tags=("wip",) if wip else ())
                run_feature(u"flav %s wip=%s" % (u",".join(seq), wip),
                            feature, plan, dry_run=dry_run, n_formatters=2)
    # -- feature-level @wip is inherited by the scenario
    feature, plan, _ = build_feature([["pending", "pass"]], tags=("wip",))
    run_feature(u"flav feature-wip", feature, plan)
    # -- text and table are handed to the step
    text = u'''
Feature: TT
  Scenario: S
    Given s withtext
      """
      hello
      """
    And s withtable
      | a | b |
      | 1 | 2 |
    And s plain
'''
    feature = parse_feature(text, filename=u"tt.feature")
    run_feature(u"flav text/table", feature, {})
    run_feature(u"flav text/table fail", feature, {"withtext": "fail"})


def section_repeated():
    emit(u"== SECTION repeated runs of the same feature object")
    feature, plan, _ = build_feature(
        [["pass", "fail", "undefined", "pass"], ["pass", "skip", "pass"]],
        feature_bg=["pass"], rule_bg=["pass"])
    run_feature(u"rep 1", feature, plan)
    plan2 = dict((k, "pass") for k in plan)
    run_feature(u"rep 2 all-pass", feature, plan2, reset=True)
    run_feature(u"rep 3 no-reset", feature, plan)
    run_feature(u"rep 4 dry", feature, plan, dry_run=True, reset=True)
    run_feature(u"rep 5 after-dry", feature, plan2, reset=True)
    plan3 = dict(plan2)
    plan3["x1"] = "error"       # feature background step now breaks
    run_feature(u"rep 6 bg-error", feature, plan3, reset=True)
    run_feature(u"rep 7 cont", feature, plan, continue_after=True, reset=True)
    run_feature(u"rep 8", feature, plan, reset=True)


def section_hooks():
    emit(u"== SECTION hooks: skip via hook, hook errors, tags excluded")
    def before_scenario_skip(context, scenario):
        if scenario.name == "S0":
            scenario.mark_skipped()

    def before_step_boom(context, step):
        if step.name.endswith("x2"):
            raise RuntimeError("before_step-boom")

    def after_step_boom(context, step):
        if step.name.endswith("x2"):
            raise RuntimeError("after_step-boom")

    def before_scenario_boom(context, scenario):
        raise RuntimeError("before_scenario-boom")

    def after_step_peek(context, step):
        CALLS.append(("after_step", step.name, step.status.name))

    def before_step_peek(context, step):
        CALLS.append(("before_step", step.name, step.status.name))

    hook_sets = [
        ("skip-hook", {"before_scenario": before_scenario_skip}),
        ("before_step-boom", {"before_step": before_step_boom,
                              "after_step": after_step_peek}),
        ("after_step-boom", {"after_step": after_step_boom}),
        ("before_scenario-boom", {"before_scenario": before_scenario_boom}),
        ("peek", {"before_step": before_step_peek,
                  "after_step": after_step_peek}),
    ]
    for label, hooks in hook_sets:
        for seq in (["pass", "pass", "pass"], ["pass", "fail", "undefined"],
                    ["undefined", "pass"]):
            for dry_run in (False, True):
                feature, plan, _ = build_feature([seq, ["pass"]],
                                                 feature_bg=["pass"])
                run_feature(u"hook %s %s" % (label, u",".join(seq)), feature,
                            plan, hooks=hooks, dry_run=dry_run)
    # -- scenario excluded by tag expression, with and without show-skipped
    for extra in (["--tags=not @skipme"], ["--tags=not @skipme", "--no-skipped"]):
        feature, plan, _ = build_feature([["pass", "undefined"], []],
                                         scenario_tags=("skipme",),
                                         feature_bg=["pass"])
        run_feature(u"excluded %s" % extra, feature, plan, extra_args=extra)


def section_random(seed=20240917, count=150):
    emit(u"== SECTION random longer sequences")
    rnd = random.Random(seed)
    kinds = MAIN_KINDS + ["apass", "afail", "pass", "pass", "pass", "typed",
                          "tpass", "failnomsg", "pendingnomsg"]
    for n in range(count):
        def seq(lo, hi):
            return [rnd.choice(kinds) for _ in range(rnd.randint(lo, hi))]
        fbg = seq(0, 3) if rnd.random() < 0.6 else None
        rbg = seq(0, 3) if rnd.random() < 0.5 else None
        scenarios = [seq(0, 7) for _ in range(rnd.randint(1, 3))]
        wip = rnd.random() < 0.3
        feature, plan, _ = build_feature(
            scenarios, feature_bg=fbg, rule_bg=rbg,
            scenario_tags=("wip",) if wip else (),
            outline_rows=rnd.choice([0, 0, 2]))
        run_feature(u"rnd %d wip=%s" % (n, wip), feature, plan,
                    dry_run=rnd.random() < 0.25,
                    continue_after=rnd.random() < 0.25)


def extra_sections():
    """C02-t7: StepRegistry.find_match / find_step_definition."""
    from behave.matchers import Matcher
    from behave.model import Step

    emit(u"== SECTION t7: precedence typed definitions before generic ones")
    def given_special(context, ident):
        perform(context, ident, "given-special")

    def when_special(context, ident):
        perform(context, ident, "when-special")

    def make_registry2():
        registry = make_registry()
        registry.add_step_definition("given", u"s {ident:w}", given_special)
        registry.add_step_definition("when", u"s {ident:w}", when_special)
        registry.add_step_definition("given", u"s conv {value:Boom}", step_conv)
        return registry

    text = u"""
Feature: P
  Background: fbg
    Given s b1
    When s b2
    Then s b3
  Scenario: S
    Given s o1
    And s o2
    When s o3
    But s o4
    Then s o5
    * s o6
    Given s conv zzz
    Then s o7
    And zz nothing
"""
    for plan in ({}, {"o2": "fail"}, {"b2": "error"}, {"o3": "pending"},
                 {"o6": "skip"}):
        for dry_run in (False, True):
            feature = parse_feature(text, filename=u"p.feature")
            run_feature(u"t7 precedence %r" % sorted(plan.items()), feature,
                        plan, dry_run=dry_run, registry=make_registry2())

    emit(u"== SECTION t7: direct lookups")
    class CountingMatcher(Matcher):
        log = []

        def __init__(self, func, pattern, step_type=None, answer=None):
            Matcher.__init__(self, func, pattern, step_type)
            self.answer = answer

        def compile(self):
            return self

        def check_match(self, step_text):
            self.log.append((self.pattern, step_text))
            if isinstance(self.answer, BaseException):
                raise self.answer
            return self.answer

    def func_a(context): pass
    def func_b(context): pass
    def func_c(context): pass

    def describe_match(match):
        if match is None:
            return u"None"
        return u"%s(func=%s, args=%r)" % (
            type(match).__name__, getattr(match.func, "__name__", None),
            match.arguments and [(a.name, a.value, a.original)
                                 for a in match.arguments])

    def describe_definition(step_definition):
        if step_definition is None:
            return u"None"
        return u"%s(%s %r)" % (type(step_definition).__name__,
                               step_definition.step_type,
                               step_definition.pattern)

    layouts = {
        "empty": {},
        "given-only-nomatch": {"given": [("g1", None)]},
        "given-first-hit": {"given": [("g1", []), ("g2", [])],
                            "step": [("s1", [])]},
        "given-miss-step-hit": {"given": [("g1", None), ("g2", None)],
                                "step": [("s1", None), ("s2", []), ("s3", [])]},
        "all-miss": {"given": [("g1", None)], "when": [("w1", [])],
                     "step": [("s1", None)]},
        "value-error-first": {"given": [("g1", ValueError("bad-g1")), ("g2", [])]},
        "value-error-later": {"given": [("g1", None)],
                              "step": [("s1", TypeError("bad-s1")), ("s2", [])]},
        "not-implemented": {"given": [("g1", None),
                                      ("g2", NotImplementedError("nope")),
                                      ("g3", [])]},
        "then-empty-step-full": {"step": [("s1", None), ("s2", [])]},
    }
    for layout_name in sorted(layouts):
        layout = layouts[layout_name]
        registry = StepRegistry()
        funcs = itertools.cycle([func_a, func_b, func_c])
        for step_type, entries in sorted(layout.items()):
            for pattern, answer in entries:
                registry.steps[step_type].append(
                    CountingMatcher(next(funcs), pattern, step_type, answer))
        sizes_before = dict((k, len(v)) for k, v in registry.steps.items())
        ids_before = dict((k, id(v)) for k, v in registry.steps.items())
        for step_type in ("given", "when", "then", "step", "bogus"):
            step = Step(u"d.feature", 1, step_type.title(), step_type, u"some text")
            for method_name in ("find_match", "find_step_definition"):
                del CountingMatcher.log[:]
                method = getattr(registry, method_name)
                try:
                    result = method(step)
                    if method_name == "find_match":
                        outcome = describe_match(result)
                    else:
                        outcome = describe_definition(result)
                except Exception as e:      # noqa
                    outcome = u"raised %s: %s" % (type(e).__name__, e)
                emit(u"LOOKUP %s %s(%s) -> %s" % (layout_name, method_name,
                                                  step_type, outcome))
                emit(u"    tried=%r" % (CountingMatcher.log,))
        sizes_after = dict((k, len(v)) for k, v in registry.steps.items())
        ids_after = dict((k, id(v)) for k, v in registry.steps.items())
        emit(u"LOOKUP %s registry-unchanged sizes=%s lists=%s" % (
            layout_name, sizes_before == sizes_after, ids_before == ids_after))

    emit(u"== SECTION t7: registration API still works (decorators, ambiguity)")
    from behave.step_registry import AmbiguousStep
    registry = StepRegistry()
    decorators = {}
    from behave.step_registry import setup_step_decorators
    setup_step_decorators(decorators, registry)
    emit(u"decorators=%r" % (sorted(decorators),))
    decorators["given"](u"a thing {x:d}")(func_a)
    decorators["Step"](u"a thing {x:d}")(func_b)
    try:
        decorators["Given"](u"a thing 12")(func_c)
    except AmbiguousStep as e:
        emit(u"AmbiguousStep: %s" % norm(e))
    for step_type in ("given", "when", "step"):
        step = Step(u"d.feature", 1, step_type.title(), step_type, u"a thing 12")
        emit(u"decorated %s -> %s / %s" % (
            step_type, describe_match(registry.find_match(step)),
            describe_definition(registry.find_step_definition(step))))
        step = Step(u"d.feature", 1, step_type.title(), step_type, u"a thing xx")
        emit(u"decorated-miss %s -> %s / %s" % (
            step_type, describe_match(registry.find_match(step)),
            describe_definition(registry.find_step_definition(step))))
    import behave.step_registry as step_registry_module
    emit(u"__all__=%r" % (step_registry_module.__all__,))


def main():
    section_exhaustive()
    section_backgrounds()
    section_outlines()
    section_flavours()
    section_repeated()
    section_hooks()
    section_random()
    extra_sections()
    sys.stdout.write(OUT.getvalue())


if __name__ == "__main__":
    main()
