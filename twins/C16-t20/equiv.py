# -*- coding: UTF-8 -*-
"""
Equivalence transcript for the JUnit reporter (property C16).

PART A: calls the module-level helpers and reporter methods directly.
PART B: runs `python -m behave --junit` as a subprocess on a generated project
        with hostile names / messages / captured output, for several
        combinations of show_skipped and behave.reporter.junit.* userdata
        switches, then dumps the raw report files (volatile parts scrubbed)
        and a canonical rendering obtained with an independent XML parser
        (xml.dom.minidom / expat).
"""
from __future__ import absolute_import, print_function, unicode_literals
import io
import os
import re
import shutil
import subprocess
import sys
import tempfile

WORKTREE = "/tmp/wtW/C16"
sys.path.insert(0, WORKTREE)
os.chdir(WORKTREE)     # -- DETERMINISTIC: relative paths in PART A

import behave                                           # noqa: E402
from behave.reporter import junit                       # noqa: E402
from behave.reporter.junit import (                     # noqa: E402
    JUnitReporter, FeatureReportData, CDATA, escape_CDATA,
    _escape_invalid_xml_chars)
from behave.formatter import ansi_escapes               # noqa: E402
from behave.model_core import Status, FileLocation      # noqa: E402
from behave.model import Step                           # noqa: E402
from xml.etree import ElementTree                       # noqa: E402
from xml.dom import minidom                             # noqa: E402

assert behave.__file__.startswith(WORKTREE), behave.__file__

OUT = io.open(sys.stdout.fileno(), "w", encoding="utf-8", closefd=False)


def emit(*parts):
    OUT.write(u" ".join(parts))
    OUT.write(u"\n")


def show(value):
    """ASCII-only, unambiguous rendering of a value."""
    return ascii(value)


# ---------------------------------------------------------------------------
# PART A: direct calls
# ---------------------------------------------------------------------------
HOSTILE = [
    None, u"", u"plain", u"]]>", u"]]>]]>", u"a]]>b]]", u"]]", u"<&>\"'",
    u"\x00", u"\x01\x02\x08", u"\t\n\r", u"\x0b\x0c\x0e\x1f", u"\x7f\x80\x84",
    u"\x85", u"\x86\x9f", u"\xa0\xe9", u"\ud7ff", u"\ue000", u"\ufdcf\ufdd0",
    u"\ufddf\ufde0", u"\ufffd\ufffe\uffff", u"\U00010000", u"\U0001F600",
    u"\U0001fffd\U0001fffe\U0001ffff", u"\U0002fffe", u"\U0008ffff",
    u"\U000ffffe\U000fffff", u"\U0010fffd\U0010fffe\U0010ffff",
    u"\x1b[31mred\x1b[0m", u"\x1b[1A", u"\x1b[12;3H", u"\x1b", u"\x1b[m",
    u"mixed \x01]]>\x1b[32m<ok>\x1b[0m \ufffe \U0001F600 ]]>",
    u"".join(chr(i) for i in range(0, 0x120)),
]


def part_a():
    emit(u"== A1: invalid-char regex")
    emit(u"pattern:", show(junit._invalid_re.pattern))
    emit(u"flags:", show(junit._invalid_re.flags))
    emit(u"== A2: _escape_invalid_xml_chars / escape_CDATA / strip_escapes / CDATA")
    for text in HOSTILE:
        emit(u"input:", show(text))
        for func in (_escape_invalid_xml_chars, escape_CDATA,
                     ansi_escapes.strip_escapes):
            try:
                result = show(func(text))
            except Exception as e:      # pylint: disable=broad-except
                result = u"EXC %s: %s" % (e.__class__.__name__, e)
            emit(u"  %s ->" % func.__name__, result)
        try:
            element = CDATA(text)
            holder = ElementTree.Element(u"system-out")
            holder.append(element)
            data = ElementTree.tostring(holder, encoding="unicode")
            result = u"%s %s %s" % (show(element.tag), show(element.text),
                                    show(data))
        except Exception as e:      # pylint: disable=broad-except
            result = u"EXC %s: %s" % (e.__class__.__name__, e)
        emit(u"  CDATA ->", result)
    # -- every single code point of the BMP borders and plane borders
    emit(u"== A3: per code point classification")
    points = list(range(0, 0x130)) + list(range(0xD7F0, 0xE010)) + \
        list(range(0xFDC0, 0xFDF0)) + list(range(0xFFF0, 0x10010))
    for plane in range(1, 0x11):
        points.extend(range((plane << 16) + 0xFFF0, (plane << 16) + 0x10000))
        if plane < 0x10:
            points.extend(range((plane + 1) << 16, ((plane + 1) << 16) + 4))
    replaced = []
    for point in points:
        result = _escape_invalid_xml_chars(chr(point))
        if result != chr(point):
            replaced.append(u"%X=%s" % (point, result))
    emit(u"replaced:", u" ".join(replaced))

    emit(u"== A4: FeatureReportData")
    for args in [(u"F", u"a/b/c"), (u"F", u"a/b/c", u"given"), (u"F", None),
                 (u"F", u""), (u"F", u"x", u""), (None, u"p.q/r")]:
        data = FeatureReportData(*args)
        emit(show(args), u"->", show(list(data.__dict__.items())))
        data.testcases.append(1)
        data.counts_tests += 3
        data.counts_errors += 1
        data.counts_failed += 2
        data.counts_skipped += 5
        first = data.testcases
        data.reset()
        emit(u"   after reset:", show(list(data.__dict__.items())),
             show(first), show(first is data.testcases))

    emit(u"== A5: reporter methods with a stub config")

    class Config(object):
        def __init__(self, paths, base_dir, show_skipped=True, userdata=None):
            self.paths = paths
            self.base_dir = base_dir
            self.show_skipped = show_skipped
            self.userdata = userdata or {}
            self.junit_directory = "reports"

    class Feature(object):
        def __init__(self, filename, name=u"N"):
            self.filename = filename
            self.location = FileLocation(filename, 1)
            self.name = name

    cases = [
        ([u"features"], u"/base", u"features/a.feature"),
        ([u"features"], u"/base", u"features/sub/a.b.feature"),
        ([u"features"], u"/base", u"features\\sub\\a.feature"),
        ([u"features"], u"/base", u"features"),
        ([u"features"], u"/base", u"features/"),
        ([u"features"], u"/base", u"features/noext"),
        ([u"features"], u"/base", u"featuresX/a.feature"),
        ([u"other", u"features/sub", u"features"], u"/base",
         u"features/sub/x.feature"),
        ([u"other", u"features", u"features/sub"], u"/base",
         u"features/sub/x.feature"),
        ([u"other"], u"/base", u"features/sub/x.feature"),
        ([u"other"], u"/base", u"/base/features/sub/x.y.feature"),
        ([], u"/base", u"/base/features/x.feature"),
        ([], u"/base", u"/elsewhere/x.feature"),
        ([u"/base/features"], u"/base", u"/base/features/.hidden"),
        ([u"/base/features"], u"/base", u"/base/features/.feature"),
        ([u"a", u"a"], u"/base", u"a"),
        ([u"a", u"a/b"], u"/base", u"a"),
        ([u""], u"/base", u"x/y.feature"),
        ([u"x"], u"/base", u"x/\xe9\u20ac.feature"),
    ]
    for paths, base_dir, filename in cases:
        reporter = JUnitReporter(Config(paths, base_dir))
        try:
            result = show(reporter.make_feature_filename(Feature(filename)))
        except Exception as e:      # pylint: disable=broad-except
            result = u"EXC %s: %s" % (e.__class__.__name__, e)
        emit(show(paths), show(base_dir), show(filename), u"->", result)

    for userdata in [{}, {"behave.reporter.junit.show_skipped_always": "true"},
                     {"behave.reporter.junit.show_timings": "no",
                      "behave.reporter.junit.show_multiline": "off",
                      "behave.reporter.junit.show_tags": "0",
                      "behave.reporter.junit.show_scenarios": "false",
                      "behave.reporter.junit.show_hostname": "false",
                      "behave.reporter.junit.show_timestamp": "false"}]:
        for flag in (True, False):
            reporter = JUnitReporter(Config([], u".", flag, userdata))
            emit(show(sorted(userdata.items())), show(flag), u"->",
                 show([reporter.show_skipped, reporter.show_timings,
                       reporter.show_multiline, reporter.show_tags,
                       reporter.show_scenarios, reporter.show_hostname,
                       reporter.show_timestamp, reporter.show_skipped_always,
                       reporter.feature_failed_counts,
                       reporter.feature_error_counts]))

    emit(u"== A6: select_step_*, describe_*")
    reporter = JUnitReporter(Config([], u"."))
    steps = []
    for index, status in enumerate([Status.passed, Status.failed, Status.error,
                                    Status.undefined, Status.pending,
                                    Status.skipped, Status.untested,
                                    Status.hook_error, Status.failed]):
        step = Step(u"x.feature", index + 1, u"Given", u"given",
                    u"step %d ]]> \x01" % index)
        step.status = status
        step.duration = 0.0012345 * index
        steps.append(step)
    for status in Status:
        found = JUnitReporter.select_step_with_status(status, steps)
        emit(u"with_status", status.name, u"->", show(found and found.name))
    for statuses in [(), (Status.failed,), [Status.pending, Status.undefined],
                     (Status.error, Status.hook_error, Status.pending,
                      Status.undefined), (Status.skipped, Status.untested),
                     (Status.executing,)]:
        found = JUnitReporter.select_step_with_any_status(statuses, steps)
        emit(u"with_any", show([s.name for s in statuses]), u"->",
             show(found and found.name))
        found = reporter.select_step_with_any_status(statuses, [])
        emit(u"with_any(empty)", u"->", show(found))
    for bad in ([object()], [steps[0], u"text"]):
        for func in (lambda seq: JUnitReporter.select_step_with_status(Status.error, seq),
                     lambda seq: JUnitReporter.select_step_with_any_status((Status.error,), seq)):
            try:
                emit(u"bad ->", show(func(bad)))
            except AssertionError as e:
                emit(u"bad -> AssertionError:", show(str(e)))
    for tags in ([], None, [u"a"], [u"a", u"b]]>", u"\xe9"]):
        emit(u"tags", show(tags), u"->", show(JUnitReporter.describe_tags(tags)))
    for timings in (True, False):
        reporter.show_timings = timings
        for step in steps:
            emit(u"describe_step", show(timings), u"->",
                 show(reporter.describe_step(step)))

    emit(u"== A7: problem elements (direct)")

    class EmptyError(Exception):
        def __len__(self):
            return 0

    class ScenarioStub(object):
        def __init__(self, exception=None, error_message=None):
            self.exception = exception
            self.error_message = error_message
            self.exc_traceback = None
            if exception is not None:
                try:
                    raise exception
                except Exception:       # pylint: disable=broad-except
                    self.exc_traceback = sys.exc_info()[2]

    def dump(element):
        data = ElementTree.tostring(element, encoding="unicode")
        data = re.sub(u"line [0-9]+", u"line N", data)
        return u"%s %s" % (show(list(element.attrib.items())), show(data))

    reporter = JUnitReporter(Config([], u"."))
    stubs = [ScenarioStub(), ScenarioStub(None, u"  only message ]]> \x01 "),
             ScenarioStub(ValueError(u"boom ]]>"), u" HOOK-ERROR: boom ]]> \x02\n"),
             ScenarioStub(EmptyError(u"falsy"), u"falsy error"),
             ScenarioStub(KeyError(u"k"), u"")]
    for stub in stubs:
        for maker in (reporter._make_error_element_for,
                      reporter._make_failure_element_for):
            try:
                emit(maker.__name__, u"(no step) ->", dump(maker(stub, None)))
            except Exception as e:      # pylint: disable=broad-except
                emit(maker.__name__, u"(no step) -> EXC",
                     e.__class__.__name__, show(str(e)))
    for index, step in enumerate(steps):
        step.exception = [AssertionError(u" a ]]> \x01 "), ValueError(u"<v>"),
                          EmptyError(u"e"), None][index % 4]
        step.error_message = [u"Assertion Failed: a ]]> \x01", u"Traceback ...\n",
                              None, u""][index % 4]
        for maker in (reporter._make_error_element_for,
                      reporter._make_failure_element_for):
            for timings in (True, False):
                reporter.show_timings = timings
                emit(maker.__name__, u"(step %d) ->" % index,
                     dump(maker(stubs[index % len(stubs)], step)))
    try:
        reporter._make_error_element_for(ScenarioStub(None, 42), None)
    except Exception as e:      # pylint: disable=broad-except
        emit(u"bad error_message -> EXC", e.__class__.__name__, show(str(e)))


# ---------------------------------------------------------------------------
# PART B: behave runs
# ---------------------------------------------------------------------------
NASTY = u"<&>\"' ]]> \x01\x1f \x7f\x85\x9f \xe9\u20ac \U0001F600 \ufffe \x1b[31mred\x1b[0m"

FEATURE_MAIN = u"""\
@feature_tag
Feature: Hostile <&>"' ]]> \x01 \xe9 \U0001F600 \x1b[31mred\x1b[0m \ufffe
  Some description ]]> text.

  Background:
    Given a background step

  @t1 @tag_]]>_<x>
  Scenario: passes & prints ]]> \x02 <b> \x1b[1A
    Given a step that prints hostile output
    Then it passes

  Scenario: fails <b> ]]> \x03
    Given a step that prints hostile output
    When a step fails with a hostile message
    Then it passes

  Scenario: fails without message
    When a step fails without message
    Then it passes

  Scenario: errors \x9f
    Given it passes
    When a step raises a hostile error
    Then it passes

  Scenario: undefined step
    Given it passes
    And an undefined step ]]> <x> \x04
    Then it passes

  Scenario: pending step
    Given a pending step
    Then it passes

  @skip_me
  Scenario: skipped by tag ]]>
    Given it passes

  @skip_in_hook
  Scenario: skipped in hook
    Given it passes

  Scenario: skipped by step
    Given a step that skips the scenario
    Then it passes

  @hook_error
  Scenario: before_scenario hook fails ]]>
    Given it passes

  @after_hook_error
  Scenario: after_scenario hook fails
    Given it passes

  @tag_hook_error
  Scenario: before_tag hook fails
    Given it passes

  @step_hook_error
  Scenario: before_step hook fails
    Given it passes
    Then it passes

  @cleanup_error
  Scenario: cleanup fails
    Given a step that registers a failing cleanup

  Scenario:
    Given it passes

  Scenario: docstring and table ]]>
    Given a step with text:
      '''
      Line 1 ]]> <x> &
        Line 2 \x05 \xe9
      '''
    And a step with a table:
      | name  | value     |
      | a ]]> | <b> & \x06 |
      | \xe9  | \U0001F600 |
    When a step fails with a hostile message

  @outline_tag
  Scenario Outline: outline <name> -- <kind>
    Given a step with kind "<kind>" and name "<name>"

    Examples: first ]]>
      | name      | kind  |
      | ok        | pass  |
      | bad ]]>   | fail  |
      | ugly \x07 | error |

    @skip_me
    Examples: skipped rows
      | name    | kind |
      | never 1 | pass |
      | never 2 | fail |

    Examples: more
      | name | kind      |
      | und  | undefined |
      | skp  | skip      |
"""

FEATURE_NONAME = u"""\
Feature:
  Scenario: in unnamed feature
    Given it passes
  Scenario: fails in unnamed feature
    When a step fails with a hostile message
"""

FEATURE_RULES = u"""\
Feature: With rules
  Scenario: before the rules
    Given it passes

  Rule: first rule ]]>
    Background:
      Given a background step

    Scenario: rule scenario passes
      Given it passes

    Scenario: rule scenario errors
      When a step raises a hostile error

    Scenario Outline: rule outline <kind>
      Given a step with kind "<kind>" and name "r"
      Examples:
        | kind |
        | pass |
        | fail |

  @skip_me
  Rule: skipped rule
    Scenario: in skipped rule
      Given it passes

  Rule: empty rule
"""

FEATURE_SKIPPED = u"""\
@skip_me
Feature: Entirely skipped ]]>
  Scenario: one
    Given it passes
  Scenario: two
    When a step fails with a hostile message
"""

FEATURE_PASSING = u"""\
Feature: All passing
  Scenario: one
    Given it passes
  Scenario: two
    Given a step that prints hostile output
"""

FEATURE_EMPTY = u"""\
Feature: No scenarios at all
"""

FEATURE_BG_FAIL = u"""\
Feature: Background fails
  Background:
    Given a step fails with a hostile message
  Scenario: one
    Given it passes
  Scenario: two
    Given it passes
"""

FEATURE_HOOK = u"""\
@feature_hook_error
Feature: before_feature hook fails
  Scenario: one
    Given it passes
"""

STEPS = u'''\
# -*- coding: UTF-8 -*-
from __future__ import print_function, unicode_literals
import logging
import sys
from behave import given, when, then, step
from behave.api.pending_step import StepNotImplementedError

NASTY = %(nasty)r


class HostileError(Exception):
    pass


@step(u'a background step')
def step_background(ctx):
    print(u"background says: " + NASTY)


@step(u'it passes')
def step_passes(ctx):
    pass


@step(u'a step that prints hostile output')
def step_prints(ctx):
    print(u"stdout: " + NASTY)
    sys.stderr.write(u"stderr: " + NASTY + u"\\n")
    logging.getLogger("hostile").error(u"log: %%s", NASTY)


@step(u'a step fails with a hostile message')
def step_fails(ctx):
    print(u"about to fail ]]>")
    assert False, u"FAILED: " + NASTY


@step(u'a step fails without message')
def step_fails_nomsg(ctx):
    assert 1 == 2


@step(u'a step raises a hostile error')
def step_raises(ctx):
    sys.stderr.write(u"about to raise ]]>\\n")
    raise HostileError(u"  ERROR: " + NASTY + u"  ")


@step(u'a pending step')
def step_pending(ctx):
    raise StepNotImplementedError(u"pending ]]> <x>")


@step(u'a step that skips the scenario')
def step_skips(ctx):
    ctx.scenario.skip(u"skipped by step ]]>")


@step(u'a step that registers a failing cleanup')
def step_cleanup(ctx):
    def cleanup():
        raise HostileError(u"cleanup: " + NASTY)
    ctx.add_cleanup(cleanup)


@step(u'a step with text')
def step_text(ctx):
    print(ctx.text)


@step(u'a step with a table')
def step_table(ctx):
    for row in ctx.table:
        print(row["name"], row["value"])


@step(u'a step with kind "{kind}" and name "{name}"')
def step_kind(ctx, kind, name):
    print(u"kind=%%s name=%%s" %% (kind, name))
    if kind == "fail":
        assert False, u"outline failure ]]> " + name
    elif kind == "error":
        raise HostileError(u"outline error \\x01 " + name)
    elif kind == "skip":
        ctx.scenario.skip()
    elif kind == "undefined":
        ctx.execute_steps(u"Given this substep is not defined ]]>")
''' % {"nasty": NASTY}

ENVIRONMENT = u'''\
# -*- coding: UTF-8 -*-
from __future__ import print_function, unicode_literals

NASTY = %(nasty)r


class HookError(Exception):
    pass


def before_feature(ctx, feature):
    if "feature_hook_error" in feature.tags:
        raise HookError(u"before_feature: " + NASTY)


def before_scenario(ctx, scenario):
    if "skip_in_hook" in scenario.effective_tags:
        scenario.skip(u"skipped in hook ]]>")
    if "hook_error" in scenario.effective_tags:
        print(u"hook output ]]>")
        raise HookError(u"before_scenario: " + NASTY)


def after_scenario(ctx, scenario):
    if "after_hook_error" in scenario.effective_tags:
        raise HookError(u"after_scenario: " + NASTY)


def before_tag(ctx, tag):
    if tag == "tag_hook_error":
        raise HookError(u"before_tag: ]]> \\x01")


def before_step(ctx, step):
    if "step_hook_error" in ctx.scenario.effective_tags and step.keyword == "Then":
        raise HookError(u"before_step: ]]> \\x02")
''' % {"nasty": NASTY}

FILES = {
    u"features/hostile.feature": FEATURE_MAIN.replace(u"'''", u'"""'),
    u"features/noname.feature": FEATURE_NONAME,
    u"features/sub/dir/with.dots.rules.feature": FEATURE_RULES,
    u"features/sub/skipped.feature": FEATURE_SKIPPED,
    u"features/sub/passing.feature": FEATURE_PASSING,
    u"features/empty.feature": FEATURE_EMPTY,
    u"features/bgfail.feature": FEATURE_BG_FAIL,
    u"features/hookfail.feature": FEATURE_HOOK,
    u"features/steps/steps.py": STEPS,
    u"features/environment.py": ENVIRONMENT,
}

RUNS = [
    (u"default", [u"--tags=not @skip_me"]),
    (u"show-skipped", [u"--tags=not @skip_me", u"--show-skipped"]),
    (u"no-skipped", [u"--tags=not @skip_me", u"--no-skipped"]),
    (u"skipped-always", [u"--tags=not @skip_me", u"--no-skipped",
                         u"-D", u"behave.reporter.junit.show_skipped_always=true"]),
    (u"all-switches-off", [u"--tags=not @skip_me", u"--no-skipped",
                           u"-D", u"behave.reporter.junit.show_timings=false",
                           u"-D", u"behave.reporter.junit.show_multiline=false",
                           u"-D", u"behave.reporter.junit.show_tags=false",
                           u"-D", u"behave.reporter.junit.show_scenarios=false",
                           u"-D", u"behave.reporter.junit.show_hostname=false",
                           u"-D", u"behave.reporter.junit.show_timestamp=false"]),
    (u"no-timings-no-multiline", [u"--show-skipped",
                                  u"-D", u"behave.reporter.junit.show_timings=no",
                                  u"-D", u"behave.reporter.junit.show_multiline=no"]),
    (u"no-tag-filter", [u"--show-skipped"]),
    (u"no-capture-requested", [u"--tags=not @skip_me", u"--no-capture",
                               u"--no-capture-stderr", u"--no-logcapture"]),
    (u"dry-run", [u"--dry-run", u"--show-skipped"]),
    (u"stop", [u"--stop", u"--show-skipped"]),
    (u"wip", [u"--wip"]),
    (u"by-name", [u"--name", u"outline", u"--show-skipped"]),
    (u"by-name-no-skipped", [u"--name", u"outline", u"--no-skipped"]),
    (u"paths-sub", [u"--show-skipped", u"features/sub"]),
    (u"paths-file-line", [u"--no-skipped", u"features/hostile.feature:12",
                          u"features/noname.feature"]),
    (u"tags-select-outline", [u"--tags=@outline_tag", u"--no-skipped"]),
]


def scrub(text, workdir):
    text = text.replace(workdir, u"<WORK>")
    text = text.replace(WORKTREE, u"<TREE>")
    text = re.sub(u' time="[0-9.e-]+"', u' time="T"', text)
    text = re.sub(u' timestamp="[^"]*"', u' timestamp="TS"', text)
    text = re.sub(u' hostname="[^"]*"', u' hostname="HOST"', text)
    text = re.sub(u" in [0-9]+\\.[0-9]{3}s", u" in D.DDDs", text)
    text = re.sub(u"[0-9]+m?[0-9]+\\.[0-9]{3}s", u"D.DDDs", text)
    return text


def canonical(node, depth, lines):
    pad = u"  " * depth
    if node.nodeType == node.ELEMENT_NODE:
        attrs = [(node.attributes.item(i).name, node.attributes.item(i).value)
                 for i in range(node.attributes.length)]
        volatile = {u"time": u"T", u"timestamp": u"TS", u"hostname": u"HOST"}
        attrs = [(name, volatile.get(name, value)) for (name, value) in attrs]
        lines.append(u"%s<%s> %s" % (pad, node.tagName, show(attrs)))
        for child in node.childNodes:
            canonical(child, depth + 1, lines)
    elif node.nodeType == node.CDATA_SECTION_NODE:
        lines.append(u"%sCDATA %s" % (pad, show(node.data)))
    elif node.nodeType == node.TEXT_NODE:
        if node.data.strip():
            lines.append(u"%sTEXT %s" % (pad, show(node.data)))
    else:
        lines.append(u"%sNODE %s" % (pad, show(node.nodeType)))


def check_counters(suite):
    cases = [c for c in suite.childNodes
             if c.nodeType == c.ELEMENT_NODE and c.tagName == u"testcase"]

    def has(case, name):
        return any(c.nodeType == c.ELEMENT_NODE and c.tagName == name
                   for c in case.childNodes)
    found = dict(tests=len(cases),
                 failures=sum(1 for c in cases if has(c, u"failure")),
                 errors=sum(1 for c in cases if has(c, u"error")),
                 skipped=sum(1 for c in cases if has(c, u"skipped")))
    stated = dict((name, suite.getAttribute(name)) for name in found)
    return u"stated=%s counted=%s" % (show(sorted(stated.items())),
                                      show(sorted(found.items())))


def part_b():
    workdir = tempfile.mkdtemp(prefix="c16_equiv_")
    workdir = os.path.realpath(workdir)
    try:
        for name, content in FILES.items():
            path = os.path.join(workdir, name)
            if not os.path.isdir(os.path.dirname(path)):
                os.makedirs(os.path.dirname(path))
            with io.open(path, "w", encoding="utf-8", newline=u"\n") as f:
                f.write(content)
        env = dict(os.environ)
        env["PYTHONPATH"] = WORKTREE
        env["PYTHONIOENCODING"] = "utf-8"
        env["PYTHONHASHSEED"] = "0"
        env.pop("GHERKIN_COLORS", None)
        for run_name, args in RUNS:
            emit(u"=" * 78)
            emit(u"== B RUN:", run_name, show(args))
            report_dir = os.path.join(workdir, u"reports_" + run_name)
            command = [sys.executable, "-m", "behave", "--junit", "--no-color",
                       "--junit-directory", report_dir, "-f", "plain",
                       "--no-timings"] + args
            process = subprocess.Popen(command, cwd=workdir, env=env,
                                       stdout=subprocess.PIPE,
                                       stderr=subprocess.PIPE)
            stdout, stderr = process.communicate()
            emit(u"returncode:", show(process.returncode))
            emit(u"-- stdout:")
            emit(scrub(stdout.decode("utf-8", "replace"), workdir))
            emit(u"-- stderr:")
            emit(scrub(stderr.decode("utf-8", "replace"), workdir))
            names = sorted(os.listdir(report_dir)) if os.path.isdir(report_dir) else []
            emit(u"-- report files:", show(names))
            for basename in names:
                emit(u"-" * 60)
                emit(u"-- FILE:", basename)
                with io.open(os.path.join(report_dir, basename), "rb") as f:
                    raw = f.read()
                text = scrub(raw.decode("utf-8", "replace"), workdir)
                emit(u"-- raw (scrubbed):")
                for line in text.split(u"\n"):
                    emit(u"   |", show(line))
                try:
                    document = minidom.parseString(raw)
                except Exception as e:      # pylint: disable=broad-except
                    emit(u"-- NOT WELL-FORMED:", e.__class__.__name__,
                         scrub(u"%s" % e, workdir))
                    continue
                lines = []
                canonical(document.documentElement, 0, lines)
                emit(u"-- parsed:")
                emit(scrub(u"\n".join(lines), workdir))
                emit(u"-- counters:", check_counters(document.documentElement))
    finally:
        shutil.rmtree(workdir, ignore_errors=True)


if __name__ == "__main__":
    part_a()
    part_b()
    OUT.flush()
