# -*- coding: UTF-8 -*-
"""
Equivalence transcript for property C19 (active tags exclude by per-category logic).

Exercises behave.tag_matcher (ActiveTagMatcher, value objects, value providers,
composite matchers) and behave.active_tag.python through their public behaviour
and prints a canonical transcript: results, exclude reasons, call logs,
log records, exception types and messages.
"""
from __future__ import print_function
import sys
sys.path.insert(0, "/tmp/wtW/C19")

import itertools
import logging
import operator
import re

from behave import tag_matcher as tm
from behave.tag_matcher import (
    ActiveTagMatcher, ActiveTagValueProvider, BoolValueObject,
    CompositeActiveTagValueProvider, CompositeTagMatcher, NumberValueObject,
    PredicateTagMatcher, TagMatcher, ValueObject, bool_to_string,
    print_active_tags, setup_active_tag_values,
)
from behave._types import Unknown
from behave.active_tag.python import VersionValueObject
from behave.active_tag import python as at_python
from behave.active_tag import python_feature as at_python_feature

assert tm.__file__.startswith("/tmp/wtW/C19/"), tm.__file__


# -----------------------------------------------------------------------------
# TRANSCRIPT HELPERS
# -----------------------------------------------------------------------------
LOG = []


_ADDRESS = re.compile(r" at 0x[0-9a-fA-F]+")


def emit(*parts):
    print(_ADDRESS.sub(" at 0xADDR", " ".join(str(p) for p in parts)))


def section(title):
    emit("")
    emit("=" * 8, title)


def drain_log():
    items = list(LOG)
    del LOG[:]
    return items


def attempt(func, *args, **kwargs):
    """Call func; return canonical description of result or exception."""
    try:
        result = func(*args, **kwargs)
    except BaseException as e:      # pylint: disable=broad-except
        return "RAISES %s(%s)" % (e.__class__.__name__, e)
    return "-> %r" % (result,)


class ListHandler(logging.Handler):
    def emit(self, record):
        LOG.append("LOGREC %s %s: %s" % (record.name, record.levelname,
                                        record.getMessage()))


_logger = logging.getLogger("behave.active_tags")
_logger.handlers[:] = [ListHandler()]
_logger.propagate = False
_logger.setLevel(logging.DEBUG)


def describe_value(value):
    if value is Unknown:
        return "Unknown"
    if isinstance(value, ValueObject):
        return "%s(%r)" % (value.__class__.__name__, value._value
                           if not callable(value._value) else "<callable>")
    if callable(value):
        return "<callable>"
    return repr(value)


# -----------------------------------------------------------------------------
# INSTRUMENTED COLLABORATORS
# -----------------------------------------------------------------------------
class LoggingDict(dict):
    """Value provider that records each lookup."""
    name = "D"

    def get(self, category, default=None):
        LOG.append("%s.get(%s, %s)" % (self.name, category,
                                       describe_value(default)))
        return dict.get(self, category, default)


class LoggingValueObject(ValueObject):
    def matches(self, tag_value):
        LOG.append("VO.matches(%r)" % (tag_value,))
        return super(LoggingValueObject, self).matches(tag_value)


class LazyValue(object):
    def __init__(self, name, values):
        self.name = name
        self.values = list(values)
        self.calls = 0

    def __call__(self):
        value = self.values[self.calls % len(self.values)]
        self.calls += 1
        LOG.append("lazy:%s#%d=%r" % (self.name, self.calls, value))
        return value


def logged_compare(name, func):
    def compare(current, tag_value):
        LOG.append("cmp:%s(%r, %r)" % (name, current, tag_value))
        return func(current, tag_value)
    return compare


def check_matcher(matcher, tags, show_log=True):
    """Observe should_exclude_with / should_run_with and exclude_reason."""
    matcher.exclude_reason = None
    r1 = attempt(matcher.should_exclude_with, list(tags))
    reason = matcher.exclude_reason
    log1 = drain_log()
    r2 = attempt(matcher.should_run_with, list(tags))
    log2 = drain_log()
    emit("tags=%s exclude%s run%s reason=%r" % (",".join(tags) or "-",
                                               r1, r2, reason))
    if show_log:
        if log1:
            emit("   log.exclude:", " | ".join(log1))
        if log2 != log1:
            emit("   log.run:", " | ".join(log2))


# -----------------------------------------------------------------------------
# 1. EXHAUSTIVE: tag multisets x current values (schema 1 and schema 2)
# -----------------------------------------------------------------------------
def part_exhaustive():
    section("1. exhaustive small universe")
    prefixes = ["use", "not", "active", "not_active", "only"]
    universe = []
    for prefix in prefixes:
        for category in ("c1", "c2"):
            for value in ("a", "b"):
                universe.append("%s.with_%s=%s" % (prefix, category, value))
    universe.extend([
        "use.with_zz=a", "not.with_zz=a",       # unknown category
        "wip", "use.with_c1", "with_c1=a", "not.with_=a", "nope.with_c1=a",
        "use.with_c1=", "not.with_c1=",
    ])
    providers = [
        ("c1=a,c2=b", {"c1": "a", "c2": "b"}),
        ("c1=b", {"c1": "b"}),
        ("c1=,c2=a", {"c1": "", "c2": "a"}),
        ("empty", {}),
    ]
    for label, data in providers:
        emit("--- provider:", label)
        matcher = ActiveTagMatcher(dict(data))
        matcher.use_exclude_reason = True
        lines = 0
        for size in (0, 1, 2):
            for tags in itertools.product(universe, repeat=size):
                matcher.exclude_reason = None
                excluded = matcher.should_exclude_with(list(tags))
                run = matcher.should_run_with(list(tags))
                assert run is (not excluded)
                if excluded:
                    emit("X %s :: %s" % (" ".join(tags), matcher.exclude_reason))
                    lines += 1
        emit("excluded-count(size<=2):", lines)

    # -- SIZE 3 and 4 over a reduced universe (one and two categories).
    small = ["use.with_c1=a", "use.with_c1=b", "not.with_c1=a", "not.with_c1=b",
             "use.with_c2=a", "not.with_c2=a", "only.with_c2=b",
             "not_active.with_c1=a", "active.with_zz=q", "foo"]
    for label, data in providers:
        emit("--- provider (size 3,4):", label)
        matcher = ActiveTagMatcher(dict(data))
        matcher.use_exclude_reason = True
        for size in (3, 4):
            bits = []
            for tags in itertools.combinations_with_replacement(small, size):
                matcher.exclude_reason = None
                excluded = matcher.should_exclude_with(list(tags))
                bits.append("1" if excluded else "0")
                if excluded:
                    bits.append("[%s]" % matcher.exclude_reason)
            emit("size=%d verdicts=%s" % (size, "".join(bits)))

    # -- ORDER: permutations of one mixed tag list (reason = first disabled group)
    emit("--- permutations")
    matcher = ActiveTagMatcher({"c1": "a", "c2": "b"})
    matcher.use_exclude_reason = True
    base = ["use.with_c1=b", "not.with_c2=b", "use.with_c1=a", "x"]
    for tags in itertools.permutations(base):
        matcher.exclude_reason = None
        emit(" ".join(tags), attempt(matcher.should_exclude_with, list(tags)),
             matcher.exclude_reason)


# -----------------------------------------------------------------------------
# 2. UNKNOWN CATEGORIES, OPTIONS, PREFIXES, SEPARATORS
# -----------------------------------------------------------------------------
def part_options():
    section("2. options: unknown categories / prefixes / separators")
    tags_list = [
        [], ["foo"], ["use.with_zz=a"], ["not.with_zz=a"],
        ["use.with_zz=None"], ["not.with_zz=None"],
        ["use.with_zz=a", "use.with_c1=a"], ["not.with_zz=a", "use.with_c1=b"],
        ["use.with_c1=a"], ["use.with_c1=b"], ["not.with_c1=a"],
        ["use.with_a.b.c=1"], ["not.with_a.b.c=1"], ["use.with_a.b.c=2"],
        ["use.with_a.=1"], ["use.with_.a=1"], ["use.with_c1=a=b"],
        ["use.with_c1=a b"], ["@use.with_c1=b"], [" use.with_c1=b"],
        ["use.with_c1=b\n"], ["USE.with_c1=b"],
    ]
    for ignore in (None, True, False):
        emit("--- ignore_unknown_categories=%r" % ignore)
        provider = LoggingDict({"c1": "a", "a.b.c": "1"})
        matcher = ActiveTagMatcher(provider, ignore_unknown_categories=ignore)
        matcher.use_exclude_reason = True
        for tags in tags_list:
            check_matcher(matcher, tags)

    emit("--- value_provider=None")
    matcher = ActiveTagMatcher(None)
    emit("provider:", repr(matcher.value_provider))
    check_matcher(matcher, ["use.with_c1=a", "not.with_c2=b"])
    matcher.ignore_unknown_categories = False
    check_matcher(matcher, ["use.with_c1=a", "not.with_c2=b"])
    check_matcher(matcher, ["not.with_c2=b"])

    emit("--- custom prefixes / separators")
    combos = [
        (["use", "not"], None),
        (["only"], None),
        (["require", "not_require"], None),
        (["use", "not", "notable"], ":"),
        (None, ":"),
        (None, "=="),
        (["x"], "_is_"),
        ([], None),
    ]
    probe_tags = [
        "use.with_c1=a", "use.with_c1=b", "not.with_c1=a", "only.with_c1=b",
        "active.with_c1=b", "not_active.with_c1=a", "require.with_c1=b",
        "not_require.with_c1=a", "notable.with_c1:a", "use.with_c1:b",
        "not.with_c1:a", "use.with_c1==b", "use.with_c1==a", "x.with_c1_is_b",
        "x.with_c1_is_a", ".with_c1=b",
    ]
    for tag_prefixes, sep in combos:
        matcher = ActiveTagMatcher({"c1": "a"}, tag_prefixes=tag_prefixes,
                                   value_separator=sep)
        matcher.use_exclude_reason = True
        emit("prefixes=%r sep=%r pattern=%s stored_prefixes=%r" % (
            tag_prefixes, sep, matcher.tag_pattern.pattern, matcher.tag_prefixes))
        for tag in probe_tags:
            matcher.exclude_reason = None
            emit("   %s %s %r" % (tag, attempt(matcher.should_exclude_with, [tag]),
                                  matcher.exclude_reason))

    emit("--- make_tag_pattern / make_category_tag")
    emit(ActiveTagMatcher.make_tag_pattern(["a", "b"]).pattern)
    emit(ActiveTagMatcher.make_tag_pattern(["a"], "::").pattern)
    emit(attempt(ActiveTagMatcher.make_tag_pattern, ["("]))
    emit(attempt(ActiveTagMatcher.make_tag_pattern, None))
    emit(ActiveTagMatcher.make_category_tag("c1"))
    emit(ActiveTagMatcher.make_category_tag("c1", "v"))
    emit(ActiveTagMatcher.make_category_tag("c1", "v", "not"))
    emit(ActiveTagMatcher.make_category_tag("c1", 0, "not", ":"))
    emit(ActiveTagMatcher.make_category_tag("c1", "v", value_sep="=="))

    class SubMatcher(ActiveTagMatcher):
        value_separator = ":"
        tag_prefixes = ["need", "not_need"]
        ignore_unknown_categories = False
        use_exclude_reason = True

    emit("--- subclass with class-level configuration")
    matcher = SubMatcher({"c1": "a"})
    emit(matcher.tag_pattern.pattern, matcher.tag_prefixes,
         matcher.ignore_unknown_categories)
    emit(SubMatcher.make_category_tag("c1", "v"))
    for tags in (["need.with_c1:a"], ["need.with_c1:b"], ["not_need.with_c1:a"],
                 ["not_need.with_zz:a"], ["need.with_zz:a"],
                 ["need.with_zz:None"], ["use.with_c1=b"]):
        check_matcher(matcher, tags)


# -----------------------------------------------------------------------------
# 3. VALUE OBJECTS
# -----------------------------------------------------------------------------
def part_value_objects():
    section("3. value objects")
    tag_values = ["0", "1", "9", "10", "11", "-3", "+4", " 10 ", "1_0", "1.0",
                  "", "x", "0x10", "true", "True", "YES", "on", "false", "No",
                  "OFF", "maybe", "10\n", u"٣"]
    objects = [
        ("VO(10)", lambda: ValueObject(10)),
        ("VO('10')", lambda: ValueObject("10")),
        ("VO('10',ne)", lambda: ValueObject("10", operator.ne)),
        ("VO('abc',contains)", lambda: ValueObject("abc10", operator.contains)),
        ("NUM(10,eq)", lambda: NumberValueObject(10)),
        ("NUM(10,ge)", lambda: NumberValueObject(10, operator.ge)),
        ("NUM(10,le)", lambda: NumberValueObject(10, operator.le)),
        ("NUM(10,lt)", lambda: NumberValueObject(10, operator.lt)),
        ("NUM(lazy,ge)", lambda: NumberValueObject(LazyValue("n", [10, 0]), operator.ge)),
        ("NUM(10,custom)", lambda: NumberValueObject(
            10, logged_compare("mod", lambda cur, tag: tag and cur % tag))),
        ("BOOL(True)", lambda: BoolValueObject(True)),
        ("BOOL(False)", lambda: BoolValueObject(False)),
        ("BOOL(lazy)", lambda: BoolValueObject(LazyValue("b", [True, False]))),
        ("BOOL(1,is)", lambda: BoolValueObject(True, operator.is_)),
        ("BOOL(0,ne)", lambda: BoolValueObject(0, operator.ne)),
    ]
    for label, make in objects:
        obj = make()
        emit("--- %s" % label)
        for tag_value in tag_values:
            result = attempt(obj.matches, tag_value)
            log = drain_log()
            emit("   matches(%r) %s%s" % (tag_value, result,
                                         (" :: " + " | ".join(log)) if log else ""))

    emit("--- non-string tag values")
    for obj_label, obj in (("NUM", NumberValueObject(1)),
                           ("BOOL", BoolValueObject(True)),
                           ("VO", ValueObject(1))):
        for tag_value in (1, 1.9, True, None, [], [1], (1,), b"1", 0):
            emit("   %s.matches(%r) %s %s" % (obj_label, tag_value,
                                              attempt(obj.matches, tag_value),
                                              drain_log()))

    emit("--- errors raised by compare function / lazy value")

    def raising(exc):
        def compare(current, tag_value):
            LOG.append("cmp.raise %s" % exc.__name__)
            raise exc("boom:%r" % (tag_value,))
        return compare

    def raising_value(exc):
        def value():
            LOG.append("value.raise %s" % exc.__name__)
            raise exc("lazy-boom")
        return value

    for exc in (ValueError, TypeError, KeyError, UnicodeDecodeError
                if False else ZeroDivisionError):
        for cls in (ValueObject, NumberValueObject, BoolValueObject,
                    VersionValueObject):
            for tag_value in ("1", "yes", "zz"):
                obj = cls(1, raising(exc))
                emit("   %s/%s matches(%r) %s %s" % (
                    cls.__name__, exc.__name__, tag_value,
                    attempt(obj.matches, tag_value), drain_log()))
            obj = cls(raising_value(exc))
            emit("   %s/lazy-%s matches('1') %s %s" % (
                cls.__name__, exc.__name__, attempt(obj.matches, "1"),
                drain_log()))

    class UnicodeValueError(ValueError):
        pass

    obj = NumberValueObject(1, raising(UnicodeValueError))
    emit("   NUM/subclass-of-ValueError", attempt(obj.matches, "1"), drain_log())
    obj = BoolValueObject(1, raising(UnicodeValueError))
    emit("   BOOL/subclass-of-ValueError", attempt(obj.matches, "on"), drain_log())

    emit("--- conversions / repr / str")
    emit(str(ValueObject("abc")), str(NumberValueObject(3)), str(BoolValueObject(False)))
    emit(repr(ValueObject("abc", len)))
    emit(repr(NumberValueObject(3, max)))
    emit(int(NumberValueObject("12")), attempt(int, NumberValueObject("x")))
    emit(bool(BoolValueObject(0)), bool(BoolValueObject("x")))
    emit(attempt(ValueObject, 1, None))
    lazy = LazyValue("v", ["p", "q"])
    obj = ValueObject(lazy)
    emit(obj.value, obj.value, str(obj), drain_log())
    emit(ValueObject.on_type_conversion_error("tv", ValueError("E")), drain_log())
    emit(NumberValueObject(1).on_type_conversion_error(u"t\xe4", "plain"), drain_log())

    emit("--- BoolValueObject.to_bool")
    for value in ("true", "TRUE", "Yes", "on", "oN", "false", "NO", "off", "",
                  " yes", "yes ", "1", "0", "y", "n", "t", u"ON", u"İ",
                  1, 0, 2, -1, None, [], [0], 0.0, 0.5, True, False, b"",
                  b"yes", b"no", object):
        emit("   to_bool(%r) %s" % (value, attempt(BoolValueObject.to_bool, value)))

    class GermanBool(BoolValueObject):
        TRUE_STRINGS = set(["ja", "yes"])
        FALSE_STRINGS = set(["nein", "yes", "off"])

    for value in ("ja", "JA", "nein", "yes", "no", "off", "true", "on", 1, ""):
        emit("   GermanBool.to_bool(%r) %s" % (value, attempt(GermanBool.to_bool, value)))
    for cur in (True, False):
        obj = GermanBool(cur)
        for value in ("ja", "nein", "yes", "true", "off"):
            emit("   GermanBool(%r).matches(%r) %s %s" % (
                cur, value, attempt(obj.matches, value), drain_log()))

    class HexNumber(NumberValueObject):
        """Subclass in the middle of the hierarchy (super-chain is observable)."""
        def matches(self, tag_value):
            LOG.append("Hex.matches(%r)" % (tag_value,))
            if isinstance(tag_value, str) and tag_value.startswith("0x"):
                tag_value = int(tag_value, 16)
            return super(HexNumber, self).matches(tag_value)

        @staticmethod
        def on_type_conversion_error(tag_value, e):
            LOG.append("Hex.on_error(%r, %s)" % (tag_value, e))
            return "HEX-MISMATCH"

    obj = HexNumber(16, operator.le)
    for value in ("0x10", "0x0f", "16", "17", "zz", "0xzz"):
        emit("   HexNumber.matches(%r) %s %s" % (value, attempt(obj.matches, value),
                                                drain_log()))

    class Mixin(object):
        def matches(self, tag_value):
            LOG.append("Mixin.matches(%r)" % (tag_value,))
            return super(Mixin, self).matches(tag_value)

    class MixedNumber(NumberValueObject, Mixin, ValueObject):
        pass

    class MixedBool(BoolValueObject, Mixin, ValueObject):
        pass

    emit("   MRO:", [c.__name__ for c in MixedNumber.__mro__])
    for obj, values in ((MixedNumber(5, operator.ge), ("4", "6", "x")),
                        (MixedBool(True), ("on", "off", "x"))):
        for value in values:
            emit("   %s.matches(%r) %s %s" % (obj.__class__.__name__, value,
                                              attempt(obj.matches, value),
                                              drain_log()))

    emit("--- VersionValueObject")
    for compare_label, compare in (("eq", operator.eq), ("ge", operator.ge),
                                   ("le", operator.le)):
        obj = VersionValueObject((3, 12), compare)
        for value in ("3.12", "3.11", "3.13", "3", "4", "3.12.1", "", "x.y",
                      "3.", (3, 12), 3, None):
            emit("   VER(%s).matches(%r) %s %s" % (compare_label, value,
                                                   attempt(obj.matches, value),
                                                   drain_log()))
    emit(sorted(at_python.ACTIVE_TAG_VALUE_PROVIDER.keys()))
    emit(sorted(at_python_feature.ACTIVE_TAG_VALUE_PROVIDER.keys()))
    matcher = ActiveTagMatcher(at_python.ACTIVE_TAG_VALUE_PROVIDER)
    matcher.use_exclude_reason = True
    for tags in (["use.with_python2=yes"], ["use.with_python3=yes"],
                 ["not.with_python3=yes"], ["use.with_python3=perhaps"],
                 ["not.with_python3=perhaps"],
                 ["use.with_python.min_version=3.0"],
                 ["use.with_python.min_version=99.0"],
                 ["use.with_python.max_version=2.7"],
                 ["not.with_python.max_version=99.9"],
                 ["use.with_python.min_version=abc"],
                 ["not.with_python.min_version=abc"],
                 ["use.with_pypy=false"], ["use.with_pypy=true", "use.with_pypy=false"],
                 ["use.with_python2=yes", "not.with_python3=no"]):
        check_matcher(matcher, tags)
    matcher = ActiveTagMatcher(at_python_feature.ACTIVE_TAG_VALUE_PROVIDER)
    for tags in (["use.with_python.feature.coroutine=yes"],
                 ["not.with_python.feature.async_keyword=yes"],
                 ["use.with_python_has_async_function=no"],
                 ["use.with_python_has_asyncio.coroutine_decorator=xx"]):
        check_matcher(matcher, tags)


# -----------------------------------------------------------------------------
# 4. MATCHER WITH VALUE OBJECTS: call order and laziness
# -----------------------------------------------------------------------------
def part_matcher_with_value_objects():
    section("4. matcher with value objects (call logs)")
    lazy_n = LazyValue("n", [5])
    provider = LoggingDict({
        "n.min": NumberValueObject(lazy_n, logged_compare("ge", operator.ge)),
        "n.max": NumberValueObject(5, logged_compare("le", operator.le)),
        "flag": BoolValueObject(True, logged_compare("eq", operator.eq)),
        "name": LoggingValueObject("alice"),
        "plain": "p",
        "lazy_plain": LazyValue("plain", ["x"]),     # NOT evaluated by a dict
        "none": None,
        "num": 7,
    })
    matcher = ActiveTagMatcher(provider)
    matcher.use_exclude_reason = True
    cases = [
        ["use.with_n.min=3"], ["use.with_n.min=5"], ["use.with_n.min=6"],
        ["use.with_n.min=6", "use.with_n.min=4"],
        ["not.with_n.min=6", "not.with_n.min=x"],
        ["use.with_n.min=x"], ["not.with_n.min=x"],
        ["use.with_n.min=x", "use.with_n.min=1"],
        ["use.with_n.max=5", "not.with_n.max=9"],
        ["use.with_n.max=4", "not.with_n.max=9", "use.with_n.max=7"],
        ["use.with_flag=yes"], ["use.with_flag=no"], ["not.with_flag=on"],
        ["use.with_flag=nope"], ["not.with_flag=nope"],
        ["use.with_flag=nope", "use.with_flag=true"],
        ["use.with_name=alice", "use.with_name=bob", "not.with_name=charly",
         "not.with_name=alice", "only.with_name=dora", "not_active.with_name=e"],
        ["not.with_name=bob", "use.with_name=bob"],
        ["use.with_plain=p", "use.with_name=x", "use.with_flag=no"],
        ["use.with_lazy_plain=x"], ["not.with_lazy_plain=x"],
        ["use.with_none=None"], ["not.with_none=None"], ["use.with_none="],
        ["use.with_num=7"], ["not.with_num=7"],
        ["use.with_n.min=1", "use.with_n.max=9", "use.with_flag=on",
         "not.with_name=bob", "foo", "use.with_missing=1"],
    ]
    for tags in cases:
        check_matcher(matcher, tags)
    emit("lazy_n.calls:", lazy_n.calls)

    emit("--- ActiveTagValueProvider evaluates lazy values")
    lazy = LazyValue("browser", ["chrome", "firefox"])
    provider = ActiveTagValueProvider({"browser": lazy, "os": "linux"})
    matcher = ActiveTagMatcher(provider)
    matcher.use_exclude_reason = True
    for tags in (["use.with_browser=chrome"], ["use.with_browser=chrome"],
                 ["not.with_browser=chrome", "use.with_os=linux"],
                 ["use.with_browser=chrome", "use.with_browser=firefox"]):
        check_matcher(matcher, tags)

    emit("--- is_tag_negated override / odd truthiness")

    class OddMatcher(ActiveTagMatcher):
        mode = "str"

        def is_tag_negated(self, tag):
            LOG.append("is_tag_negated(%r)" % (tag,))
            if self.mode == "str":
                return "" if tag in ("use", "only") else "NEG"
            elif self.mode == "int":
                return 0 if tag in ("use", "only") else 2
            elif self.mode == "none":
                return None
            return [tag] if tag.startswith("not") else []

    for mode in ("str", "int", "none", "list"):
        matcher = OddMatcher(LoggingDict({"c": LoggingValueObject("a")}))
        matcher.mode = mode
        matcher.use_exclude_reason = True
        emit("mode:", mode)
        for tags in (["use.with_c=a"], ["use.with_c=b"], ["not.with_c=a"],
                     ["not.with_c=b"], ["active.with_c=a"], ["active.with_c=b"],
                     ["use.with_c=b", "not_active.with_c=b", "only.with_c=a"]):
            check_matcher(matcher, tags)

    emit("--- is_tag_group_enabled (direct)")
    matcher = ActiveTagMatcher(LoggingDict({"c": LoggingValueObject("a"), "d": "x"}))
    pattern = matcher.tag_pattern

    def pairs(*tags):
        return [(tag, pattern.match(tag)) for tag in tags]

    direct_cases = [
        ("c", []), ("zz", []), ("c", ()), ("c", None),
        ("c", pairs("use.with_c=a")), ("c", pairs("use.with_c=b")),
        ("c", pairs("not.with_c=a")), ("c", pairs("not.with_c=b")),
        ("c", pairs("use.with_c=a", "not.with_c=a")),
        ("c", pairs("use.with_c=b", "use.with_c=a", "not.with_c=c")),
        ("c", tuple(pairs("use.with_c=b", "use.with_c=c"))),
        ("zz", pairs("use.with_zz=b")),
        ("c", pairs("use.with_d=x")),              # category mismatch -> assert
        ("d", pairs("use.with_d=x", "use.with_c=a")),
        ("c", pairs("not.with_c=b", "not.with_d=x", "use.with_c=a")),
        ("zz", pairs("use.with_c=b")),             # unknown: returns before assert
        ("c", [("bad", None)]),
        ("c", [("bad",)]),
        ("c", iter(pairs("use.with_c=b"))),
    ]
    for ignore in (True, False):
        matcher.ignore_unknown_categories = ignore
        emit("ignore_unknown_categories=%r" % ignore)
        for category, group in direct_cases:
            shown = group if not isinstance(group, (list, tuple)) else \
                [p[0] for p in group]
            if not isinstance(group, (list, tuple, type(None))):
                shown = "<iterator>"
            emit("   is_tag_group_enabled(%r, %s) %s %s" % (
                category, shown,
                attempt(matcher.is_tag_group_enabled, category, group),
                drain_log()))


# -----------------------------------------------------------------------------
# 5. GROUPING / SELECTING
# -----------------------------------------------------------------------------
def part_grouping():
    section("5. select_active_tags / group_active_tags_by_category")
    matcher = ActiveTagMatcher({"c1": "a"})

    def show_groups(groups):
        for category, tag_pairs in groups:
            emit("   group %r (%s):" % (category, type(tag_pairs).__name__))
            for tag, match in tag_pairs:
                emit("      %r %s is_same=%s" % (
                    tag, sorted(match.groupdict().items()), match.string is tag))

    tag_lists = [
        [],
        ["foo", "bar"],
        ["use.with_c1=a"],
        ["use.with_c2=x", "foo", "use.with_c1=a", "not.with_c2=y", "use.with_c1=a",
         "only.with_c3=", "not_active.with_c1=b", "active.with_c2=x",
         "use.with_c1", "use.with_a.b=1", "use.with_a.b.c=1", "not.with_a.b=2"],
        ("not.with_b=1", "use.with_a=1", "not.with_b=1"),
    ]
    for tags in tag_lists:
        emit("tags:", list(tags))
        selected = matcher.select_active_tags(tags)
        emit("   select type:", type(selected).__name__)
        emit("   selected:", [(t, m.group("prefix"), m.group("category"),
                               m.group("value")) for t, m in selected])
        groups = matcher.group_active_tags_by_category(tags)
        emit("   group type:", type(groups).__name__)
        show_groups(groups)

    emit("--- laziness of the grouping generator")

    def tag_source():
        for tag in ["use.with_c1=b", "x", "not.with_c2=b", "use.with_c1=a"]:
            LOG.append("yield %s" % tag)
            yield tag

    groups = matcher.group_active_tags_by_category(tag_source())
    emit("   after call:", drain_log())
    first = next(groups)
    emit("   after first next:", drain_log(), first[0], len(first[1]))
    rest = list(groups)
    emit("   after exhaustion:", drain_log(), [(c, len(p)) for c, p in rest])
    emit("   next on exhausted:", attempt(next, groups))

    selected = matcher.select_active_tags(tag_source())
    emit("   select after call:", drain_log())
    emit("   select first:", next(selected)[0], drain_log())
    emit("   select rest:", [t for t, _ in selected], drain_log())

    emit("   exclude with generator tags:",
         attempt(matcher.should_exclude_with, tag_source()), drain_log())

    emit("--- bad tag inputs")
    for tags in (None, 5, [None], [5], [b"use.with_c1=a"], "use.with_c1=b",
                 [["use.with_c1=b"]]):
        emit("   should_exclude_with(%r) %s" % (
            tags, attempt(matcher.should_exclude_with, tags)))
        emit("   group(%r) %s" % (
            tags, attempt(lambda: list(matcher.group_active_tags_by_category(tags)))))

    class Tag(str):
        """String subclass (like behave.model.Tag)."""
        def __new__(cls, name, line):
            obj = str.__new__(cls, name)
            obj.line = line
            return obj

    tags = [Tag("use.with_c1=b", 1), Tag("foo", 2), Tag("not.with_c1=b", 3)]
    for category, tag_pairs in matcher.group_active_tags_by_category(tags):
        emit("   Tag group:", category, [(type(t).__name__, t.line, t)
                                          for t, _ in tag_pairs])
    emit("   Tag exclude:", attempt(matcher.should_exclude_with, tags))

    emit("--- subclass overriding the grouping hooks")

    class UpperMatcher(ActiveTagMatcher):
        def select_active_tags(self, tags):
            LOG.append("select_active_tags called")
            return super(UpperMatcher, self).select_active_tags(tags)

        def group_active_tags_by_category(self, tags):
            LOG.append("group_active_tags_by_category called")
            groups = super(UpperMatcher, self).group_active_tags_by_category(tags)
            for category, tag_pairs in groups:
                LOG.append("group %s:%d" % (category, len(tag_pairs)))
                yield category, tag_pairs

        def is_tag_group_enabled(self, group_category, group_tag_pairs):
            LOG.append("is_tag_group_enabled(%s)" % group_category)
            return super(UpperMatcher, self).is_tag_group_enabled(
                group_category, group_tag_pairs)

    matcher = UpperMatcher(LoggingDict({"c1": "a", "c2": "b", "c3": "c"}))
    matcher.use_exclude_reason = True
    for tags in (["use.with_c1=a", "use.with_c2=b", "use.with_c3=c"],
                 ["use.with_c1=a", "use.with_c2=x", "use.with_c3=y"],
                 ["use.with_c3=y", "use.with_c2=x", "use.with_c1=z"], []):
        check_matcher(matcher, tags)


# -----------------------------------------------------------------------------
# 6. VALUE PROVIDERS (incl. composite with cache)
# -----------------------------------------------------------------------------
def describe_cache(provider):
    parts = []
    for key, value in provider.data.items():
        parts.append("%s:%s" % (key, "callable" if callable(value) else repr(value)))
    return "{%s}" % ", ".join(parts)


def part_providers():
    section("6. value providers")
    lazy = LazyValue("os", ["linux", "darwin"])
    provider = ActiveTagValueProvider({"os": lazy, "browser": "chrome",
                                       "none": None, "unknown": Unknown,
                                       "vo": NumberValueObject(3)})
    for category in ("os", "os", "browser", "none", "unknown", "vo", "zz"):
        emit("   get(%r) %s | get(.., 'D') %s | [] %s :: %s" % (
            category, attempt(provider.get, category),
            attempt(provider.get, category, "D"),
            attempt(provider.__getitem__, category), drain_log()))
    emit("   items:", attempt(lambda: sorted(
        (k, describe_value(v)) for k, v in provider.items())), drain_log())
    emit("   categories:", sorted(provider.categories()), len(provider),
         "os" in provider, "zz" in provider)
    emit("   values:", attempt(lambda: list(provider.values())))
    emit("   default ctor:", ActiveTagValueProvider().data,
         ActiveTagValueProvider(None).get("x", 1))
    for value in (1, "s", None, len, LazyValue("u", [3])):
        emit("   use_value(%s) %s %s" % (describe_value(value), attempt(
            ActiveTagValueProvider.use_value, value) if value is not len
            else "skip", drain_log()))

    emit("--- CompositeActiveTagValueProvider")

    class P(LoggingDict):
        def __init__(self, name, data):
            LoggingDict.__init__(self, data)
            self.name = name

    class NoKeysProvider(object):
        name = "NK"

        def __init__(self, data):
            self._data = data

        def get(self, category, default=None):
            LOG.append("NK.get(%s, %s)" % (category, describe_value(default)))
            return self._data.get(category, default)

    lazy_a = LazyValue("a", ["a1", "a2", "a3"])
    lazy_n = LazyValue("n", [1, 2, 3])
    p1 = P("P1", {"x": "x1", "both": "first", "none": None, "lazy": lazy_a})
    p2 = ActiveTagValueProvider({"y": "y2", "both": "second",
                                 "lazy2": LazyValue("b", ["b1", "b2"]),
                                 "num": NumberValueObject(lazy_n, operator.ge)})
    p3 = NoKeysProvider({"z": "z3", "both": "third", "false": False, "zero": 0,
                         "empty": ""})
    composite = CompositeActiveTagValueProvider([p1, p2, p3])
    emit("   providers:", len(composite.value_providers), "cache:",
         describe_cache(composite))
    sequence = ["x", "x", "y", "z", "both", "both", "none", "none", "lazy",
                "lazy", "lazy2", "lazy2", "false", "zero", "empty", "missing",
                "missing", "num", "num"]
    for category in sequence:
        result = attempt(composite.get, category)
        log = drain_log()
        result2 = attempt(composite.get, category, "DEFAULT")
        log2 = drain_log()
        emit("   get(%r) %s %s" % (category, result if "Value" not in result
                                   else "-> <ValueObject>", log))
        emit("   get(%r, 'DEFAULT') %s %s" % (category, result2
                                              if "Value" not in result2
                                              else "-> <ValueObject>", log2))
        emit("      cache:", describe_cache(composite))
    emit("   get('missing', Unknown) is Unknown:",
         composite.get("missing", Unknown) is Unknown, drain_log())

    emit("   --- provider data changes after caching")
    p1["x"] = "x1-changed"
    emit("   get('x')", attempt(composite.get, "x"), drain_log())
    del p1["x"]
    emit("   get('x') after delete", attempt(composite.get, "x"), drain_log())
    emit("   get('x', 'D') after delete", attempt(composite.get, "x", "D"), drain_log())
    p1["missing"] = "now-there"
    emit("   get('missing')", attempt(composite.get, "missing"), drain_log())
    emit("   cached callables return:", sorted(
        (k, describe_value(v())) for k, v in composite.data.items()
        if k not in ("lazy", "lazy2")), drain_log())

    emit("   --- keys / values / items / categories")
    emit("   keys:", attempt(lambda: list(composite.keys())))
    drain_log()
    emit("   categories:", attempt(lambda: list(composite.categories())))
    emit("   values:", attempt(lambda: [describe_value(v) for v in composite.values()]))
    drain_log()
    emit("   items:", attempt(lambda: [(k, describe_value(v))
                                       for k, v in composite.items()]))
    drain_log()

    emit("   --- matcher on top of the composite provider")
    composite = CompositeActiveTagValueProvider([p1, p2, p3])
    matcher = ActiveTagMatcher(composite)
    matcher.use_exclude_reason = True
    for tags in (["use.with_both=first"], ["use.with_both=second"],
                 ["not.with_both=first"], ["use.with_y=y2", "not.with_z=z3"],
                 ["use.with_lazy=a1"], ["use.with_lazy=a1"],
                 ["use.with_num=1", "use.with_num=3"], ["not.with_num=9"],
                 ["use.with_false=False"], ["use.with_zero=0"], ["use.with_empty="],
                 ["use.with_none=None"], ["use.with_nowhere=1"],
                 ["not.with_nowhere=1"]):
        check_matcher(matcher, tags)
        emit("      cache:", describe_cache(composite))
    matcher.ignore_unknown_categories = False
    for tags in (["use.with_nowhere=1"], ["not.with_nowhere=1"],
                 ["use.with_nowhere=None"]):
        check_matcher(matcher, tags)

    emit("   --- nested composites, empty composites")
    inner = CompositeActiveTagValueProvider([P("I1", {"a": LazyValue("ia", [1, 2])})])
    outer = CompositeActiveTagValueProvider([P("O1", {}), inner])
    for _ in range(2):
        emit("   outer.get('a')", attempt(outer.get, "a"), drain_log())
        emit("   outer.get('b', 'D')", attempt(outer.get, "b", "D"), drain_log())
    emit("   caches:", describe_cache(outer), describe_cache(inner))
    empty = CompositeActiveTagValueProvider()
    emit("   empty.get:", attempt(empty.get, "a"), attempt(empty.get, "a", 3),
         list(empty.keys()), list(empty.items()), empty.value_providers)
    emit("   None providers:", CompositeActiveTagValueProvider(None).value_providers)
    gen_based = CompositeActiveTagValueProvider(p for p in [{"g": 1}])
    emit("   generator providers:", attempt(gen_based.get, "g"),
         attempt(gen_based.get, "g"), attempt(gen_based.get, "h", "D"))

    class BrokenProvider(object):
        def get(self, category, default=None):
            LOG.append("Broken.get(%s)" % category)
            raise RuntimeError("broken:%s" % category)

    broken = CompositeActiveTagValueProvider([P("B1", {"ok": 1}), BrokenProvider()])
    emit("   broken ok:", attempt(broken.get, "ok"), drain_log())
    emit("   broken bad:", attempt(broken.get, "bad"), drain_log(),
         describe_cache(broken))

    emit("--- utility functions")
    emit(bool_to_string(True), bool_to_string(0), bool_to_string("x"))
    values = {"a": 1, "b": 2}
    setup_active_tag_values(values, {"b": 20, "c": 30})
    emit(sorted(values.items()))
    print_active_tags({"k1": "v1", "k2": None})
    print_active_tags(ActiveTagValueProvider({"k": LazyValue("pk", ["pv"])}))
    drain_log()
    print_active_tags({"k1": "v1"}, ["k1", "k9"])
    print_active_tags(CompositeActiveTagValueProvider([{"q": 1}, NoKeysProvider({"r": 2})]))
    drain_log()


# -----------------------------------------------------------------------------
# 7. COMPOSITE / PREDICATE TAG MATCHERS
# -----------------------------------------------------------------------------
def part_composite_matchers():
    section("7. composite / predicate matchers")

    class Recorder(TagMatcher):
        def __init__(self, name, verdict):
            self.name = name
            self.verdict = verdict

        def should_exclude_with(self, tags):
            LOG.append("%s.exclude(%s)" % (self.name, ",".join(tags)))
            if isinstance(self.verdict, Exception):
                raise self.verdict
            return self.verdict

    emit(attempt(TagMatcher().should_exclude_with, []),
         attempt(TagMatcher().should_run_with, []))
    emit(attempt(PredicateTagMatcher, None))
    predicate = PredicateTagMatcher(lambda tags: "skip" in tags)
    for tags in ([], ["skip"], ["a", "skip"], ["a"]):
        emit("predicate", tags, attempt(predicate.should_exclude_with, tags),
             attempt(predicate.should_run_with, tags))
    odd = PredicateTagMatcher(lambda tags: [t for t in tags if t == "skip"])
    emit("odd predicate", attempt(odd.should_exclude_with, ["skip"]),
         attempt(odd.should_run_with, ["skip"]),
         attempt(odd.should_exclude_with, ["a"]), attempt(odd.should_run_with, ["a"]))

    verdict_sets = list(itertools.product([False, True], repeat=3))
    for verdicts in verdict_sets:
        matchers = [Recorder("M%d" % i, v) for i, v in enumerate(verdicts)]
        composite = CompositeTagMatcher(matchers)
        emit("composite%s exclude%s run%s" % (
            verdicts, attempt(composite.should_exclude_with, ["t"]),
            attempt(composite.should_run_with, ["t"])), drain_log())
    for verdicts in ([0, "", None], [0, "yes", True], [[], [0]], [None, 2]):
        matchers = [Recorder("M%d" % i, v) for i, v in enumerate(verdicts)]
        composite = CompositeTagMatcher(matchers)
        emit("composite%r exclude%s run%s" % (
            verdicts, attempt(composite.should_exclude_with, ["t"]),
            attempt(composite.should_run_with, ["t"])), drain_log())
    composite = CompositeTagMatcher([Recorder("M0", False),
                                     Recorder("M1", KeyError("k")),
                                     Recorder("M2", True)])
    emit("composite with error", attempt(composite.should_exclude_with, ["t"]),
         drain_log())
    emit("empty composite", CompositeTagMatcher().tag_matchers,
         attempt(CompositeTagMatcher().should_exclude_with, ["t"]),
         attempt(CompositeTagMatcher(None).should_run_with, ["t"]),
         attempt(CompositeTagMatcher(()).should_exclude_with, ["t"]))

    emit("--- composite of active tag matchers")
    m1 = ActiveTagMatcher(LoggingDict({"os": "linux"}))
    m1.value_provider.name = "OS"
    m2 = ActiveTagMatcher(LoggingDict({"browser": "chrome"}))
    m2.value_provider.name = "BR"
    m1.use_exclude_reason = m2.use_exclude_reason = True
    composite = CompositeTagMatcher([m1, m2, PredicateTagMatcher(
        lambda tags: "xfail" in tags)])
    for tags in ([], ["use.with_os=linux"], ["use.with_os=win32"],
                 ["use.with_browser=safari"], ["not.with_browser=chrome",
                                               "use.with_os=win32"],
                 ["use.with_os=linux", "use.with_browser=chrome"],
                 ["use.with_os=linux", "use.with_browser=chrome", "xfail"],
                 ["use.with_foo=1"]):
        m1.exclude_reason = m2.exclude_reason = None
        emit("tags=%s exclude%s run%s reasons=%r/%r" % (
            ",".join(tags) or "-", attempt(composite.should_exclude_with, tags),
            attempt(composite.should_run_with, tags),
            m1.exclude_reason, m2.exclude_reason))
        emit("   log:", " | ".join(drain_log()))


# -----------------------------------------------------------------------------
# 8. exclude_reason bookkeeping
# -----------------------------------------------------------------------------
def part_exclude_reason():
    section("8. exclude_reason bookkeeping")
    lazy = LazyValue("c", ["v1", "v2", "v3", "v4"])
    for use_reason in (False, True):
        provider = ActiveTagValueProvider({"c": lazy, "d": NumberValueObject(4)})
        matcher = ActiveTagMatcher(provider)
        matcher.use_exclude_reason = use_reason
        emit("use_exclude_reason=%r initial=%r" % (use_reason, matcher.exclude_reason))
        for tags in (["use.with_c=zz"], ["use.with_c=v2"], ["use.with_d=5"],
                     ["use.with_d=4"], ["not.with_d=4", "use.with_c=zz"]):
            result = attempt(matcher.should_exclude_with, tags)
            emit("   %s %s reason=%r %s" % (tags, result, matcher.exclude_reason,
                                            drain_log()))


def main():
    part_exhaustive()
    part_options()
    part_value_objects()
    part_matcher_with_value_objects()
    part_grouping()
    part_providers()
    part_composite_matchers()
    part_exclude_reason()
    emit("")
    emit("leftover-log:", drain_log())


if __name__ == "__main__":
    main()
