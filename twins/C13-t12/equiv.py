# -*- coding: UTF-8 -*-
"""
Equivalence transcript for property C13 (context scoping and cleanups).

Part A: operation histories on a bare Context (exhaustive up to a small length
        bound, random beyond), observed only through the public Context API,
        the cleanup call log, captured stdout and captured warnings.
Part B: boundary cases for cleanups and fixtures.
Part C: real "python -m behave" runs where steps and hooks at every level set
        attributes and register cleanups, with subsets of cleanups raising.

The transcript is canonical: line numbers, tmp paths and durations are masked.
"""
from __future__ import print_function
import sys
sys.path.insert(0, "/tmp/wtV/C13")

import contextlib
import hashlib
import io
import itertools
import os
import random
import re
import shutil
import subprocess
import tempfile
import textwrap
import warnings

from behave.configuration import Configuration
from behave.fixture import (
    fixture, use_fixture, use_fixture_by_tag, use_composite_fixture_with,
    fixture_call_params, InvalidFixtureError
)
from behave.runner import (
    Context, ContextMode, ContextMaskWarning,
    scoped_context_layer, use_context_with_mode
)

WORKTREE = "/tmp/wtV/C13"
PYTHON = sys.executable
OUT = []


def emit(text=""):
    OUT.append(text)


def normalize(text):
    text = re.sub(r"line \d+", "line N", text)
    text = re.sub(r":\d+\)", ":N)", text)
    text = re.sub(r"0x[0-9a-fA-F]+", "0xADDR", text)
    text = re.sub(r"\d+\.\d+s", "T.TTTs", text)
    text = re.sub(r"^\s*[\^~]+\s*$\n?", "", text, flags=re.M)
    return text


# ---------------------------------------------------------------------------
# PART A: operation histories
# ---------------------------------------------------------------------------
_CONFIGS = {}


def make_config(verbose):
    if verbose not in _CONFIGS:
        config = Configuration(command_args=[], load_config=False)
        config.verbose = verbose
        _CONFIGS[verbose] = config
    return _CONFIGS[verbose]


class FakeRunner(object):
    def __init__(self, verbose=False):
        self.config = make_config(verbose)
        self.formatters = []
        self.captured = "CAPTURED"


class Boom(Exception):
    pass


NAMES = ["a", "b", "failed", "aborted", "on_cleanup_error",
         "fail_on_cleanup_errors", "text", "table", "feature"]


class World(object):
    """One context plus everything needed to observe it."""

    def __init__(self, verbose=False):
        self.runner = FakeRunner(verbose)
        self.context = Context(self.runner)
        self.calls = []
        self.counter = itertools.count(1)

    # -- cleanup function factories
    def make_cleanup(self, raising=False, kind="plain"):
        ident = "c%d" % next(self.counter)
        calls = self.calls

        def cleanup(*args, **kwargs):
            calls.append((ident, args, tuple(sorted(kwargs.items()))))
            if raising:
                raise Boom("boom in %s" % ident)
        cleanup.__name__ = "cleanup_%s" % ident
        if kind == "object":
            class CleanupObject(object):
                def __call__(self, *args, **kwargs):
                    return cleanup(*args, **kwargs)

                def __repr__(self):
                    return "<CleanupObject %s>" % ident
            return ident, CleanupObject()
        return ident, cleanup

    def make_fixture(self, kind):
        ident = "f%d" % next(self.counter)
        calls = self.calls
        if kind == "gen":
            @fixture
            def the_fixture(context, *args, **kwargs):
                calls.append((ident, "setup", args, tuple(sorted(kwargs.items()))))
                context.fixture_value = ident
                yield ident
                calls.append((ident, "cleanup"))
        elif kind == "gen_bad_setup":
            @fixture
            def the_fixture(context, *args, **kwargs):
                calls.append((ident, "setup-fails"))
                raise Boom("setup of %s" % ident)
                yield ident     # pylint: disable=unreachable
        elif kind == "gen_bad_cleanup":
            @fixture
            def the_fixture(context, *args, **kwargs):
                calls.append((ident, "setup"))
                yield ident
                calls.append((ident, "cleanup-fails"))
                raise Boom("cleanup of %s" % ident)
        elif kind == "gen_two_yields":
            @fixture
            def the_fixture(context, *args, **kwargs):
                calls.append((ident, "setup"))
                yield ident
                calls.append((ident, "second-yield"))
                yield ident
                calls.append((ident, "NOT-REACHED"))
        elif kind == "plain":
            @fixture(name="fixture.plain")
            def the_fixture(context, *args, **kwargs):
                calls.append((ident, "plain", args, tuple(sorted(kwargs.items()))))
                return ident
        elif kind == "plain_bad":
            @fixture
            def the_fixture(context, *args, **kwargs):
                calls.append((ident, "plain-fails"))
                raise Boom("plain %s" % ident)
        else:
            raise ValueError(kind)
        the_fixture.__name__ = "fixture_%s" % ident
        return ident, the_fixture

    # -- observation
    def snapshot(self):
        context = self.context
        parts = []
        for name in NAMES:
            present = name in context
            value = getattr(context, name, "<missing>")
            if callable(value):
                value = getattr(value, "__name__", "callable")
            parts.append("%s=%s/%r" % (name, int(present), value))
        stack = context._stack      # pylint: disable=protected-access
        layers = [frame.get("@layer") for frame in stack]
        cleanups = [len(frame.get("@cleanups", ())) for frame in stack]
        origin = sorted((name, mode.name)
                        for name, mode in context._origin.items()
                        if name in ("a", "b", "failed", "aborted"))
        record = sorted((name, os.path.basename(rec[0]), rec[2])
                        for name, rec in context._record.items()
                        if name in ("a", "b"))
        return "%s | layers=%r cleanups=%r errors=%r mode=%s origin=%r record=%r" % (
            " ".join(parts), layers, cleanups, context._root["cleanup_errors"],
            context._mode.name, origin, record)


def custom_cleanup_error_handler(context, cleanup_func, exception):
    print("CUSTOM-HANDLER: %s: %s" % (
        getattr(cleanup_func, "__name__", repr(cleanup_func)), exception))


def raising_cleanup_error_handler(context, cleanup_func, exception):
    raise RuntimeError("handler failed for %s" % exception)


def op_push(world, layer):
    world.context._push(layer) if layer != "<default>" else world.context._push()


def op_pop(world):
    if len(world.context._stack) <= 1:
        return "skipped:root"
    world.context._pop()


def op_set(world, name, value):
    setattr(world.context, name, value)


def op_get(world, name):
    return getattr(world.context, name)


def op_get_default(world, name):
    return getattr(world.context, name, "DEFAULT")


def op_del(world, name):
    delattr(world.context, name)


def op_contains(world, name):
    return name in world.context


def op_set_root(world, name, value):
    world.context._set_root_attribute(name, value)


def op_use_or_assign(world, name, value):
    return world.context.use_or_assign_param(name, value)


def op_use_or_create(world, name, *args, **kwargs):
    def factory(*fargs, **fkwargs):
        world.calls.append(("factory", fargs, tuple(sorted(fkwargs.items()))))
        return ("created", fargs, tuple(sorted(fkwargs.items())))
    return world.context.use_or_create_param(name, factory, *args, **kwargs)


def op_add_cleanup(world, raising=False, kind="plain", args=(), kwargs=None,
                   twice=False):
    ident, func = world.make_cleanup(raising, kind)
    kwargs = dict(kwargs or {})
    world.context.add_cleanup(func, *args, **kwargs)
    if twice:
        world.context.add_cleanup(func, *args, **kwargs)
    return ident


def op_add_cleanup_non_callable(world):
    world.context.add_cleanup("not-callable")


def op_use_fixture(world, kind, *args, **kwargs):
    ident, func = world.make_fixture(kind)
    return use_fixture(func, world.context, *args, **kwargs)


def op_use_composite(world, kinds):
    params = []
    for kind in kinds:
        _, func = world.make_fixture(kind)
        params.append(fixture_call_params(func, "x", key=kind))
    return use_composite_fixture_with(world.context, params)


def op_use_fixture_by_tag(world, tag):
    _, gen = world.make_fixture("gen")
    _, plain = world.make_fixture("plain")
    registry = {
        "fixture.gen": gen,
        "fixture.plain": (plain, (1, 2), dict(k=3)),
        "fixture.list": [gen, ("L",), {}],
        "fixture.bad": 42,
    }
    return use_fixture_by_tag(tag, world.context, registry)


def op_abort(world):
    world.context.abort(reason="because")


def op_handler(world, which):
    handlers = {
        "custom": custom_cleanup_error_handler,
        "ignore": Context.ignore_cleanup_error,
        "raising": raising_cleanup_error_handler,
    }
    world.context.on_cleanup_error = handlers[which]


def op_fail_on_cleanup_errors(world, value):
    world.context.fail_on_cleanup_errors = value


def op_do_cleanups(world):
    world.context._do_cleanups()


def op_scoped(world, layer, raising):
    with scoped_context_layer(world.context, layer) as ctx:
        ident, func = world.make_cleanup(raising)
        ctx.add_cleanup(func)
        ctx.a = "scoped-%s" % ident
        return ("inside", ctx.a, "a" in ctx)


def op_attach(world):
    return world.context.attach("text/plain", b"data")


def op_captured(world):
    return world.context.captured


def op_private(world, name):
    return (name in world.context, getattr(world.context, name, "NO-PRIVATE"))


def op_dump(world, pretty):
    # -- NOTE: only structure; values may contain function reprs.
    world.context._dump(pretty=pretty, prefix="D:")


def user(op):
    """Run the operation in USER mode."""
    def wrapper(world, *args, **kwargs):
        with world.context.use_with_user_mode():
            return op(world, *args, **kwargs)
    wrapper.__name__ = "user:" + op.__name__
    return wrapper


def behave_in_user(op):
    """USER mode outside, BEHAVE mode inside (as execute_steps does)."""
    def wrapper(world, *args, **kwargs):
        with use_context_with_mode(world.context, ContextMode.USER):
            with world.context._use_with_behave_mode():
                return op(world, *args, **kwargs)
    wrapper.__name__ = "behave-in-user:" + op.__name__
    return wrapper


def run_history(history, verbose=False, full=True):
    """Apply a list of (op, args, kwargs) and return the log lines."""
    world = World(verbose)
    lines = []
    for index, (op, args, kwargs) in enumerate(history):
        stdout = io.StringIO()
        calls_before = len(world.calls)
        with warnings.catch_warnings(record=True) as caught:
            warnings.simplefilter("always")
            with contextlib.redirect_stdout(stdout):
                try:
                    result = "-> %r" % (op(world, *args, **kwargs),)
                except BaseException as e:    # pylint: disable=broad-except
                    result = "!! %s: %s" % (e.__class__.__name__, e)
        described_args = ",".join([repr(a) for a in args] +
                                  ["%s=%r" % kv for kv in sorted(kwargs.items())])
        lines.append("%02d %s(%s) %s" % (index, op.__name__, described_args,
                                         normalize(result)))
        new_calls = world.calls[calls_before:]
        if new_calls:
            lines.append("   calls: %r" % (new_calls,))
        for warning in caught:
            lines.append("   warning: %s: %s" % (warning.category.__name__,
                                                 normalize(str(warning.message))))
        printed = normalize(stdout.getvalue())
        if printed:
            for text_line in printed.splitlines():
                lines.append("   stdout| " + text_line)
        if full:
            lines.append("   state: " + world.snapshot())
    lines.append("   final: " + world.snapshot())
    lines.append("   all-calls: %r" % (world.calls,))
    return lines


def H(op, *args, **kwargs):
    return (op, args, kwargs)


SMALL_ALPHABET = [
    H(op_push, "scenario"),
    H(op_push, "<default>"),
    H(op_pop),
    H(op_set, "a", 1),
    H(user(op_set), "a", 2),
    H(op_del, "a"),
    H(op_get, "a"),
    H(op_contains, "a"),
    H(op_set_root, "a", "root"),
    H(op_add_cleanup),
    H(op_add_cleanup, raising=True),
    H(op_add_cleanup, args=("x",), kwargs={"layer": "testrun"}),
    H(op_use_fixture, "gen"),
    H(op_use_fixture, "gen_bad_setup"),
]

BIG_ALPHABET = SMALL_ALPHABET + [
    H(op_push, "feature"),
    H(op_push, "rule"),
    H(op_push, "testrun"),
    H(op_push, None),
    H(op_pop),
    H(op_pop),
    H(op_set, "b", "B"),
    H(user(op_set), "b", "UB"),
    H(behave_in_user(op_set), "a", "BU"),
    H(op_set, "failed", "shadow-failed"),
    H(user(op_set), "aborted", "shadow-aborted"),
    H(op_del, "b"),
    H(user(op_del), "a"),
    H(op_del, "failed"),
    H(op_get, "b"),
    H(op_get_default, "b"),
    H(op_get, "failed"),
    H(op_get, "config"),
    H(op_contains, "b"),
    H(op_contains, "@layer"),
    H(op_contains, "@cleanups"),
    H(op_private, "_stack_missing"),
    H(op_private, "_mode"),
    H(op_set_root, "b", "root-b"),
    H(user(op_set_root), "a", "user-root"),
    H(op_set_root, "failed", True),
    H(op_abort),
    H(op_use_or_assign, "a", "assigned"),
    H(op_use_or_assign, "b", None),
    H(user(op_use_or_assign), "b", "user-assigned"),
    H(op_use_or_create, "a", 1, 2, k=3),
    H(op_use_or_create, "b"),
    H(op_add_cleanup, twice=True),
    H(op_add_cleanup, kind="object"),
    H(op_add_cleanup, raising=True, kind="object"),
    H(op_add_cleanup, args=(1, 2), kwargs={"k": "v"}),
    H(op_add_cleanup, raising=True, args=(1,)),
    H(op_add_cleanup, args=(1,), twice=True),
    H(op_add_cleanup, kwargs={"layer": "feature"}),
    H(op_add_cleanup, raising=True, kwargs={"layer": "scenario"}),
    H(op_add_cleanup, kwargs={"layer": "rule", "k": 1}),
    H(op_add_cleanup, kwargs={"layer": "nowhere"}),
    H(op_add_cleanup, kwargs={"layer": ""}),
    H(op_add_cleanup, raising=True, kwargs={"layer": "testrun"}),
    H(op_add_cleanup_non_callable),
    H(op_use_fixture, "gen", 1, k=2),
    H(op_use_fixture, "gen_bad_cleanup"),
    H(op_use_fixture, "gen_two_yields"),
    H(op_use_fixture, "plain", 7, z=8),
    H(op_use_fixture, "plain_bad"),
    H(op_use_composite, ["gen", "plain", "gen"]),
    H(op_use_composite, ["gen", "gen_bad_setup", "gen"]),
    H(op_use_composite, ["gen_bad_cleanup", "plain_bad"]),
    H(op_use_composite, []),
    H(op_use_fixture_by_tag, "fixture.gen"),
    H(op_use_fixture_by_tag, "fixture.plain"),
    H(op_use_fixture_by_tag, "fixture.list"),
    H(op_use_fixture_by_tag, "fixture.bad"),
    H(op_use_fixture_by_tag, "fixture.unknown"),
    H(op_handler, "custom"),
    H(op_handler, "ignore"),
    H(op_handler, "raising"),
    H(user(op_handler), "custom"),
    H(op_del, "on_cleanup_error"),
    H(op_fail_on_cleanup_errors, False),
    H(op_fail_on_cleanup_errors, True),
    H(op_del, "fail_on_cleanup_errors"),
    H(op_do_cleanups),
    H(op_scoped, "scenario", False),
    H(op_scoped, None, True),
    H(op_attach),
    H(op_captured),
    H(op_dump, False),
]


def part_a():
    emit("=" * 70)
    emit("PART A1: exhaustive histories (length <= 3 over the small alphabet)")
    emit("=" * 70)
    count = 0
    digest = hashlib.sha256()
    for length in (1, 2, 3):
        for history in itertools.product(SMALL_ALPHABET, repeat=length):
            lines = run_history(list(history), full=False)
            count += 1
            for line in lines:
                digest.update(line.encode("utf-8"))
                digest.update(b"\n")
            if length <= 2:
                emit("-- history #%d" % count)
                for line in lines:
                    emit(line)
            elif count % 50 == 0:
                emit("-- digest after %d histories: %s" % (count, digest.hexdigest()))
    emit("-- histories=%d digest=%s" % (count, digest.hexdigest()))

    emit("=" * 70)
    emit("PART A2: exhaustive length 4 over a core alphabet (digest per block)")
    emit("=" * 70)
    core = [SMALL_ALPHABET[i] for i in (0, 2, 3, 4, 5, 6, 8, 9, 10, 11, 12)]
    count = 0
    digest = hashlib.sha256()
    for history in itertools.product(core, repeat=4):
        prefix = [H(op_push, "feature")]
        lines = run_history(prefix + list(history), full=False)
        count += 1
        for line in lines:
            digest.update(line.encode("utf-8"))
            digest.update(b"\n")
        if count % 500 == 0:
            emit("-- digest after %d histories: %s" % (count, digest.hexdigest()))
    emit("-- histories=%d digest=%s" % (count, digest.hexdigest()))

    emit("=" * 70)
    emit("PART A3: random histories (length 40 over the big alphabet)")
    emit("=" * 70)
    rng = random.Random(20260927)
    digest = hashlib.sha256()
    for number in range(400):
        verbose = (number % 3 == 0)
        history = [rng.choice(BIG_ALPHABET) for _ in range(40)]
        # -- FINISH: pop all remaining layers, then the testrun cleanups.
        history += [H(op_pop)] * 12 + [H(op_do_cleanups)]
        lines = run_history(history, verbose=verbose, full=(number < 25))
        for line in lines:
            digest.update(line.encode("utf-8"))
            digest.update(b"\n")
        if number < 60:
            emit("-- random history #%d verbose=%s" % (number, verbose))
            for line in lines:
                emit(line)
        else:
            emit("-- random history #%d digest=%s" % (number, digest.hexdigest()))


# ---------------------------------------------------------------------------
# PART B: boundary cases
# ---------------------------------------------------------------------------
def part_b():
    emit("=" * 70)
    emit("PART B: boundary cases")
    emit("=" * 70)

    cases = []
    # -- every subset of 4 cleanups raising, in a nested layer; all handlers.
    for handler in (None, "custom", "ignore", "raising"):
        for fail_flag in (None, False):
            for mask in range(16):
                history = [H(op_push, "feature"), H(op_push, "scenario")]
                if handler:
                    history.append(H(op_handler, handler))
                if fail_flag is not None:
                    history.append(H(op_fail_on_cleanup_errors, fail_flag))
                for bit in range(4):
                    raising = bool(mask & (1 << bit))
                    if bit == 1:
                        history.append(H(op_add_cleanup, raising=raising,
                                         args=("arg",), kwargs={"k": bit}))
                    elif bit == 2:
                        history.append(H(op_add_cleanup, raising=raising,
                                         kwargs={"layer": "feature"}))
                    elif bit == 3:
                        history.append(H(op_add_cleanup, raising=raising,
                                         kind="object"))
                    else:
                        history.append(H(op_add_cleanup, raising=raising))
                history += [H(op_pop), H(op_get_default, "on_cleanup_error"),
                            H(op_pop), H(op_do_cleanups)]
                cases.append(("subset handler=%s fail=%s mask=%d" %
                              (handler, fail_flag, mask), history))

    # -- pop of the root layer, then any operation.
    cases.append(("pop root", [H(op_add_cleanup), (lambda w: w.context._pop(), (), {}),
                               H(op_contains, "a"), H(op_get, "a"),
                               H(op_set, "a", 1), H(op_add_cleanup),
                               H(op_do_cleanups)]))
    # -- cleanup that registers another cleanup / mutates the context.
    def op_cleanup_registering(world):
        def inner():
            world.calls.append("inner-cleanup")

        def outer():
            world.calls.append("outer-cleanup")
            world.context.add_cleanup(inner)
            world.context.a = "set-by-cleanup"
        world.context.add_cleanup(outer)
    cases.append(("cleanup registers cleanup",
                  [H(op_push, "scenario"), H(op_cleanup_registering),
                   H(op_add_cleanup), H(op_do_cleanups), H(op_do_cleanups),
                   H(op_pop), H(op_contains, "a")]))
    # -- frame without "@cleanups" (a user fiddling with the stack).
    def op_strip_cleanups(world):
        world.context._stack[0].pop("@cleanups")
    cases.append(("frame without cleanups list",
                  [H(op_push, "scenario"), H(op_strip_cleanups), H(op_do_cleanups),
                   H(op_add_cleanup), H(op_pop)]))
    # -- shadowing and deletion discipline.
    cases.append(("shadow/delete discipline",
                  [H(op_set, "a", "root"), H(op_push, "feature"),
                   H(user(op_set), "a", "feature"), H(op_push, "scenario"),
                   H(op_del, "a"), H(op_set, "a", "scenario"), H(op_get, "a"),
                   H(op_del, "a"), H(op_get, "a"), H(op_del, "a"),
                   H(op_pop), H(op_get, "a"), H(op_del, "a"), H(op_get, "a"),
                   H(op_pop), H(op_get, "a"), H(op_del, "a"), H(op_get, "a"),
                   H(op_contains, "a"), H(op_del, "a")]))
    # -- masking warnings in all mode combinations, verbose on and off.
    for verbose in (False, True):
        for first in (op_set, user(op_set)):
            for second in (op_set, user(op_set), behave_in_user(op_set),
                           op_set_root, user(op_set_root)):
                history = [H(first, "a", 1), H(op_push, "feature"),
                           H(second, "a", 2), H(op_push, "scenario"),
                           H(second, "a", 3), H(op_pop), H(op_pop), H(op_get, "a")]
                cases.append(("masking verbose=%s %s then %s" %
                              (verbose, first.__name__, second.__name__), history,
                              verbose))
    # -- empty and odd attribute names.
    cases.append(("odd names",
                  [H(op_contains, "_"), H(op_get_default, "_"),
                   H(op_set, "_private", 1), H(op_contains, "_private"),
                   H(op_get, "_private"), H(op_contains, ""), H(op_get, ""),
                   H(op_set, "", 1), H(op_get, "__wrapped__"),
                   H(op_contains, "@layer"), H(op_get, "@layer")]))
    # -- fixtures: cleanup even after failing setup; order with plain cleanups.
    cases.append(("fixtures and cleanups interleaved",
                  [H(op_push, "feature"), H(op_use_fixture, "gen", 1),
                   H(op_add_cleanup), H(op_use_fixture, "gen_bad_setup"),
                   H(op_use_fixture, "gen_two_yields"), H(op_add_cleanup, raising=True),
                   H(op_use_fixture, "gen_bad_cleanup"), H(op_use_fixture, "plain"),
                   H(op_use_composite, ["gen", "gen_bad_setup", "gen"]),
                   H(op_get, "fixture_value"), H(op_pop),
                   H(op_contains, "fixture_value")]))
    cases.append(("fixture in user mode, verbose",
                  [H(op_push, "feature"), H(user(op_use_fixture), "gen"),
                   H(op_push, "scenario"), H(user(op_use_fixture), "gen"),
                   H(op_use_fixture, "gen"), H(op_pop), H(op_pop)], True))

    for case in cases:
        name, history = case[0], case[1]
        verbose = case[2] if len(case) > 2 else False
        emit("-- case: %s" % name)
        for line in run_history(history, verbose=verbose, full=True):
            emit(line)


# ---------------------------------------------------------------------------
# PART C: real runs
# ---------------------------------------------------------------------------
ENVIRONMENT_PY = '''
from __future__ import print_function
from behave import fixture, use_fixture

def userdata(context):
    return context.config.userdata

def should_raise(context, what):
    return what in userdata(context).get("raise", "").split(",")

def note(text):
    print("NOTE: %s" % text)

def make_cleanup(context, name, *args, **kwargs):
    raising = should_raise(context, name)
    def cleanup(*cargs, **ckwargs):
        note("cleanup %s args=%r kwargs=%r" % (name, cargs, sorted(ckwargs.items())))
        if raising:
            raise RuntimeError("cleanup %s raises" % name)
    cleanup.__name__ = "cleanup_%s" % name.replace(".", "_")
    return cleanup

@fixture
def layered_fixture(context, name):
    note("fixture-setup %s" % name)
    if should_raise(context, "setup." + name):
        raise RuntimeError("fixture setup %s raises" % name)
    setattr(context, "fixture_" + name.replace(".", "_"), name)
    yield name
    note("fixture-cleanup %s" % name)
    if should_raise(context, "teardown." + name):
        raise RuntimeError("fixture teardown %s raises" % name)

def show(context, where):
    names = ["all_attr", "feature_attr", "rule_attr", "scenario_attr",
             "step_attr", "shared", "fixture_all", "fixture_feature",
             "fixture_rule", "fixture_scenario", "fixture_tag"]
    seen = ["%s=%r" % (n, getattr(context, n)) for n in names if n in context]
    layers = [f.get("@layer") for f in context._stack]
    note("%s: %s layers=%r" % (where, " ".join(seen), layers))

def before_all(context):
    context.all_attr = "all"
    context.shared = "shared@all"
    context.add_cleanup(make_cleanup(context, "all.1"))
    use_fixture(layered_fixture, context, "all")
    context.add_cleanup(make_cleanup(context, "all.2"), "x", key="y")
    if should_raise(context, "hook.before_all"):
        raise RuntimeError("before_all raises")
    show(context, "before_all")

def before_feature(context, feature):
    context.feature_attr = feature.name
    context.shared = "shared@feature"
    context.add_cleanup(make_cleanup(context, "feature.1"))
    use_fixture(layered_fixture, context, "feature")
    context.add_cleanup(make_cleanup(context, "feature.2"))
    if should_raise(context, "hook.before_feature"):
        raise RuntimeError("before_feature raises")
    show(context, "before_feature")

def before_rule(context, rule):
    context.rule_attr = rule.name
    context.shared = "shared@rule"
    context.add_cleanup(make_cleanup(context, "rule.1"))
    use_fixture(layered_fixture, context, "rule")
    context.add_cleanup(make_cleanup(context, "rule.to_feature"), layer="feature")
    show(context, "before_rule")

def before_tag(context, tag):
    if tag == "fixture.tag":
        use_fixture(layered_fixture, context, "tag")
    elif tag == "cleanup.to_testrun":
        context.add_cleanup(make_cleanup(context, "tag.to_testrun"), layer="testrun")

def before_scenario(context, scenario):
    context.scenario_attr = scenario.name
    context.shared = "shared@scenario"
    context.add_cleanup(make_cleanup(context, "scenario.1"))
    use_fixture(layered_fixture, context, "scenario")
    context.add_cleanup(make_cleanup(context, "scenario.2"), 1, 2)
    if should_raise(context, "hook.before_scenario"):
        raise RuntimeError("before_scenario raises")
    show(context, "before_scenario")

def before_step(context, step):
    if "step_attr" in context:
        note("before_step sees step_attr=%r" % context.step_attr)

def after_step(context, step):
    if should_raise(context, "hook.after_step") and "passes" in step.name:
        raise RuntimeError("after_step raises")

def after_scenario(context, scenario):
    show(context, "after_scenario")
    context.add_cleanup(make_cleanup(context, "scenario.late"))
    if should_raise(context, "hook.after_scenario"):
        raise RuntimeError("after_scenario raises")

def after_rule(context, rule):
    show(context, "after_rule")

def after_feature(context, feature):
    show(context, "after_feature")
    context.add_cleanup(make_cleanup(context, "feature.late"))

def after_all(context):
    show(context, "after_all")
    def report():
        for feature in context._runner.features:
            note("STATUS feature %s: %s" % (feature.name, feature.status.name))
            for item in feature.walk_scenarios(with_outlines=True, with_rules=True):
                note("STATUS   %s %s: %s" % (item.type, item.name, item.status.name))
        note("cleanup_errors=%r failed=%r aborted=%r" % (
            context._root["cleanup_errors"], context.failed, context.aborted))
    context.add_cleanup(report)
    context.add_cleanup(make_cleanup(context, "all.late"))
'''

STEPS_PY = '''
# -*- coding: UTF-8 -*-
from __future__ import print_function
from behave import given, when, then, step
import environment as env

@step(u'a step passes')
def step_passes(context):
    pass

@step(u'a step fails')
def step_fails(context):
    assert False, "XFAIL-STEP"

@step(u'a step raises')
def step_raises(context):
    raise RuntimeError("step raises")

@step(u'the step sets "{name}" to "{value}"')
def step_sets(context, name, value):
    setattr(context, name, value)

@step(u'the step sees "{name}" as "{value}"')
def step_sees(context, name, value):
    actual = getattr(context, name)
    assert actual == value, "%r != %r" % (actual, value)

@step(u'the step does not see "{name}"')
def step_does_not_see(context, name):
    assert name not in context
    assert getattr(context, name, None) is None

@step(u'the step registers cleanup "{name}"')
def step_registers_cleanup(context, name):
    context.add_cleanup(env.make_cleanup(context, name))

@step(u'the step registers in layer "{layer}" the cleanup "{name}"')
def step_registers_cleanup_for_layer(context, name, layer):
    context.add_cleanup(env.make_cleanup(context, name), layer=layer)

@step(u'the step uses fixture "{name}"')
def step_uses_fixture(context, name):
    env.use_fixture(env.layered_fixture, context, name)

@step(u'the step deletes "{name}"')
def step_deletes(context, name):
    delattr(context, name)

@step(u'the step shows the context')
def step_shows(context):
    env.show(context, "step")

@step(u'a step with text and table executes nested steps')
def step_nested(context):
    before = (context.text, [tuple(row.cells) for row in context.table] if context.table else None)
    context.execute_steps(u"""
        Given the step sets "step_attr" to "nested"
        And a step with own text
            \\"\\"\\"
            inner text
            \\"\\"\\"
        And a step with own table
            | x | y |
            | 1 | 2 |
        And the step registers cleanup "nested.cleanup"
    """)
    after = (context.text, [tuple(row.cells) for row in context.table] if context.table else None)
    env.note("nested: before=%r after=%r same=%r" % (before, after, before == after))
    assert before == after

@step(u'a step with text executes failing nested steps')
def step_nested_failing(context):
    before = (context.text, context.table)
    try:
        context.execute_steps(u"""
            Given a step with own text
                \\"\\"\\"
                inner text
                \\"\\"\\"
            And a step fails
            And a step passes
        """)
    except AssertionError as e:
        first_line = str(e).splitlines()[0]
        env.note("nested failed: %s" % first_line)
    after = (context.text, context.table)
    env.note("nested-failing: before=%r after=%r mode=%s" % (before, after, context._mode.name))
    assert before == after

@step(u'a step executes undefined nested steps')
def step_nested_undefined(context):
    context.execute_steps(u"Given an unknown nested step")

@step(u'a step with own text')
def step_own_text(context):
    env.note("own text=%r table=%r" % (context.text, context.table))

@step(u'a step with own table')
def step_own_table(context):
    env.note("own text=%r table=%r" % (context.text, [tuple(r.cells) for r in context.table]))
'''

FEATURE_ONE = u'''
@fixture.tag
Feature: One
  Background:
    Given the step sets "background_attr" to "bg"

  Scenario: S1 attributes
    Given the step sees "all_attr" as "all"
    And the step sees "shared" as "shared@scenario"
    When the step sets "shared" to "shared@step"
    And the step sets "step_attr" to "from-step"
    Then the step sees "shared" as "shared@step"
    And the step registers cleanup "step.1"
    And the step registers in layer "feature" the cleanup "step.to_feature"
    And the step uses fixture "step"
    And the step shows the context

  Scenario: S2 does not see S1 leftovers
    Given the step does not see "step_attr"
    And the step sees "shared" as "shared@scenario"
    And the step sees "fixture_tag" as "tag"
    When the step sets "local" to "x"
    And the step sees "local" as "x"
    And the step deletes "local"
    Then the step does not see "local"
    And the step deletes "all_attr"

  @cleanup.to_testrun
  Scenario: S3 failing step then cleanup
    Given the step registers cleanup "step.before_failure"
    When a step fails
    Then a step passes

  Scenario: S4 raising step
    Given the step registers cleanup "step.before_raise"
    When a step raises

  Scenario: S5 nested steps
    Given a step with text and table executes nested steps
      """
      outer text
      """
    And a step with text and table executes nested steps
      | a | b |
      | 1 | 2 |
    And a step with text executes failing nested steps
      """
      outer text 2
      """
    And the step sees "step_attr" as "nested"
    When a step executes undefined nested steps
    Then a step passes

  Scenario: S6 cleanup for unknown layer
    Given the step registers in layer "rule" the cleanup "step.nolayer"
'''

FEATURE_TWO = u'''
Feature: Two with rules

  Scenario: T0 before rules
    Given a step passes
    And the step does not see "rule_attr"

  Rule: R1
    Background:
      Given the step sees "rule_attr" as "R1"

    Scenario: T1
      Given the step sees "shared" as "shared@scenario"
      And the step registers in layer "rule" the cleanup "step.to_rule"
      And the step registers in layer "testrun" the cleanup "step.to_testrun"
      And the step uses fixture "step"

    @fixture.tag
    Scenario Outline: T2 <name>
      Given the step sets "outline_attr" to "<name>"
      Then the step sees "outline_attr" as "<name>"
      And the step registers cleanup "step.outline.<name>"

      Examples:
        | name  |
        | alice |
        | bob   |

  Rule: R2
    Scenario: T3
      Given the step sees "rule_attr" as "R2"
      And the step does not see "outline_attr"
      And the step shows the context
      When the step deletes "shared"
      Then the step sees "shared" as "shared@rule"
      And the step shows the context

  Rule: R3 empty
'''

FEATURE_THREE = u'''
Feature: Three empty
'''


RUNS = [
    ("no raising", []),
    ("scenario cleanup raises", ["-D", "raise=scenario.1"]),
    ("two scenario cleanups raise", ["-D", "raise=scenario.1,scenario.2,scenario.late"]),
    ("step cleanup raises", ["-D", "raise=step.1,step.before_failure"]),
    ("feature cleanups raise", ["-D", "raise=feature.1,feature.late,step.to_feature"]),
    ("rule cleanups raise", ["-D", "raise=rule.1,rule.to_feature,step.to_rule"]),
    ("testrun cleanups raise", ["-D", "raise=all.1,all.late,step.to_testrun"]),
    ("testrun cleanup by tag raises", ["-D", "raise=tag.to_testrun"]),
    ("fixture teardowns raise", ["-D", "raise=teardown.scenario,teardown.tag,teardown.all"]),
    ("fixture teardown feature/rule/step raise",
     ["-D", "raise=teardown.feature,teardown.rule,teardown.step"]),
    ("fixture setups raise", ["-D", "raise=setup.scenario"]),
    ("fixture setup feature raises", ["-D", "raise=setup.feature"]),
    ("fixture setup step and tag raise", ["-D", "raise=setup.step,setup.tag"]),
    ("fixture setup all raises", ["-D", "raise=setup.all"]),
    ("hooks raise", ["-D", "raise=hook.before_scenario,scenario.1"]),
    ("after hooks raise", ["-D", "raise=hook.after_scenario,hook.after_step,scenario.2"]),
    ("before_feature raises", ["-D", "raise=hook.before_feature,feature.1"]),
    ("before_all raises", ["-D", "raise=hook.before_all,all.1"]),
    ("everything raises", ["-D", "raise=all.1,all.2,all.late,feature.1,feature.2,"
                           "rule.1,scenario.1,scenario.2,step.1,nested.cleanup,"
                           "teardown.scenario,teardown.all"]),
    ("stop on first failure", ["--stop", "-D", "raise=scenario.1"]),
    ("dry run", ["--dry-run", "-D", "raise=scenario.1"]),
    ("capture on", ["--capture", "-D", "raise=scenario.1,feature.1"]),
    ("verbose masking warnings", ["-v", "-D", "raise=scenario.2"]),
    ("tags select", ["--tags=fixture.tag", "-D", "raise=scenario.1"]),
    ("name select", ["-n", "T1", "-D", "raise=rule.1"]),
    ("json formatter", ["-f", "json.pretty", "-D", "raise=scenario.1,feature.1"]),
]


def part_c():
    emit("=" * 70)
    emit("PART C: real runs")
    emit("=" * 70)
    workdir = tempfile.mkdtemp(prefix="c13equiv_")
    try:
        features = os.path.join(workdir, "features")
        os.makedirs(os.path.join(features, "steps"))
        with io.open(os.path.join(features, "environment.py"), "w", encoding="utf-8") as f:
            f.write(ENVIRONMENT_PY)
        with io.open(os.path.join(features, "steps", "steps.py"), "w", encoding="utf-8") as f:
            f.write(STEPS_PY)
        with io.open(os.path.join(features, "one.feature"), "w", encoding="utf-8") as f:
            f.write(FEATURE_ONE)
        with io.open(os.path.join(features, "two.feature"), "w", encoding="utf-8") as f:
            f.write(FEATURE_TWO)
        with io.open(os.path.join(features, "three.feature"), "w", encoding="utf-8") as f:
            f.write(FEATURE_THREE)
        env = dict(os.environ)
        env["PYTHONPATH"] = WORKTREE + os.pathsep + features
        env["PYTHONDONTWRITEBYTECODE"] = "1"
        env["PYTHONHASHSEED"] = "0"
        env.pop("BEHAVE_ARGS", None)
        for name, options in RUNS:
            command = [PYTHON, "-W", "always::UserWarning", "-m", "behave",
                       "--no-color", "--no-timings", "--no-capture",
                       "--no-capture-stderr", "--no-logcapture", "-f", "plain"]
            command += options + ["features"]
            proc = subprocess.run(command, cwd=workdir, env=env,
                                  stdout=subprocess.PIPE, stderr=subprocess.STDOUT,
                                  universal_newlines=True)
            output = proc.stdout.replace(workdir, "<WORKDIR>")
            output = output.replace(WORKTREE, "<WORKTREE>")
            output = normalize(output)
            output = re.sub(r'"duration": [-+.e\d]+', '"duration": D', output)
            output = re.sub(r"Took \S+", "Took T", output)
            emit("-- run: %s %r" % (name, options))
            emit("exit-code: %d" % proc.returncode)
            for line in output.splitlines():
                emit("  | " + line.rstrip())
    finally:
        shutil.rmtree(workdir, ignore_errors=True)


def main():
    part_a()
    part_b()
    part_c()
    text = u"\n".join(OUT) + u"\n"
    sys.stdout.write(text)


if __name__ == "__main__":
    main()
