# -*- coding: UTF-8 -*-
"""
Equivalence transcript for property C12 (hooks: nested order, after-hooks
always paired, hook faults contained).

Generates a small behave project (feature trees with tags, background, rule,
scenario outline, empty feature, steps of every outcome) whose environment.py
defines every hook; each hook call is logged (ordinal, name, element, tag) and
the k-th call can be made to raise Exception / AssertionError /
KeyboardInterrupt.  The project is run with ``python -m behave`` (subprocess,
PYTHONPATH=/tmp/wtW/C12) for the fault-free case, for EVERY injection point,
for pairs of injection points and with --stop / tag selection / dry-run /
verbose / junit / show-skipped / name-selection variations.

Prints a canonical transcript: exit code, ordered hook log, stdout/stderr and
JSON result tree (timings, temporary paths and source line numbers scrubbed).
"""
from __future__ import print_function
import os
import re
import subprocess
import sys
import shutil
import tempfile
from concurrent.futures import ThreadPoolExecutor

WORKTREE = "/tmp/wtW/C12"
sys.path.insert(0, WORKTREE)
PYTHON = "/venv/bin/python"

# ---------------------------------------------------------------------------
# GENERATED PROJECT
# ---------------------------------------------------------------------------
FEATURE_1 = u'''\
@f1 @common
Feature: Alpha

  Background:
    Given a passing step

  @s1 @slow
  Scenario: A1 passes
    When a passing step
    Then a step printing output

  Scenario: A2 fails
    When a failing step
    Then a passing step

  @skipme
  Scenario: A3 maybe excluded
    When a passing step

  @skip_in_hook
  Scenario: A4 skipped by its before hook
    When a passing step

  @r1 @r2
  Rule: R1

    @rs1
    Scenario: A5 in rule
      When a passing step

    @o1
    Scenario Outline: A6 outline <v>
      When a step with value "<v>"

      @e1
      Examples: E
        | v    |
        | good |
        | bad  |

  Rule: R2 without tags

    Scenario: A7 skips itself
      When a step that skips the scenario
      Then a passing step
'''

FEATURE_2 = u'''\
Feature: Beta

  Scenario: B1 undefined
    Given a passing step
    When an undefined step
    Then a passing step

  @wip
  Scenario: B2 pending in wip
    Given a pending step

  Scenario: B3 pending
    Given a pending step
    Then a passing step

  @badcleanup
  Scenario: B4 errors
    Given an erroring step

  Scenario: B5 without steps
'''

FEATURE_3 = u'''\
@f3 @empty
Feature: Gamma is empty
'''

FEATURE_4 = u'''\
@skip_feature_in_hook @f4
Feature: Delta skipped by its before hook

  @d1
  Scenario: D1
    Given a passing step
'''

FEATURE_5 = u'''\
@f5
Feature: Epsilon

  @k1
  Scenario: E1 interrupted
    Given a step with KeyboardInterrupt
    Then a passing step

  Scenario: E2 last
    Given a passing step
'''

STEPS = u'''\
# -*- coding: UTF-8 -*-
from __future__ import print_function
import os
from behave import given, when, then, step
from behave.api.pending_step import StepNotImplementedError

@step(u'a passing step')
def step_passes(ctx):
    pass

@step(u'a step printing output')
def step_prints(ctx):
    print("OUTPUT from step")

@step(u'a failing step')
def step_fails(ctx):
    print("captured before failure")
    assert False, "step fails"

@step(u'an erroring step')
def step_errors(ctx):
    raise RuntimeError("step errors")

@step(u'a pending step')
def step_pending(ctx):
    raise StepNotImplementedError("not yet")

@step(u'a step that skips the scenario')
def step_skips(ctx):
    ctx.scenario.skip("skipped by step")

@step(u'a step with value "{value}"')
def step_value(ctx, value):
    assert value == "good", "value is %s" % value

@step(u'a step with KeyboardInterrupt')
def step_interrupt(ctx):
    if os.environ.get("C12_STEP_INTERRUPT"):
        raise KeyboardInterrupt()
'''

ENVIRONMENT = u'''\
# -*- coding: UTF-8 -*-
from __future__ import print_function
import os

LOG = os.environ["C12_HOOKLOG"]
INJECT = set(int(x) for x in os.environ.get("C12_INJECT", "").split(",") if x)
EXC = os.environ.get("C12_EXC", "Exception")
BAD_CLEANUP = bool(os.environ.get("C12_BAD_CLEANUP"))
_counter = [0]

def _log(text):
    with open(LOG, "a") as f:
        f.write(text + "\\n")

def _hook(name, what, tag="-"):
    _counter[0] += 1
    n = _counter[0]
    _log("%03d %s %s %s" % (n, name, what, tag))
    if n in INJECT:
        if EXC == "Exception":
            raise Exception("boom-%d" % n)
        elif EXC == "AssertionError":
            raise AssertionError("aboom-%d" % n)
        elif EXC == "AssertionErrorNoArgs":
            raise AssertionError()
        elif EXC == "KeyboardInterrupt":
            raise KeyboardInterrupt()
        elif EXC == "Unicode":
            raise ValueError(u"b\\xf6\\xf6m-%d" % n)
        raise RuntimeError("unknown EXC")

def _cleanup(what, bad):
    def cleanup():
        _log("    cleanup %s" % what)
        if bad:
            raise RuntimeError("cleanup of %s fails" % what)
    return cleanup

def before_all(ctx):
    _hook("before_all", "-")

def after_all(ctx):
    _hook("after_all", "-")

def before_feature(ctx, feature):
    ctx.add_cleanup(_cleanup("feature:" + feature.name, False))
    if "skip_feature_in_hook" in feature.tags:
        feature.skip("by before_feature")
    _hook("before_feature", feature.name)

def after_feature(ctx, feature):
    _hook("after_feature", feature.name + " status=" + feature.status.name)

def before_rule(ctx, rule):
    _hook("before_rule", rule.name)

def after_rule(ctx, rule):
    _hook("after_rule", rule.name + " status=" + rule.status.name)

def before_scenario(ctx, scenario):
    bad = BAD_CLEANUP and "badcleanup" in scenario.tags
    ctx.add_cleanup(_cleanup("scenario:" + scenario.name, bad))
    if "skip_in_hook" in scenario.tags:
        scenario.skip("by before_scenario")
    _hook("before_scenario", scenario.name)

def after_scenario(ctx, scenario):
    _hook("after_scenario", scenario.name + " status=" + scenario.status.name)

def before_step(ctx, step):
    _hook("before_step", step.name)

def after_step(ctx, step):
    _hook("after_step", step.name + " status=" + step.status.name)

def before_tag(ctx, tag):
    _hook("before_tag", "-", tag)

def after_tag(ctx, tag):
    _hook("after_tag", "-", tag)
'''

# -- environment without tag hooks / step hooks (name not in self.hooks).
ENVIRONMENT_PARTIAL = ENVIRONMENT.split("def before_step")[0]


def make_project(basedir, environment=ENVIRONMENT):
    features = os.path.join(basedir, "features")
    os.makedirs(os.path.join(features, "steps"))
    files = {
        "f1_alpha.feature": FEATURE_1,
        "f2_beta.feature": FEATURE_2,
        "f3_gamma.feature": FEATURE_3,
        "f4_delta.feature": FEATURE_4,
        "f5_epsilon.feature": FEATURE_5,
        "environment.py": environment,
        os.path.join("steps", "steps.py"): STEPS,
    }
    for name, text in files.items():
        with open(os.path.join(features, name), "wb") as f:
            f.write(text.encode("utf-8"))
    with open(os.path.join(basedir, "behave.ini"), "w") as f:
        f.write("[behave]\n")


# ---------------------------------------------------------------------------
# RUNNING
# ---------------------------------------------------------------------------
SCRUBS = [
    (re.compile(r"Took \d+m[\d.]+s"), "Took <T>"),
    (re.compile(r"line \d+"), "line <N>"),
    (re.compile(r" in \d+\.\d+s"), " in <T>s"),
    (re.compile(r'"duration": [-+0-9.e]+'), '"duration": <T>'),
    (re.compile(r'time="[^"]*"'), 'time="<T>"'),
    (re.compile(r'timestamp="[^"]*"'), 'timestamp="<T>"'),
    (re.compile(r'hostname="[^"]*"'), 'hostname="<H>"'),
    (re.compile(r"0x[0-9a-fA-F]+"), "0x<ADDR>"),
]


def scrub(text, basedir):
    text = text.replace(basedir, "<BASE>")
    for pattern, replacement in SCRUBS:
        text = pattern.sub(replacement, text)
    # -- Caret/underline lines of py3.11+ tracebacks depend on the source text.
    text = "\n".join(line.rstrip() for line in text.splitlines()
                     if not re.match(r"^\s*[\^~]+\s*$", line))
    return text


def run_case(case):
    """Run one behave subprocess; returns the transcript text of this case."""
    index, label, basedir, args, env_extra, want_json, want_junit = case
    hooklog = os.path.join(basedir, "hooklog_%04d.txt" % index)
    json_out = os.path.join(basedir, "out_%04d.json" % index)
    junit_dir = os.path.join(basedir, "junit_%04d" % index)
    env = dict(os.environ)
    for key in list(env):
        if key.startswith("C12_") or key.startswith("BEHAVE"):
            del env[key]
    env["PYTHONPATH"] = WORKTREE
    env["PYTHONDONTWRITEBYTECODE"] = "1"
    env["PYTHONHASHSEED"] = "0"
    env["C12_HOOKLOG"] = hooklog
    env["NO_COLOR"] = "1"
    env.update(env_extra)
    cmd = [PYTHON, "-m", "behave", "--no-color", "-f", "plain", "-T"]
    if want_json:
        cmd += ["-f", "json.pretty", "-o", json_out]
    if want_junit:
        cmd += ["--junit", "--junit-directory", junit_dir]
    cmd += list(args)
    open(hooklog, "w").close()
    proc = subprocess.Popen(cmd, cwd=basedir, env=env, stdout=subprocess.PIPE,
                            stderr=subprocess.PIPE)
    out, err = proc.communicate()
    parts = ["=" * 78, "CASE %s" % label,
             "ARGS %s" % " ".join(args),
             "ENV  %s" % " ".join("%s=%s" % kv for kv in sorted(env_extra.items())),
             "EXIT %s" % proc.returncode,
             "--- HOOKLOG"]
    with open(hooklog) as f:
        parts.append(f.read().rstrip())
    parts.append("--- STDOUT")
    parts.append(scrub(out.decode("utf-8", "replace"), basedir))
    parts.append("--- STDERR")
    parts.append(scrub(err.decode("utf-8", "replace"), basedir))
    if want_json:
        parts.append("--- JSON")
        if os.path.exists(json_out):
            with open(json_out, "rb") as f:
                parts.append(scrub(f.read().decode("utf-8", "replace"), basedir))
        else:
            parts.append("<no json output>")
    if want_junit:
        parts.append("--- JUNIT")
        if os.path.isdir(junit_dir):
            for name in sorted(os.listdir(junit_dir)):
                parts.append("# " + name)
                with open(os.path.join(junit_dir, name), "rb") as f:
                    parts.append(scrub(f.read().decode("utf-8", "replace"),
                                       basedir))
        else:
            parts.append("<no junit output>")
    return "\n".join(parts)


def count_hook_calls(basedir, args, env_extra):
    text = run_case((0, "count", basedir, args, env_extra, False, False))
    hooklog = text.split("--- HOOKLOG\n", 1)[1].split("--- STDOUT", 1)[0]
    return len([line for line in hooklog.splitlines()
                if re.match(r"^\d{3} ", line)])


def main():
    tmp = tempfile.mkdtemp(prefix="c12equiv_")
    try:
        base_full = os.path.join(tmp, "full")
        base_partial = os.path.join(tmp, "partial")
        os.makedirs(base_full)
        os.makedirs(base_partial)
        make_project(base_full)
        make_project(base_partial, ENVIRONMENT_PARTIAL)

        cases = []

        def add(label, basedir, args, env_extra=None, want_json=True,
                want_junit=False):
            cases.append((len(cases) + 1, label, basedir, tuple(args),
                          dict(env_extra or {}), want_json, want_junit))

        # -- FAULT-FREE RUNS and their variations.
        variations = [
            ("plain", []),
            ("stop", ["--stop"]),
            ("tags", ["--tags=~@skipme"]),
            ("tags-only", ["--tags=@r1,@f5"]),
            ("dry-run", ["--dry-run"]),
            ("show-skipped", ["--show-skipped", "--tags=~@skipme"]),
            ("no-skipped", ["--no-skipped", "--tags=~@skipme"]),
            ("verbose", ["--verbose"]),
            ("name", ["--name", "A[15]|B1|E2"]),
            ("wip", ["--wip"]),
            ("no-capture", ["--no-capture"]),
        ]
        for name, args in variations:
            add("fault-free/%s" % name, base_full, args)
        add("fault-free/junit", base_full, [], want_junit=True)
        add("fault-free/bad-cleanup", base_full, [], {"C12_BAD_CLEANUP": "1"})
        add("fault-free/step-interrupt", base_full, [],
            {"C12_STEP_INTERRUPT": "1"})
        add("fault-free/partial-env", base_partial, [])

        n_full = count_hook_calls(base_full, [], {})
        n_stop = count_hook_calls(base_full, ["--stop"], {})
        n_tags = count_hook_calls(base_full, ["--tags=~@skipme"], {})
        n_partial = count_hook_calls(base_partial, [], {})
        print("HOOK CALLS: full=%d stop=%d tags=%d partial=%d"
              % (n_full, n_stop, n_tags, n_partial))

        # -- EVERY INJECTION POINT: Exception and AssertionError.
        for k in range(1, n_full + 2):
            add("inject/Exception/k=%d" % k, base_full, [],
                {"C12_INJECT": str(k), "C12_EXC": "Exception"})
        for k in range(1, n_full + 1):
            add("inject/AssertionError/k=%d" % k, base_full, [],
                {"C12_INJECT": str(k), "C12_EXC": "AssertionError"},
                want_json=False)
        for k in range(1, n_full + 1, 4):
            add("inject/AssertionErrorNoArgs/k=%d" % k, base_full, [],
                {"C12_INJECT": str(k), "C12_EXC": "AssertionErrorNoArgs"},
                want_json=False)
        for k in range(2, n_full + 1, 5):
            add("inject/Unicode/k=%d" % k, base_full, [],
                {"C12_INJECT": str(k), "C12_EXC": "Unicode"}, want_json=False)
        # -- KeyboardInterrupt in a hook (not contained: aborts the run).
        for k in range(1, n_full + 1, 3):
            add("inject/KeyboardInterrupt/k=%d" % k, base_full, [],
                {"C12_INJECT": str(k), "C12_EXC": "KeyboardInterrupt"},
                want_json=False)
        # -- PAIRS of injection points.
        pairs = [(k, k + 1) for k in range(1, n_full, 7)]
        pairs += [(k, n_full - k + 1) for k in range(1, n_full // 2, 6)]
        pairs += [(k, k + 3) for k in range(2, n_full - 3, 11)]
        pairs += [(1, n_full), (2, 3), (n_full - 1, n_full)]
        for a, b in pairs:
            add("inject/pair/k=%d,%d" % (a, b), base_full, [],
                {"C12_INJECT": "%d,%d" % (a, b), "C12_EXC": "Exception"},
                want_json=False)
        # -- VARIATIONS with injection.
        for k in range(1, n_stop + 1):
            add("inject/stop/k=%d" % k, base_full, ["--stop"],
                {"C12_INJECT": str(k), "C12_EXC": "Exception"},
                want_json=False)
        for k in range(1, n_tags + 1, 2):
            add("inject/tags/k=%d" % k, base_full, ["--tags=~@skipme"],
                {"C12_INJECT": str(k), "C12_EXC": "AssertionError"},
                want_json=False)
        for k in range(1, n_full + 1, 6):
            add("inject/verbose/k=%d" % k, base_full, ["--verbose"],
                {"C12_INJECT": str(k), "C12_EXC": "Exception"},
                want_json=False)
        for k in range(1, n_full + 1, 9):
            add("inject/junit/k=%d" % k, base_full, [],
                {"C12_INJECT": str(k), "C12_EXC": "Exception"},
                want_json=False, want_junit=True)
        for k in range(1, n_full + 1, 8):
            add("inject/show-skipped/k=%d" % k, base_full,
                ["--show-skipped", "--tags=~@skipme"],
                {"C12_INJECT": str(k), "C12_EXC": "Exception"},
                want_json=False)
        for k in range(1, n_full + 1, 10):
            add("inject/bad-cleanup/k=%d" % k, base_full, [],
                {"C12_INJECT": str(k), "C12_EXC": "Exception",
                 "C12_BAD_CLEANUP": "1"}, want_json=False)
        for k in range(1, n_full + 1, 10):
            add("inject/step-interrupt/k=%d" % k, base_full, [],
                {"C12_INJECT": str(k), "C12_EXC": "Exception",
                 "C12_STEP_INTERRUPT": "1"}, want_json=False)
        for k in (1, 2, 5):
            add("inject/dry-run/k=%d" % k, base_full, ["--dry-run"],
                {"C12_INJECT": str(k), "C12_EXC": "Exception"},
                want_json=False)
        for k in range(1, n_partial + 1):
            add("inject/partial-env/k=%d" % k, base_partial, [],
                {"C12_INJECT": str(k), "C12_EXC": "Exception"},
                want_json=False)

        print("CASES: %d" % len(cases))
        with ThreadPoolExecutor(max_workers=8) as pool:
            for text in pool.map(run_case, cases):
                print(text)
    finally:
        shutil.rmtree(tmp, ignore_errors=True)


if __name__ == "__main__":
    main()
