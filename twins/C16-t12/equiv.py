# -*- coding: UTF-8 -*-
"""
Equivalence transcript for property C16 (JUnit reports).

Part A runs ``python -m behave --junit`` (subprocess, PYTHONPATH=worktree) over
a hostile feature tree with several option sets and dumps every TESTS-*.xml
(normalised for wall-clock values) plus the result of parsing it with expat.
Part B drives the reporter building blocks in-process with constructed model
objects (all scenario statuses x show_skipped, problem descriptions, escaping
over the whole code-point range, serialisation, FeatureReportData state).
"""
from __future__ import print_function, unicode_literals
import sys
WORKTREE = "/tmp/wtV/C16"
sys.path.insert(0, WORKTREE)

import hashlib
import io
import os
import re
import shutil
import subprocess
import xml.parsers.expat

HERE = os.path.dirname(os.path.abspath(__file__))
WORK = "/tmp/c16_equiv_work_" + os.path.basename(HERE)


def out(*args):
    text = u" ".join(u"%s" % (a,) for a in args)
    sys.stdout.write(text.encode("ascii", "backslashreplace").decode("ascii") + "\n")


# ---------------------------------------------------------------------------
# PART A: end-to-end runs
# ---------------------------------------------------------------------------
HOSTILE = u"<&>\"' ]]> \x01\x08\x7f\x9f ￾ \U0001F600 \U0001FFFE \x1b[31mred\x1b[0m ä中"

FEATURES = {
    u"features/hostile.feature": u"""
@ftag @f<&>
Feature: Hostile %(H)s feature

  Background:
    Given a passing step

  @one @t]]>
  Scenario: Passing %(H)s prints
    When output "%(H)s" is printed
    Then a passing step

  Scenario: Failing %(H)s assert
    When assertion fails with "%(H)s"
    Then a passing step

  Scenario: Erroring %(H)s
    When error is raised with "%(H)s"
    Then a passing step

  Scenario: Undefined %(H)s
    When an unknown %(H)s step
    Then a passing step

  Scenario: Pending one
    When a pending step
    Then a passing step

  @skipme
  Scenario: Excluded by tag %(H)s
    When a passing step

  Scenario: Skips itself
    When the scenario skips itself
    Then a passing step

  @hook.before
  Scenario: Before hook fails
    When a passing step

  @hook.after
  Scenario: After hook fails
    When output "in-step" is printed

  @hook.tag
  Scenario: Tag hook fails
    When a passing step

  Scenario: With text and table
    When a step with text:
      '''
      Lorem ]]> <ipsum> & %(H)s
      '''
    And a step with table:
      | a<b | c]]> |
      | 1   | ä    |
    Then assertion fails with "after multiline"

  @outline
  Scenario Outline: Row <name> %(H)s
    When <action>
    Then a passing step

    Examples: First ]]>
      | name  | action                          |
      | ok    | a passing step                  |
      | bad<> | assertion fails with "row ]]>"  |
      | err   | error is raised with "row \x01"   |

    @skipme
    Examples: Second
      | name  | action          |
      | skip  | a passing step  |
""".replace(u"'''", u'"""') % {"H": HOSTILE},
    u"features/sub/rules.feature": u"""
Feature:
  Rule: First rule
    Background:
      Given a passing step

    Scenario: In rule passes
      When output "rule-out" is printed

    Scenario: In rule fails
      When assertion fails with "in rule"

  Rule: Second rule
    @skipme
    Scenario: In rule excluded
      When a passing step

    Scenario Outline: Rule outline <n>
      When error is raised with "<n>"
      Examples:
        | n |
        | 1 |
        | 2 |
""",
    u"features/sub/bgfail.feature": u"""
Feature: Background fails
  Background:
    Given assertion fails with "bg ]]> boom"

  Scenario: Victim one
    When a passing step

  Scenario: Victim two
    When a passing step
""",
    u"features/allskipped.feature": u"""
@skipme
Feature: Entirely skipped <&>
  Scenario: S1
    Given a passing step
  Scenario: S2
    Given a passing step
""",
    u"features/hookfeature.feature": u"""
@hook.feature
Feature: Feature hook fails
  Scenario: Never runs
    Given a passing step
  Scenario: Never runs 2
    Given a passing step
""",
    u"features/passing.feature": u"""
Feature: All pass
  Scenario:
    Given a passing step
  Scenario: Named
    Given a passing step
    When output "x" is printed
""",
    u"features/steps/steps.py": u"""# -*- coding: UTF-8 -*-
from __future__ import print_function, unicode_literals
import sys
from behave import given, when, then, step

@step(u'a passing step')
def step_pass(ctx):
    pass

@step(u'output "{text}" is printed')
def step_print(ctx, text):
    print(u"OUT:" + text)
    sys.stderr.write(u"ERR:" + text + u"\\n")

@step(u'assertion fails with "{text}"')
def step_assert(ctx, text):
    print(u"before-assert " + text)
    assert False, u"ASSERT " + text

@step(u'error is raised with "{text}"')
def step_error(ctx, text):
    sys.stderr.write(u"before-error " + text + u"\\n")
    raise RuntimeError(u"ERROR " + text)

@step(u'a pending step')
def step_pending(ctx):
    raise NotImplementedError(u"pending ]]> step")

@step(u'the scenario skips itself')
def step_skip(ctx):
    ctx.scenario.skip(u"self-skip <&>")

@step(u'a step with text')
def step_text(ctx):
    assert ctx.text

@step(u'a step with table')
def step_table(ctx):
    assert ctx.table
""",
    u"features/environment.py": u"""# -*- coding: UTF-8 -*-
from __future__ import print_function, unicode_literals

def before_feature(ctx, feature):
    if "hook.feature" in feature.tags:
        print("in before_feature ]]>")
        raise RuntimeError("before_feature <boom> ]]> \\x01")

def before_scenario(ctx, scenario):
    if "hook.before" in scenario.tags:
        print("in before_scenario")
        raise RuntimeError("before_scenario <boom> ]]>")

def after_scenario(ctx, scenario):
    if "hook.after" in scenario.tags:
        print("in after_scenario")
        assert False, "after_scenario assert & ]]>"

def before_tag(ctx, tag):
    if tag == "hook.tag":
        raise ValueError("before_tag \\x1b[31m boom")
""",
}

RUNS = [
    ("default", []),
    ("tags", ["--tags=not @skipme"]),
    ("tags-noskipped", ["--tags=not @skipme", "--no-skipped"]),
    ("tags-noskipped-always", ["--tags=not @skipme", "--no-skipped",
                               "-D", "behave.reporter.junit.show_skipped_always=true"]),
    ("plain-switches", ["--tags=not @skipme",
                        "-D", "behave.reporter.junit.show_scenarios=false"]),
    ("switches2", ["--tags=not @skipme",
                   "-D", "behave.reporter.junit.show_tags=false",
                   "-D", "behave.reporter.junit.show_multiline=false",
                   "-D", "behave.reporter.junit.show_timings=false"]),
    ("stamps", ["--tags=not @skipme", "features/passing.feature", "STAMPS"]),
    ("dry-run", ["--dry-run"]),
    ("stop", ["--stop", "features/hostile.feature"]),
    ("only-sub", ["features/sub"]),
    ("no-capture", ["--no-capture", "--no-capture-stderr", "features/passing.feature",
                    "features/sub/rules.feature"]),
]

TIME_ATTR = re.compile(r' time="[^"]*"')
STEP_TIME = re.compile(r' in \d+\.\d+s')
STAMP = re.compile(r' timestamp="[^"]*"')
HOST = re.compile(r' hostname="[^"]*"')


def normalise(text):
    text = TIME_ATTR.sub(' time="T"', text)
    text = STEP_TIME.sub(' in Ts', text)
    text = STAMP.sub(' timestamp="TS"', text)
    text = HOST.sub(' hostname="HOST"', text)
    return text


class ExpatSummary(object):
    def __init__(self):
        self.suites = []
        self.cases = []
        self.stack = []
        self.chars = 0

    def start(self, name, attrs):
        self.stack.append(name)
        if name == "testsuite":
            self.suites.append(dict(attrs))
        elif name == "testcase":
            self.cases.append({"attrs": dict(attrs), "children": []})
        elif len(self.stack) >= 2 and self.stack[-2] == "testcase":
            self.cases[-1]["children"].append((name, sorted(attrs.items())))

    def end(self, name):
        self.stack.pop()

    def data(self, data):
        self.chars += len(data)


def expat_check(raw):
    parser = xml.parsers.expat.ParserCreate()
    summary = ExpatSummary()
    parser.StartElementHandler = summary.start
    parser.EndElementHandler = summary.end
    parser.CharacterDataHandler = summary.data
    try:
        parser.Parse(raw, True)
    except xml.parsers.expat.ExpatError as e:
        return "NOT-WELL-FORMED: %s" % e, summary
    return "well-formed", summary


def dump_report_dir(dirname):
    if not os.path.isdir(dirname):
        out("  (no junit directory)")
        return
    for name in sorted(os.listdir(dirname)):
        path = os.path.join(dirname, name)
        with open(path, "rb") as f:
            raw = f.read()
        verdict, summary = expat_check(raw)
        out("  FILE", name, verdict, "chars=%d" % summary.chars)
        for suite in summary.suites:
            attrs = dict(suite)
            for key in ("time", "timestamp", "hostname"):
                if key in attrs:
                    attrs[key] = "*"
            out("   SUITE", sorted(attrs.items()))
        kinds = {"failure": 0, "error": 0, "skipped": 0}
        for case in summary.cases:
            attrs = dict(case["attrs"])
            attrs["time"] = "*"
            out("   CASE", sorted(attrs.items()))
            for child_name, child_attrs in case["children"]:
                out("     CHILD", child_name, child_attrs)
                if child_name in kinds:
                    kinds[child_name] += 1
        out("   COUNTED tests=%d" % len(summary.cases), sorted(kinds.items()))
        text = normalise(raw.decode("utf-8", "backslashreplace"))
        out("   SHA", hashlib.sha256(text.encode("utf-8", "backslashreplace")).hexdigest())
        for line in text.split("\n"):
            out("   |", line)


def part_a():
    if os.path.exists(WORK):
        shutil.rmtree(WORK)
    for relname, content in sorted(FEATURES.items()):
        path = os.path.join(WORK, relname)
        if not os.path.isdir(os.path.dirname(path)):
            os.makedirs(os.path.dirname(path))
        with io.open(path, "w", encoding="utf-8", newline="\n") as f:
            f.write(content)
    env = dict(os.environ)
    env["PYTHONPATH"] = WORKTREE
    env["PYTHONIOENCODING"] = "utf-8"
    env["PYTHONHASHSEED"] = "0"
    env.pop("GHERKIN_COLORS", None)
    for run_name, args in RUNS:
        junit_dir = os.path.join(WORK, "reports", run_name)
        args = list(args)
        stamps = "STAMPS" in args
        if stamps:
            args.remove("STAMPS")
        else:
            args += ["-D", "behave.reporter.junit.show_timestamp=false",
                     "-D", "behave.reporter.junit.show_hostname=false"]
        cmd = [sys.executable, "-m", "behave", "--junit", "--junit-directory", junit_dir,
               "--no-color", "-f", "progress", "--no-timings"] + args
        proc = subprocess.Popen(cmd, cwd=WORK, env=env, stdout=subprocess.PIPE,
                                stderr=subprocess.STDOUT)
        output = proc.communicate()[0].decode("utf-8", "backslashreplace")
        out("=" * 70)
        out("RUN", run_name, args, "exit=%s" % proc.returncode)
        for line in output.split("\n"):
            line = re.sub(r"\d+m?\d*\.\d+s", "Ts", line)
            if line.startswith("Took "):
                continue
            out("  >", line)
        dump_report_dir(junit_dir)
    shutil.rmtree(WORK)


# ---------------------------------------------------------------------------
# PART B: in-process building blocks
# ---------------------------------------------------------------------------
def describe_exc(func, *args, **kwargs):
    try:
        return "OK", func(*args, **kwargs)
    except BaseException as e:     # pylint: disable=broad-except
        return "EXC", "%s: %s" % (e.__class__.__name__, e)


def part_b():
    # pylint: disable=too-many-locals, too-many-statements, protected-access
    from xml.etree import ElementTree
    from behave.reporter import junit
    from behave.reporter.junit import JUnitReporter, FeatureReportData
    from behave.configuration import Configuration
    from behave.model import Feature, Scenario, ScenarioOutline, Step, Rule, Tag
    from behave.model_core import Status
    from behave.capture import Captured
    from behave.formatter import ansi_escapes

    def tostring(element):
        return ElementTree.tostring(element, encoding="unicode")

    out("=" * 70)
    out("PART B")
    # -- B1: escaping over all code points.
    out("B1 invalid_re.pattern sha", hashlib.sha256(
        junit._invalid_re.pattern.encode("utf-8", "surrogatepass")).hexdigest(),
        "flags", junit._invalid_re.flags)
    digest = hashlib.sha256()
    changed = 0
    for block_start in range(0, 0x110000, 0x1000):
        block = u"".join(chr(c) for c in range(block_start, block_start + 0x1000))
        escaped = junit._escape_invalid_xml_chars(block)
        if escaped != block:
            changed += 1
        digest.update(escaped.encode("utf-8", "surrogatepass"))
    out("B1 all-codepoints sha", digest.hexdigest(), "blocks-changed", changed)
    samples = [u"", u"plain", u"\x00", u"\x08\x09\x0a\x0b\x0c\x0d\x0e", u"\x1f \x7f\x80\x84\x85\x86\x9f\xa0",
               u"𐏿", u"﷐﷟﷠", u"�￾￿", u"\U0001fffe\U0010ffff\U0001f600",
               u"a\x01b\x02c" * 3, HOSTILE]
    for sample in samples:
        out("B1 escape_invalid", repr(sample), "->", repr(junit._escape_invalid_xml_chars(sample)))
        out("B1 escape_CDATA ", repr(sample), "->", repr(junit.escape_CDATA(sample)))
    for sample in [None, u"", 0, u"]]>", u"]]]]>>", u"]]>]]>", u"]] >", u"a]]>\x01]]>", b"", b"]]>", 5, [1]]:
        out("B1 escape_CDATA", repr(sample), describe_exc(junit.escape_CDATA, sample))
    for sample in [None, b"x", 5]:
        out("B1 escape_invalid bad", repr(sample), describe_exc(junit._escape_invalid_xml_chars, sample))
    # -- B2: CDATA elements and serialisation.
    for sample in [u"", u"x", u"\x1b[31mred\x1b[0m \x1b[1A up \x1b[x \x1b[12", HOSTILE, None, b"bytes", 7]:
        status, value = describe_exc(junit.CDATA, sample)
        if status == "OK":
            out("B2 CDATA", repr(sample), value.tag, repr(value.text), len(value), sorted(value.attrib.items()))
            holder = ElementTree.Element(u"system-out")
            holder.set(u"a", u"<&\"\x01>")
            holder.append(value)
            out("B2 tostring", describe_exc(tostring, holder))
            stream = io.BytesIO()
            status2, value2 = describe_exc(junit.ElementTreeWithCDATA(holder).write, stream, "UTF-8")
            out("B2 write", status2, value2, repr(stream.getvalue()))
        else:
            out("B2 CDATA", repr(sample), status, value)
    for sample in [u"", u"\x1b[0m", u"\x1b[123Ax\x1b[1m", u"\x1b[m", u"\x1b[1;2m", None, b"\x1b[0m"]:
        out("B2 strip_escapes", repr(sample), describe_exc(ansi_escapes.strip_escapes, sample))
    out("B2 serialize hook", ElementTree._serialize_xml is ElementTree._serialize["xml"],
        ElementTree._serialize_xml.__name__)
    plain = ElementTree.Element(u"root")
    ElementTree.SubElement(plain, u"empty")
    ElementTree.SubElement(plain, u"child", {u"k": u"v<"}).text = u"t&"
    out("B2 plain", describe_exc(tostring, plain))
    out("B2 plain long", describe_exc(ElementTree.tostring, plain, encoding="unicode", short_empty_elements=False))

    # -- B3: FeatureReportData state.
    for args in [("F", "dir/sub/name"), ("F", "dir/sub/name", "given.cls"), ("F", None), ("F", ""),
                 ("F", "", ""), ("F", "a/b", ""), (None, "x\\y/z", None)]:
        data = FeatureReportData(*args)
        out("B3 init", args, list(vars(data).items()))
        first_list = data.testcases
        data.testcases.append("tc")
        data.counts_tests += 3
        data.counts_errors += 1
        data.counts_failed += 2
        data.counts_skipped += 4
        data.extra = "kept"
        out("B3 mutated", list(vars(data).items()))
        data.reset()
        out("B3 reset", list(vars(data).items()), "same-list", data.testcases is first_list, first_list)

    # -- B4: reporter with constructed model objects.
    junit_dir = os.path.join(WORK, "unit-reports")

    def make_reporter(extra_args=()):
        config = Configuration(["--junit", "--junit-directory", junit_dir,
                                "-D", "behave.reporter.junit.show_timestamp=false",
                                "-D", "behave.reporter.junit.show_hostname=false"] + list(extra_args),
                               load_config=False)
        config.paths = [os.path.join(WORK, "features")]
        config.base_dir = os.path.join(WORK, "features")
        reporters = [r for r in config.reporters if isinstance(r, JUnitReporter)]
        out("B4 config", list(extra_args), "capture", config.stdout_capture, config.stderr_capture,
            config.log_capture, "reporters", [r.__class__.__name__ for r in config.reporters],
            "show_skipped", reporters[0].show_skipped)
        return reporters[0]

    def make_step(name, status, exception=None, error_message=None, text=None, table=None, duration=0.25):
        step = Step(os.path.join(WORK, "features", "unit.feature"), 7, u"When", "when", name,
                    text=text, table=table)
        step.status = status
        step.exception = exception
        step.error_message = error_message
        step.duration = duration
        return step

    def make_scenario(name, status, steps, tags=(), captured=None, exception=None,
                      error_message=None, exc_traceback=None, background_steps=None):
        scenario = Scenario(os.path.join(WORK, "features", "unit.feature"), 5, u"Scenario", name,
                            tags=[Tag(t, 4) for t in tags], steps=steps)
        if status is not None:
            scenario.set_status(status)
        scenario.captured = captured or Captured()
        scenario.exception = exception
        scenario.error_message = error_message
        scenario.exc_traceback = exc_traceback
        return scenario

    def make_traceback():
        try:
            raise KeyError("tb ]]> \x01")
        except KeyError:
            return sys.exc_info()[2]

    def dump_report(label, report):
        out(label, "tests=%s errors=%s failed=%s skipped=%s n=%d" % (
            report.counts_tests, report.counts_errors, report.counts_failed,
            report.counts_skipped, len(report.testcases)))
        for case in report.testcases:
            stream = io.BytesIO()
            junit.ElementTreeWithCDATA(case).write(stream, "UTF-8")
            text = normalise(stream.getvalue().decode("utf-8", "backslashreplace"))
            text = re.sub(r'line \d+, in make_traceback', 'line N, in make_traceback', text)
            verdict, _ = expat_check(stream.getvalue())
            out("   ", verdict, repr(text))

    step_variants = {
        "none": lambda: [],
        "passed": lambda: [make_step(u"ok <1>", Status.passed)],
        "failed": lambda: [make_step(u"ok", Status.passed),
                           make_step(u"bad ]]> \x01", Status.failed, AssertionError(u"A<&> ]]> \x02 "),
                                     u"Assertion Failed: A<&> ]]>\nTraceback \x1b[31mx"),
                           make_step(u"later", Status.skipped)],
        "error": lambda: [make_step(u"err", Status.error, RuntimeError(u" R\x7f\n"), u"Traceback...\nRuntimeError",
                                    text=u"doc ]]>\nstring"),
                          make_step(u"failed too", Status.failed, AssertionError("x"), u"m")],
        "hook_error": lambda: [make_step(u"hooked", Status.hook_error, ValueError(u"h"), None)],
        "undefined": lambda: [make_step(u"  undef \x01 ", Status.undefined), make_step(u"n", Status.skipped)],
        "pending": lambda: [make_step(u"pend", Status.pending, NotImplementedError(u"p"), u"pending-msg")],
        "pending_noexc": lambda: [make_step(u"pend", Status.pending)],
        "untested": lambda: [make_step(u"u1", Status.untested), make_step(u" undef2 ", Status.untested_undefined)],
        "skipped": lambda: [make_step(u"s1", Status.skipped), make_step(u"s2", Status.skipped)],
    }
    captured_variants = [
        ("nocap", lambda: Captured()),
        ("cap", lambda: Captured(u"OUT ]]> \x01 \x1b[32mg\x1b[0m", u"ERR ]]> ￾", u"LOG")),
        ("bytes", lambda: Captured(b"raw \xc3\xa4 bytes", b"raw-err")),
    ]
    tb = make_traceback()
    for extra in ([], ["--no-skipped"],
                  ["--no-skipped", "-D", "behave.reporter.junit.show_skipped_always=true"],
                  ["-D", "behave.reporter.junit.show_scenarios=false",
                   "-D", "behave.reporter.junit.show_timings=false"]):
        reporter = make_reporter(extra)
        feature = Feature(os.path.join(WORK, "features", "unit.feature"), 1, u"Feature", u"Unit <&> \x01")
        nameless = Feature(os.path.join(WORK, "features", "sub", "noname.feature"), 1, u"Feature", u"")
        for status in Status:
            for variant in sorted(step_variants):
                for cap_name, make_captured in captured_variants:
                    if cap_name != "nocap" and variant not in ("failed", "none"):
                        continue
                    report = FeatureReportData(feature, u"unit", None)
                    scenario = make_scenario(u"S %s %s ]]> \x01" % (status.name, variant), status,
                                             step_variants[variant](), tags=(u"t1", u"t<2>"),
                                             captured=make_captured(),
                                             exception=(RuntimeError(u"hook \x01") if variant == "none" else None),
                                             error_message=(u" HOOK-ERROR ]]> \x01 " if variant == "none" else None),
                                             exc_traceback=(tb if variant == "none" else None))
                    result = describe_exc(reporter._process_scenario, scenario, report)
                    dump_report("B4 %s %s %s %s %r" % (extra, status.name, variant, cap_name, result), report)
        # -- second scenario into the same report, nameless feature, nameless scenario.
        report = FeatureReportData(nameless, u"sub.noname", u"")
        for status, variant in [(Status.passed, "passed"), (Status.failed, "failed"), (Status.skipped, "skipped"),
                                (Status.untested, "undefined"), (Status.error, "none")]:
            scenario = make_scenario(u"", status, step_variants[variant]())
            out("B4 nameless", status.name, describe_exc(reporter._process_scenario, scenario, report))
        dump_report("B4 nameless report", report)
        # -- computed status (no set_status).
        report = FeatureReportData(feature, u"unit")
        for variant in sorted(step_variants):
            scenario = make_scenario(u"computed " + variant, None, step_variants[variant]())
            out("B4 computed", variant, describe_exc(reporter._process_scenario, scenario, report),
                scenario.status.name)
        dump_report("B4 computed report", report)
        # -- wrong types.
        outline = ScenarioOutline(u"f", 1, u"Scenario Outline", u"o")
        out("B4 outline rejected", describe_exc(reporter._process_scenario, outline, FeatureReportData(feature, u"u")))
        out("B4 str rejected", describe_exc(reporter._process_scenario, u"nope", FeatureReportData(feature, u"u")))
        # -- B5: problem descriptions.
        for element_name in (u"failure", u"error"):
            maker = {u"failure": reporter._make_failure_element_for,
                     u"error": reporter._make_error_element_for}[element_name]
            cases = [
                ("step", make_scenario(u"s", Status.failed, []), step_variants["failed"]()[1]),
                ("step-noexc", make_scenario(u"s", Status.failed, []), make_step(u"n", Status.failed)),
                ("step-table", make_scenario(u"s", Status.failed, []),
                 make_step(u"n", Status.failed, KeyError(u"k ]]>"), u"msg ]]>", text=u"multi\nline")),
                ("hook", make_scenario(u"s", Status.hook_error, [], exception=RuntimeError(u"x"),
                                       error_message=u"  HOOK ]]> \x01 ", exc_traceback=tb), None),
                ("hook-noexc", make_scenario(u"s", Status.hook_error, []), None),
                ("hook-nomsg", make_scenario(u"s", Status.hook_error, [], exception=ValueError(), exc_traceback=tb), None),
                ("hook-badmsg", make_scenario(u"s", Status.hook_error, [], error_message=42), None),
                ("hook-bytesmsg", make_scenario(u"s", Status.hook_error, [], error_message=b" b "), None),
            ]
            for label, scenario, step in cases:
                for func in (maker, lambda sc, st, n=element_name: reporter._make_problem_description_for(n, sc, st)):
                    status, value = describe_exc(func, scenario, step)
                    if status == "OK":
                        stream = io.BytesIO()
                        junit.ElementTreeWithCDATA(value).write(stream, "UTF-8")
                        text = normalise(stream.getvalue().decode("utf-8", "backslashreplace"))
                        text = re.sub(r'line \d+, in make_traceback', 'line N, in make_traceback', text)
                        out("B5", element_name, label, value.tag, list(value.attrib.items()), len(value), repr(text))
                    else:
                        out("B5", element_name, label, status, value)
        # -- B6: helpers.
        steps = step_variants["failed"]() + step_variants["undefined"]()
        for wanted in [(Status.failed,), [Status.undefined, Status.pending], (), ("failed",), (Status.passed, Status.skipped)]:
            found = describe_exc(JUnitReporter.select_step_with_any_status, wanted, steps)
            out("B6 any_status", wanted, found[0], getattr(found[1], "name", found[1]))
        for wanted in [Status.failed, Status.undefined, Status.executing, "failed"]:
            found = describe_exc(JUnitReporter.select_step_with_status, wanted, steps)
            out("B6 status", wanted, found[0], getattr(found[1], "name", found[1]))
        out("B6 bad step", describe_exc(JUnitReporter.select_step_with_any_status, (Status.failed,), [steps[0], "x"]))
        out("B6 bad step", describe_exc(JUnitReporter.select_step_with_status, Status.failed, [object()]))
        for step in steps + step_variants["error"]():
            out("B6 describe_step", repr(normalise(reporter.describe_step(step))))
        for tags in [[], None, [u"a"], [u"a", u"b<>"], (u"x", u"y", u"z")]:
            out("B6 describe_tags", tags, repr(JUnitReporter.describe_tags(tags)))
        for filename in [u"features/unit.feature", u"features/sub/x.y.feature", u"other/dir/noext",
                         u"features", u"features/.feature", u"features\\win\\a.feature"]:
            feat = Feature(os.path.join(WORK, filename), 1, u"Feature", u"n")
            out("B6 feature_filename", filename, describe_exc(reporter.make_feature_filename, feat))
        out("B6 counts", reporter.feature_failed_counts, reporter.feature_error_counts)
        # -- B7: whole features through reporter.feature().
        if os.path.exists(junit_dir):
            shutil.rmtree(junit_dir)
        feature_a = Feature(os.path.join(WORK, "features", "unit.feature"), 1, u"Feature", u"Unit <&> \x01 ]]>",
                            tags=[Tag(u"ft", 1)])
        scenarios = [
            make_scenario(u"p", Status.passed, step_variants["passed"](), captured=captured_variants[1][1]()),
            make_scenario(u"f", Status.failed, step_variants["failed"]()),
            make_scenario(u"e", Status.error, step_variants["error"]()),
            make_scenario(u"h", Status.hook_error, [], exception=RuntimeError(u"x"), error_message=u"hm", exc_traceback=tb),
            make_scenario(u"s", Status.skipped, step_variants["skipped"]()),
            make_scenario(u"u", Status.untested, step_variants["undefined"]()),
        ]
        outline = ScenarioOutline(os.path.join(WORK, "features", "unit.feature"), 30, u"Scenario Outline", u"o <x>")
        outline._scenarios = [
            make_scenario(u"o 1", Status.passed, step_variants["passed"]()),
            make_scenario(u"o 2", Status.failed, step_variants["failed"]()),
            make_scenario(u"o 3", Status.skipped, step_variants["skipped"]()),
        ]
        rule = Rule(os.path.join(WORK, "features", "unit.feature"), 40, u"Rule", u"r")
        rule_outline = ScenarioOutline(os.path.join(WORK, "features", "unit.feature"), 50, u"Scenario Outline", u"ro")
        rule_outline._scenarios = [make_scenario(u"ro 1", Status.error, step_variants["pending"]())]
        for item in [make_scenario(u"r1", Status.passed, step_variants["passed"]()), rule_outline,
                     make_scenario(u"r2", Status.skipped, [])]:
            rule.add_scenario(item)
        for item in scenarios[:3] + [outline] + scenarios[3:]:
            feature_a.add_scenario(item)
        feature_a.add_rule(rule)
        feature_a.set_status(Status.failed)
        out("B7 feature", describe_exc(reporter.feature, feature_a))
        skipped_feature = Feature(os.path.join(WORK, "features", "sub", "skipped.feature"), 1, u"Feature", u"")
        skipped_feature.add_scenario(make_scenario(u"sk", Status.skipped, step_variants["skipped"]()))
        skipped_feature.set_status(Status.skipped)
        out("B7 skipped feature", describe_exc(reporter.feature, skipped_feature))
        bad_feature = Feature(os.path.join(WORK, "features", "bad.feature"), 1, u"Feature", u"bad")
        bad_feature.run_items.append(u"not a scenario")
        bad_feature.set_status(Status.passed)
        out("B7 bad feature", describe_exc(reporter.feature, bad_feature))
        out("B7 counts", reporter.feature_failed_counts, reporter.feature_error_counts)
        dump_report_dir(junit_dir)
        if os.path.exists(junit_dir):
            shutil.rmtree(junit_dir)


if __name__ == "__main__":
    part_a()
    part_b()
    if os.path.exists(WORK):
        shutil.rmtree(WORK)
