# -*- coding: UTF-8 -*-
"""
Equivalence transcript for property C18 (output capture isolation/restore).

Part 1: runs "python -m behave" as child process (PYTHONPATH=/tmp/wtW/C18)
        on generated feature files for all 8 capture switch combinations,
        several formatters, logging options and abort/interrupt paths.
Part 2: in-process checks of behave.capture / behave.log_capture /
        Step.run / Scenario.run with recording runner parts.

Prints a canonical transcript to stdout.
"""

from __future__ import absolute_import, print_function
import sys
WORKTREE = "/tmp/wtW/C18"
sys.path.insert(0, WORKTREE)

import io
import itertools
import logging
import os
import re
import shutil
import subprocess
import textwrap

HERE = os.path.dirname(os.path.abspath(__file__))
WORKDIR = os.path.join(HERE, "_work")
PYTHON = "/venv/bin/python"


# ---------------------------------------------------------------------------
# TRANSCRIPT HELPERS
# ---------------------------------------------------------------------------
def normalize(text):
    text = text.replace("\r\n", "\n")
    text = re.sub(r"line \d+", "line N", text)
    text = re.sub(r"Took \d+m[\d.]+s", "Took XmX.XXXs", text)
    text = re.sub(r"0x[0-9a-fA-F]+", "0xADDR", text)
    text = re.sub(r'time="[^"]*"', 'time="T"', text)
    text = re.sub(r'timestamp="[^"]*"', 'timestamp="TS"', text)
    text = re.sub(r'hostname="[^"]*"', 'hostname="H"', text)
    text = re.sub(r"in [\d.]+s", "in X.XXXs", text)
    return strip_internal_source_lines(text)


INTERNAL_FRAME = re.compile(r'^(\s*)File "%s/behave/[^"]*", line N, in ' % WORKTREE)

def strip_internal_source_lines(text):
    """Traceback entries of behave-internal frames: keep the frame line
    (file, function) but drop the quoted source line and position markers,
    because the quoted source text is not behaviour.
    """
    lines = []
    skip_indent = None
    for line in text.split("\n"):
        if skip_indent is not None:
            indent = len(line) - len(line.lstrip(" "))
            if line.strip() and indent > skip_indent and \
                    not line.lstrip(" ").startswith("File "):
                continue
            skip_indent = None
        m = INTERNAL_FRAME.match(line)
        if m:
            skip_indent = len(m.group(1))
        lines.append(line)
    return "\n".join(lines)


def emit(title, text=""):
    print("=" * 70)
    print("== %s" % title)
    print("=" * 70)
    if text:
        print(normalize(text))


# ---------------------------------------------------------------------------
# PART 1: CHILD PROCESS RUNS
# ---------------------------------------------------------------------------
STEPS_PY = r'''
# -*- coding: UTF-8 -*-
from __future__ import print_function
import logging
import sys
from behave import given, when, then, step
from behave.exception import StepNotImplementedError

def emit_all(marker):
    print("OUT:%s" % marker)
    sys.stderr.write("ERR:%s\n" % marker)
    logging.getLogger("steps").warning("LOG:%s", marker)
    logging.getLogger("foo").info("LOGFOO:%s", marker)
    logging.getLogger("foo.bar").error("LOGFOOBAR:%s", marker)

@step(u'a step printing "{marker}"')
def step_printing(ctx, marker):
    emit_all(marker)

@step(u'a step printing only to stdout "{marker}"')
def step_printing_stdout(ctx, marker):
    print("OUT:%s" % marker)

@step(u'a step printing only to stderr "{marker}"')
def step_printing_stderr(ctx, marker):
    sys.stderr.write("ERR:%s\n" % marker)

@step(u'a step logging "{marker}" at "{level}" via "{name}"')
def step_logging(ctx, marker, level, name):
    logger = logging.getLogger() if name == "root" else logging.getLogger(name)
    logger.log(getattr(logging, level), "LOG:%s", marker)

@step(u'a failing step printing "{marker}"')
def step_failing(ctx, marker):
    emit_all(marker)
    assert False, "FAILED-ON-PURPOSE:%s" % marker

@step(u'a bare-assert step printing "{marker}"')
def step_bare_assert(ctx, marker):
    emit_all(marker)
    assert False

@step(u'an erroring step printing "{marker}"')
def step_erroring(ctx, marker):
    emit_all(marker)
    raise RuntimeError("BOOM:%s" % marker)

@step(u'a pending step printing "{marker}"')
def step_pending(ctx, marker):
    emit_all(marker)
    raise StepNotImplementedError("PENDING:%s" % marker)

@step(u'a bare pending step printing "{marker}"')
def step_bare_pending(ctx, marker):
    emit_all(marker)
    raise StepNotImplementedError()

@step(u'an interrupting step printing "{marker}"')
def step_interrupting(ctx, marker):
    emit_all(marker)
    raise KeyboardInterrupt()

@step(u'a step that skips the scenario printing "{marker}"')
def step_skips(ctx, marker):
    emit_all(marker)
    ctx.scenario.skip("SKIP:%s" % marker)

@step(u'nested steps printing "{marker}"')
def step_nested(ctx, marker):
    emit_all("outer-before:" + marker)
    ctx.execute_steps(u"""
        Given a step printing "nested1:{0}"
        And a step printing "nested2:{0}"
    """.format(marker))
    ctx.observe("in-nested-step")
    emit_all("outer-after:" + marker)

@step(u'nested failing steps printing "{marker}"')
def step_nested_failing(ctx, marker):
    emit_all("outer-before:" + marker)
    ctx.execute_steps(u"""
        Given a step printing "nested1:{0}"
        When a failing step printing "nested2:{0}"
        Then a step printing "nested3:{0}"
    """.format(marker))
    emit_all("outer-after:" + marker)

@step(u'a step replacing sys.stdout printing "{marker}"')
def step_replacing_stdout(ctx, marker):
    emit_all(marker)
    ctx.replaced_stdout = sys.stdout
    import io
    sys.stdout = io.StringIO()
    print("LOST:%s" % marker)
'''

ENVIRONMENT_PY = r'''
# -*- coding: UTF-8 -*-
from __future__ import print_function
import logging
import os
import sys

OBS_FILE = os.environ["OBS_FILE"]
REAL = {}

class MarkHandler(logging.Handler):
    def __init__(self, label):
        logging.Handler.__init__(self)
        self.label = label
    def emit(self, record):
        REAL["stderr"].write("%s-HANDLER:%s:%s\n" % (self.label, record.name,
                                                    record.getMessage()))
    def __repr__(self):
        return "<MarkHandler %s>" % self.label

def describe_handlers(logger):
    return [h.__class__.__name__ + getattr(h, "label", "") for h in logger.handlers]

def observe(where):
    root = logging.getLogger()
    foo = logging.getLogger("foo")
    with open(OBS_FILE, "a") as f:
        f.write("%s: stdout_is_real=%s stderr_is_real=%s root.handlers=%s "
                "root.level=%s foo.handlers=%s foo.level=%s\n" % (
            where, sys.stdout is REAL["stdout"], sys.stderr is REAL["stderr"],
            describe_handlers(root), root.level,
            describe_handlers(foo), foo.level))

def note(text):
    with open(OBS_FILE, "a") as f:
        f.write(text + "\n")

def before_all(ctx):
    REAL["stdout"] = sys.stdout
    REAL["stderr"] = sys.stderr
    ctx.observe = observe
    if os.environ.get("SETUP_LOGGING", "yes") == "yes":
        ctx.config.setup_logging()
    root = logging.getLogger()
    root.addHandler(MarkHandler("ROOT"))
    foo = logging.getLogger("foo")
    foo.addHandler(MarkHandler("FOO1"))
    foo.addHandler(MarkHandler("FOO2"))
    logging.getLogger("x.y.z")      # -- CREATES PlaceHolders: x, x.y
    if os.environ.get("ROOT_LEVEL"):
        root.setLevel(getattr(logging, os.environ["ROOT_LEVEL"]))
    observe("before_all")

def before_feature(ctx, feature):
    observe("before_feature:%s" % feature.name)

def before_scenario(ctx, scenario):
    print("HOOK-OUT:before_scenario:%s" % scenario.name)
    observe("before_scenario:%s" % scenario.name)

def before_tag(ctx, tag):
    if tag == "tagfail":
        raise RuntimeError("TAGFAIL")

def before_step(ctx, step):
    print("HOOK-OUT:before_step:%s" % step.name)
    sys.stderr.write("HOOK-ERR:before_step:%s\n" % step.name)
    logging.getLogger("hooks").warning("HOOK-LOG:before_step:%s", step.name)
    note("before_step:%s: stdout_is_real=%s stderr_is_real=%s" % (
         step.name, sys.stdout is REAL["stdout"], sys.stderr is REAL["stderr"]))
    if "HOOKFAIL-BEFORE" in step.name:
        raise RuntimeError("HOOKFAIL-BEFORE")
    if "KBI-BEFORE" in step.name:
        raise KeyboardInterrupt()

def after_step(ctx, step):
    print("HOOK-OUT:after_step:%s" % step.name)
    sys.stderr.write("HOOK-ERR:after_step:%s\n" % step.name)
    logging.getLogger("hooks").warning("HOOK-LOG:after_step:%s", step.name)
    note("after_step:%s: status=%s stdout_is_real=%s stderr_is_real=%s" % (
         step.name, step.status.name,
         sys.stdout is REAL["stdout"], sys.stderr is REAL["stderr"]))
    if "HOOKFAIL-AFTER" in step.name:
        raise RuntimeError("HOOKFAIL-AFTER")
    if "KBI-AFTER" in step.name:
        raise KeyboardInterrupt()

def after_scenario(ctx, scenario):
    observe("after_scenario:%s" % scenario.name)
    replaced = getattr(ctx, "replaced_stdout", None)
    if replaced is not None:
        note("replaced_stdout_is_real=%s" % (replaced is REAL["stdout"]))

def describe_captured(captured):
    return "stdout=%r stderr=%r log=%r" % (captured.stdout, captured.stderr,
                                           captured.log_output)

def after_feature(ctx, feature):
    observe("after_feature:%s" % feature.name)
    for scenario in feature.walk_scenarios():
        note("  SCENARIO %s: status=%s hook_failed=%s captured: %s" % (
             scenario.name, scenario.status.name, scenario.hook_failed,
             describe_captured(scenario.captured)))
        note("    error_message=%r" % (scenario.error_message,))
        for step in scenario.all_steps:
            note("    STEP %s: status=%s hook_failed=%s captured: %s" % (
                 step.name, step.status.name, step.hook_failed,
                 describe_captured(step.captured)))
            note("      error_message=%r" % (step.error_message,))

def after_all(ctx):
    observe("after_all")
'''

FEATURE_A = u'''
Feature: Alpha

  Background:
    Given a step printing "BG"

  Scenario: A1 passes
    Given a step printing "A1-s1"
    When a step logging "A1-s2" at "WARNING" via "root"
    And a step logging "A1-s2b" at "DEBUG" via "foo"
    Then a step printing "A1-s3"

  Scenario: A2 fails at second step
    Given a step printing "A2-s1"
    When a failing step printing "A2-s2"
    Then a step printing "A2-s3"

  Scenario: A3 errors
    Given a step printing only to stdout "A3-s1"
    When an erroring step printing "A3-s2"

  Scenario: A4 nested ok then nested fail
    Given nested steps printing "A4-n1"
    When nested failing steps printing "A4-n2"
    Then a step printing "A4-s3"

  Scenario: A5 bare assert
    Given a bare-assert step printing "A5-s1"

  Scenario: A6 undefined
    Given a step printing "A6-s1"
    When an undefined step
    Then a step printing "A6-s3"

  Scenario: A7 pending
    Given a step printing only to stderr "A7-s1"
    When a pending step printing "A7-s2"

  Scenario: A7b bare pending
    When a bare pending step printing "A7b-s1"

  Scenario: A8 before_step hook error
    Given a step printing "A8-s1"
    When a step printing "HOOKFAIL-BEFORE A8-s2"
    Then a step printing "A8-s3"

  Scenario: A9 after_step hook error
    Given a step printing "HOOKFAIL-AFTER A9-s1"
    Then a step printing "A9-s2"

  Scenario: A9b failing step and after_step hook error
    Given a failing step printing "HOOKFAIL-AFTER A9b-s1"
    Then a step printing "A9b-s2"

  Scenario: A10 skip
    Given a step that skips the scenario printing "A10-s1"
    Then a step printing "A10-s2"

  @wip
  Scenario: A11 wip pending
    Given a pending step printing "A11-s1"

  @tagfail
  Scenario: A12 tag hook fails
    Given a step printing "A12-s1"

  Scenario: A13 no steps of its own

  Scenario: A14 step replaces sys.stdout
    Given a step replacing sys.stdout printing "A14-s1"
    When a failing step printing "A14-s2"

  Scenario Outline: A15 outline <name>
    Given a step printing "A15-<name>"
    When a <kind> step printing "A15-<name>-2"

    Examples:
      | name | kind     |
      | x    | failing  |
      | y    | erroring |

  Scenario: A16 passes last
    Given a step logging "A16-s1" at "ERROR" via "foo.bar"
    Then a step printing "A16-s2"
'''

FEATURE_B = u'''
Feature: Bravo interrupted in a step

  Scenario: B1 passes
    Given a step printing "B1-s1"

  Scenario: B2 interrupted
    Given a step printing "B2-s1"
    When an interrupting step printing "B2-s2"
    Then a step printing "B2-s3"

  Scenario: B3 never runs
    Given a step printing "B3-s1"
'''

FEATURE_C = u'''
Feature: Charlie interrupted in before_step hook

  Scenario: C1 interrupted in hook
    Given a step printing "C1-s1"
    When a step printing "KBI-BEFORE C1-s2"
    Then a step printing "C1-s3"

  Scenario: C2 never runs
    Given a step printing "C2-s1"
'''

FEATURE_D = u'''
Feature: Delta interrupted in after_step hook

  Scenario: D1 interrupted in hook
    Given a step printing "D1-s1"
    When a failing step printing "KBI-AFTER D1-s2"
    Then a step printing "D1-s3"

  Scenario: D2 never runs
    Given a step printing "D2-s1"
'''

FEATURE_E = u'''
Feature: Echo runs after the others

  Scenario: E1 fails
    Given a step printing "E1-s1"
    When a failing step printing "E1-s2"

  Scenario: E2 passes
    Given a step printing "E2-s1"
'''


def write_file(path, content):
    dirname = os.path.dirname(path)
    if not os.path.isdir(dirname):
        os.makedirs(dirname)
    with io.open(path, "w", encoding="UTF-8") as f:
        f.write(textwrap.dedent(content).lstrip("\n") if path.endswith(".py")
                else content.lstrip("\n"))


def setup_workdir():
    if os.path.isdir(WORKDIR):
        shutil.rmtree(WORKDIR)
    os.makedirs(WORKDIR)
    write_file(os.path.join(WORKDIR, "features", "steps", "steps.py"), STEPS_PY)
    write_file(os.path.join(WORKDIR, "features", "environment.py"), ENVIRONMENT_PY)
    write_file(os.path.join(WORKDIR, "features", "a.feature"), FEATURE_A)
    write_file(os.path.join(WORKDIR, "features", "b.feature"), FEATURE_B)
    write_file(os.path.join(WORKDIR, "features", "c.feature"), FEATURE_C)
    write_file(os.path.join(WORKDIR, "features", "d.feature"), FEATURE_D)
    write_file(os.path.join(WORKDIR, "features", "e.feature"), FEATURE_E)


def run_behave(title, args, extra_env=None, show_junit=False):
    obs_file = os.path.join(WORKDIR, "obs.txt")
    if os.path.exists(obs_file):
        os.remove(obs_file)
    env = dict(os.environ)
    env["PYTHONPATH"] = WORKTREE
    env["OBS_FILE"] = obs_file
    env["PYTHONDONTWRITEBYTECODE"] = "1"
    env["PYTHONHASHSEED"] = "0"
    env.pop("BEHAVE_ARGS", None)
    env["HOME"] = WORKDIR
    env.update(extra_env or {})
    cmd = [PYTHON, "-m", "behave"] + args
    proc = subprocess.Popen(cmd, cwd=WORKDIR, env=env,
                            stdout=subprocess.PIPE, stderr=subprocess.PIPE)
    out, err = proc.communicate()
    emit("RUN %s: behave %s %s" % (title, " ".join(args),
                                  sorted((extra_env or {}).items())))
    print("EXIT-CODE: %s" % proc.returncode)
    print("---- CHILD STDOUT ----")
    print(normalize(out.decode("UTF-8", "replace")))
    print("---- CHILD STDERR ----")
    print(normalize(err.decode("UTF-8", "replace")))
    print("---- OBSERVATIONS ----")
    if os.path.exists(obs_file):
        with io.open(obs_file, encoding="UTF-8") as f:
            print(normalize(f.read()))
    else:
        print("(none)")
    if show_junit:
        junit_dir = os.path.join(WORKDIR, "reports")
        for name in sorted(os.listdir(junit_dir)):
            print("---- JUNIT %s ----" % name)
            with io.open(os.path.join(junit_dir, name), encoding="UTF-8") as f:
                print(normalize(f.read()))
        shutil.rmtree(junit_dir)


def part1_child_runs():
    setup_workdir()
    switches = [("--no-capture", "--capture"),
                ("--no-capture-stderr", "--capture-stderr"),
                ("--no-logcapture", "--logcapture")]
    # -- ALL 8 COMBINATIONS of the three capture switches.
    for index, combo in enumerate(itertools.product((0, 1), repeat=3)):
        args = [switches[i][combo[i]] for i in range(3)]
        run_behave("combo%d" % index,
                   ["-f", "plain", "-T"] + args + ["features/a.feature",
                                                  "features/e.feature"])
    run_behave("pretty", ["-f", "pretty", "--no-color", "-T",
                          "features/a.feature"])
    run_behave("pretty-nocapture", ["-f", "pretty", "--no-color", "-T",
                                    "--no-capture", "--no-capture-stderr",
                                    "--no-logcapture", "features/e.feature"])
    run_behave("progress", ["-f", "progress", "features/a.feature"])
    run_behave("show-skipped-wip", ["-f", "plain", "-T", "--wip",
                                    "features/a.feature"])
    run_behave("dry-run", ["-f", "plain", "-T", "--dry-run",
                           "features/a.feature"])
    run_behave("stop", ["-f", "plain", "-T", "--stop", "features/a.feature"])
    run_behave("verbose-hookerrors", ["-f", "plain", "-T", "--verbose",
                                      "--name=A8", "--name=A9",
                                      "--name=E1",
                                      "features/e.feature",
                                      "features/a.feature"])
    # -- LOGGING OPTIONS:
    run_behave("logging-level", ["-f", "plain", "-T",
                                 "--logging-level=ERROR", "features/a.feature"],
               extra_env={"ROOT_LEVEL": "WARNING"})
    run_behave("logging-level-debug", ["-f", "plain", "-T",
                                       "--logging-level=DEBUG",
                                       "features/a.feature"],
               extra_env={"ROOT_LEVEL": "ERROR", "SETUP_LOGGING": "no"})
    run_behave("logging-filter-include", ["-f", "plain", "-T",
                                          "--logging-filter=foo,hooks",
                                          "features/a.feature"])
    run_behave("logging-filter-exclude", ["-f", "plain", "-T",
                                          "--logging-filter=-foo,-hooks,steps",
                                          "features/a.feature"])
    run_behave("logging-filter-empty-name", ["-f", "plain", "-T",
                                             "--logging-filter=foo,",
                                             "features/e.feature"])
    run_behave("logging-clear-handlers", ["-f", "plain", "-T",
                                          "--logging-clear-handlers",
                                          "features/a.feature",
                                          "features/e.feature"],
               extra_env={"ROOT_LEVEL": "WARNING"})
    run_behave("logging-clear-handlers-nologcapture",
               ["-f", "plain", "-T", "--logging-clear-handlers",
                "--no-logcapture", "features/e.feature"])
    run_behave("logging-format", ["-f", "plain", "-T",
                                  "--logging-format=%(name)s|%(levelname)s|%(message)s",
                                  "features/e.feature"])
    run_behave("logging-datefmt", ["-f", "plain", "-T",
                                   "--logging-format=%(asctime)s|%(message)s",
                                   "--logging-datefmt=DATE",
                                   "features/e.feature"])
    # -- INTERRUPTS:
    for index, combo in enumerate([(1, 1, 1), (0, 0, 0), (1, 0, 1)]):
        args = [switches[i][combo[i]] for i in range(3)]
        run_behave("kbi-step-%d" % index,
                   ["-f", "plain", "-T"] + args +
                   ["features/b.feature", "features/e.feature"])
        run_behave("kbi-before-step-hook-%d" % index,
                   ["-f", "plain", "-T"] + args +
                   ["features/c.feature", "features/e.feature"])
        run_behave("kbi-after-step-hook-%d" % index,
                   ["-f", "plain", "-T"] + args +
                   ["features/d.feature", "features/e.feature"])
    # -- JUNIT: stores captured output of all scenarios.
    run_behave("junit", ["-f", "plain", "-T", "--junit",
                         "--junit-directory=reports",
                         "features/a.feature", "features/e.feature"],
               show_junit=True)
    run_behave("junit-nocapture", ["-f", "plain", "-T", "--junit",
                                   "--junit-directory=reports", "--no-capture",
                                   "--no-logcapture", "features/e.feature"],
               show_junit=True)
    shutil.rmtree(WORKDIR)


# ---------------------------------------------------------------------------
# PART 2: IN-PROCESS CHECKS
# ---------------------------------------------------------------------------
class SimpleConfig(object):
    def __init__(self, **kwargs):
        self.stdout_capture = True
        self.stderr_capture = True
        self.log_capture = True
        self.logging_format = None
        self.logging_datefmt = None
        self.logging_level = None
        self.logging_filter = None
        self.logging_clear_handlers = False
        for name, value in kwargs.items():
            setattr(self, name, value)


class SimpleContext(object):
    pass


class LabelHandler(logging.Handler):
    def __init__(self, label):
        logging.Handler.__init__(self)
        self.label = label
        self.seen = []

    def emit(self, record):
        self.seen.append(record.getMessage())

    def __repr__(self):
        return "<LabelHandler %s>" % self.label


class EqualsAnythingHandler(LabelHandler):
    # -- Handler that compares equal to everything (list.remove() semantics).
    def __eq__(self, other):
        return True
    __hash__ = logging.Handler.__hash__


def logging_snapshot():
    from behave.log_capture import LoggingCapture
    parts = []
    def describe(h):
        if isinstance(h, LoggingCapture):
            return "<LoggingCapture level=%s>" % h.level
        return repr(h)
    root = logging.getLogger()
    parts.append("root(level=%s): %s" % (root.level,
                                         [describe(h) for h in root.handlers]))
    for name, logger in logging.Logger.manager.loggerDict.items():
        if not name.startswith("t."):
            continue
        if hasattr(logger, "handlers"):
            parts.append("%s(level=%s): %s" % (name, logger.level,
                                               [describe(h) for h in logger.handlers]))
        else:
            parts.append("%s: %s" % (name, logger.__class__.__name__))
    return "\n    ".join(parts)


def reset_logging():
    root = logging.getLogger()
    root.handlers[:] = []
    root.setLevel(logging.WARNING)
    for name, logger in list(logging.Logger.manager.loggerDict.items()):
        if name.startswith("t.") and hasattr(logger, "handlers"):
            logger.handlers[:] = []


def outcome(func, *args, **kwargs):
    try:
        return "-> %r" % (func(*args, **kwargs),)
    except BaseException as e:  # pylint: disable=broad-except
        return "!! %s: %s" % (e.__class__.__name__, e)


def part2_captured():
    from behave.capture import Captured, add_text_to
    emit("Captured arithmetic and reports")
    values = [None, u"", u"one", u"two\n", u"  padded  \n\n", u"caf\xe9"]
    for stdout, stderr, log in itertools.product(values, repeat=3):
        c = Captured(stdout, stderr, log)
        print("Captured(%r, %r, %r): bool=%s output=%r report=%r" % (
            stdout, stderr, log, bool(c), c.output, c.make_report()))
    a = Captured(u"a-out", None, u"a-log")
    b = Captured(u"b-out\n", u"b-err", None)
    c = a + b
    print("add:", repr((c.stdout, c.stderr, c.log_output)), c is a)
    a += b
    print("iadd:", repr((a.stdout, a.stderr, a.log_output)))
    a.reset()
    print("reset:", repr((a.stdout, a.stderr, a.log_output)), bool(a))
    print("add non-captured:", outcome(lambda: Captured().add("x")))
    for args in [(u"", u"x"), (u"a", u""), (u"a", u"b"), (u"a\n", u"b"),
                 (u"a", u"b", u""), (u"a", u"b", u"--"), (None, u"b"),
                 (u"a", None)]:
        print("add_text_to%r = %r" % (args, add_text_to(*args)))


def part2_capture_controller():
    from behave.capture import CaptureController, capture_output
    emit("CaptureController lifecycle for all 8 switch combinations")
    real_out, real_err = sys.stdout, sys.stderr
    for so, se, lc in itertools.product((False, True), repeat=3):
        reset_logging()
        config = SimpleConfig(stdout_capture=so, stderr_capture=se,
                              log_capture=lc)
        controller = CaptureController(config)
        context = SimpleContext()
        lines = []
        def state(label):
            lines.append("%s: out_real=%s err_real=%s out_is_capture=%s "
                         "err_is_capture=%s old_stdout_real=%s old_stderr_real=%s" % (
                label, sys.stdout is real_out, sys.stderr is real_err,
                sys.stdout is controller.stdout_capture,
                sys.stderr is controller.stderr_capture,
                controller.old_stdout is real_out,
                controller.old_stderr is real_err))
        fake_out, fake_err = io.StringIO(), io.StringIO()
        sys.stdout, sys.stderr = fake_out, fake_err
        real_pair = (real_out, real_err)
        real_out, real_err = fake_out, fake_err
        try:
            lines.append("captured before setup: %r" % controller.captured.output)
            lines.append("stop before setup: %s" % outcome(controller.stop_capture))
            controller.setup_capture(context)
            lines.append("context attrs: %s" % sorted(vars(context)))
            lines.append("context identity: %s" % [
                getattr(context, n, None) is getattr(controller, n)
                for n in ("stdout_capture", "stderr_capture", "log_capture")])
            state("after setup")
            controller.start_capture()
            state("after start")
            print(u"OUT-1")
            sys.stderr.write(u"ERR-1\n")
            logging.getLogger("t.one").warning("LOG-1")
            controller.start_capture()      # -- NESTED start: no-op.
            state("after nested start")
            print(u"OUT-2")
            controller.stop_capture()
            state("after stop")
            controller.stop_capture()       # -- SECOND stop: no-op.
            state("after second stop")
            print(u"OUT-3-uncaptured")
            sys.stderr.write(u"ERR-3-uncaptured\n")
            with capture_output(controller):
                print(u"OUT-4")
                state("inside capture_output")
            state("after capture_output")
            with capture_output(controller, enabled=False):
                print(u"OUT-5-uncaptured")
                state("inside disabled capture_output")
            lines.append("raise in capture_output: %s" % outcome(
                raise_inside, controller, capture_output))
            state("after raising capture_output")
            captured = controller.captured
            lines.append("captured: stdout=%r stderr=%r log=%r" % (
                captured.stdout, captured.stderr, captured.log_output))
            lines.append("report: %r" % controller.make_capture_report())
            lines.append("logging before teardown:\n    " + logging_snapshot())
            lines.append("teardown: %s" % outcome(controller.teardown_capture))
            lines.append("logging after teardown:\n    " + logging_snapshot())
            # -- SECOND SCENARIO: fresh buffers.
            old_buffers = (controller.stdout_capture, controller.stderr_capture,
                           controller.log_capture)
            controller.setup_capture(context)
            lines.append("fresh buffers: %s" % [
                (new is None) or (new is not old) for new, old in
                zip((controller.stdout_capture, controller.stderr_capture,
                     controller.log_capture), old_buffers)])
            lines.append("captured after re-setup: %r" % controller.captured.output)
            controller.teardown_capture()
            # -- MISUSE: somebody replaces the stream while capturing.
            controller.start_capture()
            intruder = io.StringIO()
            saved = sys.stdout
            sys.stdout = intruder
            lines.append("start with intruder: %s" % outcome(controller.start_capture))
            lines.append("stop with intruder: %s" % outcome(controller.stop_capture))
            state("after intruder stop")
            sys.stdout = controller.stdout_capture or saved
            lines.append("stop while sys.stdout is buffer: %s" % outcome(
                controller.stop_capture))
            saved_err = sys.stderr
            if controller.stderr_capture:
                sys.stderr = controller.stderr_capture
                lines.append("stop while sys.stderr is buffer: %s" % outcome(
                    controller.stop_capture))
            sys.stderr = saved_err
        finally:
            real_out, real_err = real_pair
            sys.stdout, sys.stderr = real_out, real_err
        print("--- stdout_capture=%s stderr_capture=%s log_capture=%s" % (so, se, lc))
        for line in lines:
            print("  " + line)
        print("  passed-through stdout: %r" % fake_out.getvalue())
        print("  passed-through stderr: %r" % fake_err.getvalue())
    emit("CaptureController: setup_capture(None), teardown without setup")
    controller = CaptureController(SimpleConfig())
    print(outcome(controller.setup_capture, None))
    print(outcome(CaptureController(SimpleConfig()).teardown_capture))
    print(outcome(CaptureController(SimpleConfig(log_capture=False)).teardown_capture))
    reset_logging()


def raise_inside(controller, capture_output):
    with capture_output(controller):
        print(u"OUT-6-before-raise")
        raise ValueError("inside")


def part2_logging_capture():
    from behave.log_capture import LoggingCapture, RecordFilter, capture
    emit("RecordFilter")
    class Rec(object):
        def __init__(self, name):
            self.name = name
    for spec in ["foo", "foo,bar", "-foo", "-foo,bar", "foo,-bar,-baz", "-",
                 "foo,", ",foo", "", "foo,foo,-foo", " foo", "-foo,-foo"]:
        try:
            rf = RecordFilter(spec)
        except Exception as e:  # pylint: disable=broad-except
            print("RecordFilter(%r) !! %s: %s" % (spec, e.__class__.__name__, e))
            continue
        print("RecordFilter(%r): include=%s exclude=%s filter=%s" % (
            spec, sorted(rf.include), sorted(rf.exclude),
            [(n, rf.filter(Rec(n))) for n in ("foo", "bar", "baz", "", " foo")]))
    print("RecordFilter(None):", outcome(RecordFilter, None))

    emit("LoggingCapture construction")
    for kwargs, level in [
            ({}, None), ({}, logging.ERROR), ({}, 0),
            ({"logging_level": logging.INFO}, None),
            ({"logging_level": logging.INFO}, logging.CRITICAL),
            ({"logging_level": 0}, None),
            ({"logging_format": "%(name)s>>%(message)s"}, None),
            ({"logging_format": "%(asctime)s>>%(message)s",
              "logging_datefmt": "DATE"}, None),
            ({"logging_datefmt": "DATE"}, None),
            ({"logging_filter": "t.one"}, None),
            ({"logging_filter": "-t.one"}, None),
            ({"logging_filter": "t.one,"}, None)]:
        reset_logging()
        try:
            h = LoggingCapture(SimpleConfig(**kwargs), level=level)
        except Exception as e:  # pylint: disable=broad-except
            print("LoggingCapture(%r, level=%r) !! %s: %s" % (
                sorted(kwargs.items()), level, e.__class__.__name__, e))
            continue
        h.inveigle()
        logging.getLogger("t.one").debug("m-debug")
        logging.getLogger("t.one").info("m-info")
        logging.getLogger("t.two").error("m-error %s", "arg")
        logging.getLogger().critical("m-critical")
        print("LoggingCapture(%r, level=%r): level=%s fmt=%r datefmt=%r "
              "filters=%s bool=%s any_errors=%s find(m-info)=%s find(zzz)=%s" % (
            sorted(kwargs.items()), level, h.level, h.formatter._fmt,
            h.formatter.datefmt, [f.__class__.__name__ for f in h.filters],
            bool(h), h.any_errors(), h.find_event("m-i.fo"), h.find_event("zzz")))
        print("   getvalue=%r" % h.getvalue())
        h.abandon()
        h.truncate()
        print("   after truncate: bool=%s getvalue=%r" % (bool(h), h.getvalue()))

    emit("LoggingCapture inveigle/abandon")
    for clear, root_level, own_level in itertools.product(
            (False, True), (logging.WARNING, logging.NOTSET, logging.ERROR),
            (None, logging.DEBUG)):
        reset_logging()
        root = logging.getLogger()
        root.setLevel(root_level)
        r1, r2 = LabelHandler("r1"), LabelHandler("r2")
        root.addHandler(r1)
        stale = LoggingCapture(SimpleConfig())
        root.addHandler(stale)
        root.addHandler(r2)
        one = logging.getLogger("t.one")
        h1, h2, h3 = LabelHandler("h1"), LabelHandler("h2"), LabelHandler("h3")
        one.addHandler(h1); one.addHandler(h2); one.addHandler(h3)
        logging.getLogger("t.deep.er.logger").addHandler(LabelHandler("d1"))
        config = SimpleConfig(logging_clear_handlers=clear,
                              logging_level=own_level)
        h = LoggingCapture(config)
        print("--- clear=%s root_level=%s own_level=%s" % (clear, root_level, own_level))
        print("  before:\n    " + logging_snapshot())
        h.inveigle()
        print("  inveigled: old_level=%s old_handlers=%s\n    %s" % (
            h.old_level, [(l.name, repr(x)) for l, x in h.old_handlers],
            logging_snapshot()))
        logging.getLogger("t.one").warning("w1")
        logging.getLogger("t.deep.er.logger").info("i1")
        root.error("e1")
        print("  seen: capture=%r r1=%s r2=%s h1=%s h3=%s" % (
            h.getvalue(), r1.seen, r2.seen, h1.seen, h3.seen))
        h.inveigle()    # -- SECOND inveigle (like nested use).
        print("  inveigled twice: old_level=%s old_handlers=%s\n    %s" % (
            h.old_level, [(l.name, repr(x)) for l, x in h.old_handlers],
            logging_snapshot()))
        h.abandon()
        print("  abandoned: old_level=%s\n    %s" % (h.old_level, logging_snapshot()))
        h.abandon()
        print("  abandoned twice: old_level=%s\n    %s" % (h.old_level,
                                                           logging_snapshot()))

    emit("LoggingCapture abandon with a handler that equals everything")
    reset_logging()
    root = logging.getLogger()
    weird = EqualsAnythingHandler("weird")
    root.addHandler(weird)
    h = LoggingCapture(SimpleConfig())
    h.inveigle()
    print("  inveigled:\n    " + logging_snapshot())
    h.abandon()
    print("  abandoned:\n    " + logging_snapshot())

    emit("log_capture.capture decorator")
    reset_logging()
    calls = []
    @capture
    def hook1(context, *args):
        calls.append(("hook1", args))
        logging.getLogger("t.one").warning("from-hook1")
    @capture(level=logging.ERROR)
    def hook2(context, *args):
        calls.append(("hook2", args))
        logging.getLogger("t.one").warning("from-hook2-warning")
        logging.getLogger("t.one").error("from-hook2-error")
    @capture
    def hook3(context, *args):
        logging.getLogger("t.one").warning("from-hook3")
        raise RuntimeError("hook3")
    ctx = SimpleContext()
    ctx.config = SimpleConfig()
    print(outcome(hook1, ctx, 1, 2))
    print(outcome(hook2, ctx))
    print(outcome(hook3, ctx))
    print(calls)
    print("  after:\n    " + logging_snapshot())
    reset_logging()


def part2_model_run():
    """Step.run()/Scenario.run() with a real ModelRunner and recording parts."""
    from behave.configuration import Configuration
    from behave.runner import ModelRunner, Context
    from behave.step_registry import StepRegistry
    from behave.parser import parse_feature
    from behave.formatter.base import Formatter
    from behave.exception import StepNotImplementedError
    from behave.model_core import Status

    emit("Step.run / Scenario.run in-process with recording formatter and hooks")
    real_out_saved, real_err_saved = sys.stdout, sys.stderr
    real = [sys.stdout, sys.stderr]     # -- "real" streams as seen by the run.
    log = []

    class RecordingFormatter(Formatter):
        name = "recording"
        def __init__(self):     # pylint: disable=super-init-not-called
            pass
        def uri(self, uri): log.append("fmt.uri")
        def feature(self, feature): log.append("fmt.feature %s" % feature.name)
        def background(self, background): log.append("fmt.background")
        def rule(self, rule): log.append("fmt.rule")
        def scenario(self, scenario):
            log.append("fmt.scenario %s [capturing=%s]" % (
                scenario.name, sys.stdout is not real[0]))
        def step(self, step): log.append("fmt.step %s" % step.name)
        def match(self, match):
            log.append("fmt.match %s [capturing=%s]" % (
                match.__class__.__name__, sys.stdout is not real[0]))
        def result(self, step):
            log.append("fmt.result %s %s [capturing=%s] error=%r" % (
                step.name, step.status.name, sys.stdout is not real[0],
                normalize(step.error_message or u"")))
        def eof(self): log.append("fmt.eof")
        def close(self): log.append("fmt.close")

    registry = StepRegistry()
    def make(kind):
        def step_impl(ctx, marker):
            log.append("impl.%s %s [out_captured=%s err_captured=%s]" % (
                kind, marker, sys.stdout is not real[0],
                sys.stderr is not real[1]))
            print(u"OUT:%s" % marker)
            sys.stderr.write(u"ERR:%s\n" % marker)
            logging.getLogger("t.steps").warning("LOG:%s", marker)
            if kind == "fail":
                assert False, u"FAIL:%s" % marker
            elif kind == "bare":
                assert False
            elif kind == "error":
                raise RuntimeError(u"ERROR:%s" % marker)
            elif kind == "pending":
                raise StepNotImplementedError(u"PENDING:%s" % marker)
            elif kind == "barepending":
                raise StepNotImplementedError()
            elif kind == "kbi":
                raise KeyboardInterrupt()
            elif kind == "sysexit":
                raise SystemExit(3)
            elif kind == "skip":
                ctx.scenario.skip(u"SKIP:%s" % marker)
            elif kind == "stepskip":
                ctx.step_to_skip.skip(u"STEPSKIP")
            elif kind == "nested":
                ctx.execute_steps(u'Given a pass step "n1:%s"\n'
                                  u'And a pass step "n2:%s"' % (marker, marker))
            elif kind == "nestedfail":
                ctx.execute_steps(u'Given a pass step "n1:%s"\n'
                                  u'And a fail step "n2:%s"' % (marker, marker))
        return step_impl
    for kind in ("pass", "fail", "bare", "error", "pending", "barepending",
                 "kbi", "sysexit", "skip", "nested", "nestedfail"):
        registry.add_step_definition("step", u'a %s step "{marker}"' % kind,
                                     make(kind))

    feature_text = u'''
Feature: F
  Scenario: S1 pass
    Given a pass step "S1-1"
    Then a pass step "S1-2"
  Scenario: S2 fail
    Given a pass step "S2-1"
    When a fail step "S2-2"
    Then a pass step "S2-3"
    And an undefined thing
  Scenario: S3 bare
    Given a bare step "S3-1"
  Scenario: S4 error
    Given a error step "S4-1"
    Then a pass step "S4-2"
  Scenario: S5 pending
    Given a pending step "S5-1"
    Then a pass step "S5-2"
  Scenario: S5b bare pending
    Given a barepending step "S5b-1"
  Scenario: S6 undefined
    Given a pass step "S6-1"
    When something undefined
    Then a pass step "S6-3"
    And another undefined thing
  Scenario: S7 skip
    Given a skip step "S7-1"
    Then a pass step "S7-2"
  Scenario: S8 nested
    Given a nested step "S8-1"
    When a nestedfail step "S8-2"
    Then a pass step "S8-3"
  Scenario: S9 before hook fails
    Given a pass step "HOOKFAIL-BEFORE S9-1"
    Then a pass step "S9-2"
  Scenario: S10 after hook fails
    Given a pass step "HOOKFAIL-AFTER S10-1"
    Then a pass step "S10-2"
  Scenario: S10b fail and after hook fails
    Given a fail step "HOOKFAIL-AFTER S10b-1"
  @continue
  Scenario: S11 continue after failed step
    Given a fail step "S11-1"
    When a pass step "S11-2"
    Then a error step "S11-3"
    And something undefined here
    And a pass step "S11-5"
  Scenario: S12 empty
  @skipme
  Scenario: S13 excluded by hook
    Given a pass step "S13-1"
  Scenario: S14 interrupted
    Given a pass step "S14-1"
    When a kbi step "S14-2"
    Then a pass step "S14-3"
  Scenario: S15 after abort
    Given a pass step "S15-1"
'''
    hook_flags = {}
    def before_step(ctx, step):
        log.append("hook.before_step %s [out_captured=%s]" % (
            step.name, sys.stdout is not real[0]))
        print(u"HOOK-OUT:before:%s" % step.name)
        if "HOOKFAIL-BEFORE" in step.name:
            raise RuntimeError("HOOKFAIL-BEFORE")
        if hook_flags.get("raise_in_before_step") and hook_flags[
                "raise_in_before_step"][0] in step.name:
            raise hook_flags["raise_in_before_step"][1]
    def after_step(ctx, step):
        log.append("hook.after_step %s %s [out_captured=%s]" % (
            step.name, step.status.name, sys.stdout is not real[0]))
        sys.stderr.write(u"HOOK-ERR:after:%s\n" % step.name)
        if "HOOKFAIL-AFTER" in step.name:
            raise RuntimeError("HOOKFAIL-AFTER")
        if hook_flags.get("raise_in_after_step") and hook_flags[
                "raise_in_after_step"][0] in step.name:
            raise hook_flags["raise_in_after_step"][1]
    def before_scenario(ctx, scenario):
        log.append("hook.before_scenario %s [out_real=%s err_real=%s]" % (
            scenario.name, sys.stdout is real[0], sys.stderr is real[1]))
        if "continue" in scenario.tags:
            scenario.continue_after_failed_step = True
        if "skipme" in scenario.tags:
            scenario.mark_skipped()
    def after_scenario(ctx, scenario):
        log.append("hook.after_scenario %s %s [out_real=%s err_real=%s] %s" % (
            scenario.name, scenario.status.name, sys.stdout is real[0],
            sys.stderr is real[1], logging_snapshot().replace("\n    ", " | ")))

    def describe_captured(captured):
        return "stdout=%r stderr=%r log=%r" % (captured.stdout, captured.stderr,
                                               captured.log_output)

    def run_once(title, args, hook_setup=None, only=None, dry_run=False):
        del log[:]
        hook_flags.clear()
        hook_flags.update(hook_setup or {})
        reset_logging()
        root_marker = LabelHandler("pre-existing")
        logging.getLogger().addHandler(root_marker)
        logging.getLogger("t.steps").addHandler(LabelHandler("steps-own"))
        config = Configuration(args + ["-f", "null"], load_config=False)
        config.dry_run = dry_run
        runner = ModelRunner(config, step_registry=registry)
        runner.formatters = [RecordingFormatter()]
        runner.hooks = {"before_step": before_step, "after_step": after_step,
                        "before_scenario": before_scenario,
                        "after_scenario": after_scenario}
        runner.context = Context(runner)
        feature = parse_feature(feature_text.lstrip(), filename="f.feature")
        if only:
            feature.run_items = [s for s in feature.run_items
                                 if s.name.split()[0] in only]
            feature.scenarios = list(feature.run_items)
        fake_out, fake_err = io.StringIO(), io.StringIO()
        sys.stdout, sys.stderr = fake_out, fake_err
        real[:] = [fake_out, fake_err]
        result = None
        try:
            try:
                result = "-> %r" % runner.run_model([feature])
            except BaseException as e:  # pylint: disable=broad-except
                result = "!! %s: %s" % (e.__class__.__name__, e)
            restored = (sys.stdout is fake_out, sys.stderr is fake_err)
        finally:
            sys.stdout, sys.stderr = real_out_saved, real_err_saved
        print("--- %s: args=%s hooks=%s only=%s dry_run=%s" % (
            title, args, sorted((k, (v[0], v[1].__class__.__name__))
                                for k, v in hook_flags.items()), only, dry_run))
        print("  run_model %s; streams restored=%s; aborted=%s; "
              "hook_failures=%s; undefined=%s" % (
            result, restored, runner.aborted, runner.hook_failures,
            [s.name for s in runner.undefined_steps]))
        for line in log:
            print("  " + normalize(line))
        print("  real stdout got: %r" % normalize(fake_out.getvalue()))
        print("  real stderr got: %r" % normalize(fake_err.getvalue()))
        print("  pre-existing root handler saw: %r" % root_marker.seen)
        print("  logging at end: %s" % logging_snapshot().replace("\n    ", " | "))
        for scenario in feature.walk_scenarios():
            print("  SCENARIO %s: %s hook_failed=%s captured: %s" % (
                scenario.name, scenario.status.name, scenario.hook_failed,
                describe_captured(scenario.captured)))
            for step in scenario.all_steps:
                print("    STEP %s: %s captured: %s" % (
                    step.name, step.status.name, describe_captured(step.captured)))
                print("      error_message=%r" % normalize(step.error_message or u""))

    switches = [("--no-capture", "--capture"),
                ("--no-capture-stderr", "--capture-stderr"),
                ("--no-logcapture", "--logcapture")]
    for index, combo in enumerate(itertools.product((0, 1), repeat=3)):
        args = [switches[i][combo[i]] for i in range(3)]
        run_once("combo%d" % index, args)
    run_once("junit", ["--junit", "--junit-directory=" + os.path.join(HERE, "_junit")],
             only=["S1", "S2", "S7", "S12"])
    run_once("show-skipped", ["--show-skipped"], only=["S12", "S13", "S1"])
    run_once("no-skipped", ["--no-skipped"], only=["S12", "S13", "S1"])
    run_once("dry-run", [], dry_run=True, only=["S1", "S2", "S6", "S12"])
    run_once("clear-handlers", ["--logging-clear-handlers",
                                "--logging-level=ERROR"],
             only=["S1", "S2", "S4"])
    run_once("filter", ["--logging-filter=-t.steps"], only=["S1", "S2"])
    for exc in (KeyboardInterrupt(), SystemExit(5), RuntimeError("plain")):
        for args in ([], ["--no-capture", "--no-capture-stderr", "--no-logcapture"]):
            run_once("before_step raises %s" % exc.__class__.__name__, args,
                     hook_setup={"raise_in_before_step": ("S2-2", exc)},
                     only=["S1", "S2", "S3"])
            run_once("after_step raises %s" % exc.__class__.__name__, args,
                     hook_setup={"raise_in_after_step": ("S2-2", exc)},
                     only=["S1", "S2", "S3"])
    reset_logging()
    junit_dir = os.path.join(HERE, "_junit")
    if os.path.isdir(junit_dir):
        shutil.rmtree(junit_dir)


def part2_step_run_direct():
    """Step.run() called directly: quiet/capture flag combinations."""
    from behave.configuration import Configuration
    from behave.runner import ModelRunner, Context
    from behave.step_registry import StepRegistry
    from behave.model import Step, Scenario
    from behave.exception import StepNotImplementedError

    emit("Step.run called directly (quiet x capture x outcome)")
    calls = []

    class Fmt(object):
        def match(self, match):
            calls.append("match %s" % match.__class__.__name__)
        def result(self, step):
            calls.append("result %s" % step.status.name)

    class Raiser(object):
        def __init__(self, exc): self.exc = exc

    outcomes = [("pass", None), ("assert-msg", AssertionError(u"msg")),
                ("assert-bare", AssertionError()),
                ("pending", StepNotImplementedError(u"todo")),
                ("pending-bare", StepNotImplementedError()),
                ("error", ValueError(u"bad")),
                ("kbi", KeyboardInterrupt()),
                ("unicode", RuntimeError(u"caf\xe9"))]
    for (name, exc), quiet, capture, wip, dry in itertools.product(
            outcomes, (False, True), (False, True), (False, True), (False,)):
        del calls[:]
        reset_logging()
        registry = StepRegistry()
        def impl(ctx, exc=exc):
            calls.append("impl [captured=%s] text=%r table=%r" % (
                sys.stdout is not fake_out, ctx.text, ctx.table))
            print(u"OUT:impl")
            sys.stderr.write(u"ERR:impl\n")
            logging.getLogger("t.direct").error("LOG:impl")
            if exc is not None:
                raise exc
        registry.add_step_definition("given", u"something", impl)
        config = Configuration(["-f", "null"], load_config=False)
        runner = ModelRunner(config, step_registry=registry)
        runner.formatters = [Fmt()]
        runner.context = Context(runner)
        scenario = Scenario("f.feature", 1, u"Scenario", u"sc",
                            tags=[u"wip"] if wip else [])
        runner.context.scenario = scenario
        step = Step("f.feature", 2, u"Given", "given", u"something",
                    text=u"TEXT")
        fake_out, fake_err = io.StringIO(), io.StringIO()
        saved = sys.stdout, sys.stderr
        sys.stdout, sys.stderr = fake_out, fake_err
        try:
            runner.setup_capture()
            try:
                result = "-> %r" % step.run(runner, quiet=quiet, capture=capture)
            except BaseException as e:  # pylint: disable=broad-except
                result = "!! %s: %s" % (e.__class__.__name__, e)
            restored = (sys.stdout is fake_out, sys.stderr is fake_err)
            runner.teardown_capture()
        finally:
            sys.stdout, sys.stderr = saved
        print("%s quiet=%s capture=%s wip=%s: %s status=%s restored=%s aborted=%s "
              "calls=%s" % (name, quiet, capture, wip, result, step.status.name,
                            restored, runner.aborted, calls))
        print("   error_message=%r" % normalize(step.error_message or u""))
        print("   exception=%r captured: stdout=%r stderr=%r log=%r" % (
            step.exception, step.captured.stdout, step.captured.stderr,
            step.captured.log_output))
        print("   passed through: out=%r err=%r" % (fake_out.getvalue(),
                                                   fake_err.getvalue()))
    # -- UNDEFINED STEP:
    for quiet, dry in itertools.product((False, True), (False, True)):
        del calls[:]
        config = Configuration(["-f", "null"], load_config=False)
        config.dry_run = dry
        runner = ModelRunner(config, step_registry=StepRegistry())
        runner.formatters = [Fmt()]
        runner.context = Context(runner)
        step = Step("f.feature", 2, u"Given", "given", u"unknown")
        result = outcome(step.run, runner, quiet=quiet)
        print("undefined quiet=%s dry_run=%s: %s status=%s undefined=%s calls=%s" % (
            quiet, dry, result, step.status.name,
            [s.name for s in runner.undefined_steps], calls))
    reset_logging()


def part2_step_run_fake_runner():
    """Step.run() with a recording fake runner: order of runner calls and
    behaviour when start_capture()/stop_capture()/hooks raise."""
    from behave.model import Step
    from behave.capture import Captured

    emit("Step.run with recording fake runner (start/stop/hook failures)")

    class FakeConfig(object):
        dry_run = False

    class FakeContext(object):
        scenario = None

    class FakeMatch(object):
        def __init__(self, calls, exc):
            self.calls = calls
            self.exc = exc
        def run(self, context):
            self.calls.append("match.run text=%r table=%r" % (context.text,
                                                              context.table))
            if self.exc is not None:
                raise self.exc

    class FakeRegistry(object):
        def __init__(self, match):
            self.match = match
        def find_match(self, step):
            return self.match

    class FakeController(object):
        def __init__(self, calls):
            self.calls = calls
        @property
        def captured(self):
            self.calls.append("capture_controller.captured")
            return Captured(u"cap-out", u"cap-err", u"cap-log")

    class FakeFormatter(object):
        def __init__(self, calls):
            self.calls = calls
        def match(self, match):
            self.calls.append("formatter.match")
        def result(self, step):
            self.calls.append("formatter.result %s" % step.status.name)

    class FakeRunner(object):
        def __init__(self, calls, step_exc, raising):
            self.calls = calls
            self.raising = raising
            self.config = FakeConfig()
            self.context = FakeContext()
            self.step_registry = FakeRegistry(FakeMatch(calls, step_exc))
            self.capture_controller = FakeController(calls)
            self.formatters = [FakeFormatter(calls)]
            self.undefined_steps = []
        def _maybe_raise(self, name):
            self.calls.append(name)
            exc = self.raising.get(name)
            if exc is not None:
                raise exc
        def start_capture(self):
            self._maybe_raise("start_capture")
        def stop_capture(self):
            self._maybe_raise("stop_capture")
        def run_hook(self, name, context, step):
            self._maybe_raise(name)
        def abort(self, reason=None):
            self.calls.append("abort %s" % reason)

    step_excs = [None, AssertionError(u"nope"), ValueError(u"bad"),
                 KeyboardInterrupt(), SystemExit(4), GeneratorExit()]
    raisings = [{}, {"start_capture": AssertionError()},
                {"start_capture": RuntimeError("start")},
                {"stop_capture": AssertionError()},
                {"stop_capture": RuntimeError("stop")},
                {"before_step": KeyboardInterrupt()},
                {"before_step": RuntimeError("hook")},
                {"after_step": SystemExit(9)},
                {"after_step": KeyboardInterrupt(),
                 "stop_capture": RuntimeError("stop2")},
                {"before_step": ValueError("hook2"),
                 "stop_capture": AssertionError("stop3")}]
    for step_exc, raising, capture, quiet in itertools.product(
            step_excs, raisings, (True, False), (False, True)):
        calls = []
        runner = FakeRunner(calls, step_exc, raising)
        step = Step("f.feature", 2, u"Given", "given", u"something",
                    text=u"TEXT")
        try:
            result = "-> %r" % step.run(runner, quiet=quiet, capture=capture)
        except BaseException as e:  # pylint: disable=broad-except
            context = e.__context__
            result = "!! %s: %s (context=%s: %s)" % (
                e.__class__.__name__, e, context.__class__.__name__, context)
        print("step_exc=%s raising=%s capture=%s quiet=%s: %s status=%s" % (
            step_exc.__class__.__name__,
            sorted((k, v.__class__.__name__) for k, v in raising.items()),
            capture, quiet, result, step.status.name))
        print("   calls=%s" % calls)
        print("   error_message=%r" % normalize(step.error_message or u""))


def main():
    # -- COLLECT everything, normalize volatile parts (durations, line numbers,
    #    addresses) once more over the complete transcript.
    transcript = io.StringIO()
    sys.stdout = transcript
    try:
        part2_captured()
        part2_capture_controller()
        part2_logging_capture()
        part2_model_run()
        part2_step_run_direct()
        part2_step_run_fake_runner()
        part1_child_runs()
        emit("DONE")
    finally:
        sys.stdout = sys.__stdout__
    sys.stdout.write(normalize(transcript.getvalue()))


if __name__ == "__main__":
    main()
