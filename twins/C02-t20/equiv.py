# -*- coding: UTF-8 -*-
"""Equivalence transcript for C02-t20 (copy_and_reset_steps in one pass; Scenario.reset via reset_steps).

Runs generated features in-process through behave's ModelRunner with a private
StepRegistry, a recording formatter and recording hooks, and prints a canonical
transcript: call log of step functions, formatter/hook protocol, step statuses,
scenario/feature statuses, undefined steps, context.failed.
"""
from __future__ import print_function
import sys
sys.path.insert(0, "/tmp/wtW/C02")

import itertools
import random
import re

from behave.configuration import Configuration
from behave.formatter.base import Formatter
from behave.model_core import Status
from behave.parser import parse_feature
from behave.runner import ModelRunner
from behave.step_registry import StepRegistry
from behave.api.pending_step import StepNotImplementedError
from behave import matchers

OUTCOMES = ("pass", "fail", "exc", "pend", "undef", "skip", "kbd", "conv")
CALLS = []


def norm(text):
    """Normalize volatile parts of error messages (paths, line numbers)."""
    if text is None:
        return None
    text = re.sub(r'File "[^"]*[\\/]([^"\\/]+)", line \d+', r'File "\1", line N', text)
    text = re.sub(r"0x[0-9a-fA-F]+", "0xX", text)
    return text


def make_registry():
    registry = StepRegistry()

    def bad_number(text):
        raise ValueError("bad number: %s" % text)
    matchers.register_type(BadNumber=bad_number)

    def s_pass(context, tag):
        CALLS.append(("pass", tag, context.scenario.name))

    def s_fail(context, tag):
        CALLS.append(("fail", tag, context.scenario.name))
        assert False, "boom %s" % tag

    def s_fail_noargs(context, tag):
        CALLS.append(("fail0", tag, context.scenario.name))
        raise AssertionError()

    def s_exc(context, tag):
        CALLS.append(("exc", tag, context.scenario.name))
        raise RuntimeError("oops %s" % tag)

    def s_pend(context, tag):
        CALLS.append(("pend", tag, context.scenario.name))
        raise StepNotImplementedError("todo %s" % tag)

    def s_pend_noargs(context, tag):
        CALLS.append(("pend0", tag, context.scenario.name))
        raise StepNotImplementedError()

    def s_skip(context, tag):
        CALLS.append(("skip", tag, context.scenario.name))
        context.scenario.skip("by step %s" % tag)

    def s_kbd(context, tag):
        CALLS.append(("kbd", tag, context.scenario.name))
        raise KeyboardInterrupt()

    def s_conv(context, tag, n):
        CALLS.append(("conv", tag, context.scenario.name))

    def s_print(context, tag):
        CALLS.append(("print", tag, context.scenario.name))
        print("captured output %s" % tag)
        assert False, "after print %s" % tag

    registry.add_step_definition("step", "do pass {tag}", s_pass)
    registry.add_step_definition("step", "do fail {tag}", s_fail)
    registry.add_step_definition("step", "do fail0 {tag}", s_fail_noargs)
    registry.add_step_definition("step", "do exc {tag}", s_exc)
    registry.add_step_definition("step", "do pend {tag}", s_pend)
    registry.add_step_definition("step", "do pend0 {tag}", s_pend_noargs)
    registry.add_step_definition("step", "do skip {tag}", s_skip)
    registry.add_step_definition("step", "do kbd {tag}", s_kbd)
    registry.add_step_definition("step", "do conv {tag} {n:BadNumber}", s_conv)
    registry.add_step_definition("step", "do print {tag}", s_print)
    return registry


def step_line(keyword, outcome, tag):
    if outcome == "conv":
        return "    %s do conv %s 12" % (keyword, tag)
    return "    %s do %s %s" % (keyword, outcome, tag)


class RecFormatter(Formatter):
    name = "rec"

    def __init__(self, log):
        self.log = log

    def uri(self, uri): pass
    def feature(self, feature): self.log.append("F.feature %s" % feature.name)
    def rule(self, rule): self.log.append("F.rule %s" % rule.name)
    def background(self, background): self.log.append("F.background")
    def scenario(self, scenario): self.log.append("F.scenario %s" % scenario.name)
    def step(self, step): self.log.append("F.step %s" % step.name)

    def match(self, match):
        self.log.append("F.match %s %s" % (
            type(match).__name__,
            getattr(match.func, "__name__", None)))

    def result(self, step):
        self.log.append("F.result %s -> %s" % (step.name, step.status.name))

    def eof(self): self.log.append("F.eof")
    def close(self): pass


def make_feature_text(fbg, rbg, steps, wip=False, outline=False, cafs=False,
                      second=None):
    lines = ["Feature: F"]
    if fbg is not None:
        lines.append("  Background: FB")
        lines += [step_line("Given", o, "fb%d" % i) for i, o in enumerate(fbg)]
    indent = ""
    if rbg is not None:
        lines.append("  Rule: R")
        lines.append("  Background: RB")
        lines += [step_line("Given", o, "rb%d" % i) for i, o in enumerate(rbg)]
    tags = []
    if wip:
        tags.append("@wip")
    if tags:
        lines.append("  " + " ".join(tags))
    if outline:
        lines.append("  Scenario Outline: S-<x>")
        lines += [step_line("When", o, "s%d<x>" % i) for i, o in enumerate(steps)]
        lines.append("    Examples:")
        lines.append("      | x |")
        lines.append("      | a |")
        lines.append("      | b |")
    else:
        lines.append("  Scenario: S1")
        lines += [step_line("When", o, "s%d" % i) for i, o in enumerate(steps)]
        if second is not None:
            lines.append("  Scenario: S2")
            lines += [step_line("Then", o, "t%d" % i) for i, o in enumerate(second)]
    return u"\n".join(lines) + u"\n"


def walk_steps(feature):
    for scenario in feature.walk_scenarios():
        for step in scenario.all_steps:
            yield scenario, step


def run_case(title, text, args=(), cafs=False, hooks=None, repeat=1,
             show_messages=False):
    print("=== %s" % title)
    del CALLS[:]
    log = []
    config = Configuration(command_args=list(args), load_config=False)
    config.format = []
    config.reporters = []
    registry = make_registry()
    feature = parse_feature(text, filename="gen.feature")
    if cafs:
        for scenario in feature.walk_scenarios(with_outlines=True):
            scenario.continue_after_failed_step = True
    for run_no in range(repeat):
        runner = ModelRunner(config, features=[feature], step_registry=registry)
        runner.formatters = [RecFormatter(log)]

        def make_hook(name):
            def hook(context, *a):
                what = a[0] if a else None
                log.append("H.%s %s" % (name, getattr(what, "name", what)))
                if hooks and name in hooks:
                    hooks[name](context, *a)
            return hook
        for name in ("before_scenario", "after_scenario", "before_step",
                     "after_step", "before_tag", "after_tag"):
            runner.hooks[name] = make_hook(name)
        try:
            failed = runner.run()
            print("run#%d failed=%r aborted=%r" % (run_no, failed, runner.aborted))
        except BaseException as e:   # noqa
            print("run#%d RAISED %s: %s" % (run_no, type(e).__name__, e))
        print("  calls: %s" % " ".join("%s:%s@%s" % c for c in CALLS))
        print("  undefined: %s" % [s.name for s in runner.undefined_steps])
        print("  context.failed=%r" % runner.context.failed)
        print("  feature.status=%s" % feature.status.name)
        for scenario in feature.walk_scenarios(with_outlines=True):
            print("  scenario %s: status=%s should_skip=%r skip_reason=%r "
                  "was_dry_run=%r" % (scenario.name, scenario.status.name,
                                      scenario.should_skip, scenario.skip_reason,
                                      getattr(scenario, "was_dry_run", None)))
        for scenario, step in walk_steps(feature):
            line = "    %s | %s: %s" % (scenario.name, step.name, step.status.name)
            if show_messages:
                line += " exc=%s msg=%r captured=%r" % (
                    type(step.exception).__name__, norm(step.error_message),
                    step.captured.output if step.captured else None)
            print(line)
        print("  log:")
        for entry in log:
            print("    " + entry)
        del CALLS[:]
        del log[:]


def describe_step(step):
    # -- NOTE: Measured durations are wall-clock times; show zero/non-zero only
    #    unless the value was assigned by this script (multiples of 1.5).
    duration = step.duration
    if duration and (duration / 1.5) != int(duration / 1.5):
        duration = "measured"
    return "%s:%s/dur=%r/hook_failed=%r/exc=%s/msg=%r/captured=%r" % (
        step.name, step.status.name, duration, step.hook_failed,
        type(step.exception).__name__, norm(step.error_message),
        (step.captured.stdout, step.captured.stderr, step.captured.log_output))


def helper_checks():
    """Direct checks of the module-level step helpers."""
    from behave import model
    from behave.model import Step
    print("=== helper checks")

    def make_steps(n):
        steps = []
        for i in range(n):
            step = Step("x.feature", 10 + i, u"Given", "given", u"step %d" % i)
            step.status = [Status.passed, Status.failed, Status.skipped,
                           Status.undefined][i % 4]
            step.duration = 1.5 * i
            step.hook_failed = bool(i % 2)
            step.error_message = u"message %d" % i
            step.exception = RuntimeError("x%d" % i)
            step.exc_traceback = "tb%d" % i
            step.captured.stdout = u"out %d" % i
            step.captured.stderr = u"err %d" % i
            step.captured.log_output = u"log %d" % i
            step.extra_attribute = ["shared", i]
            steps.append(step)
        return steps

    for label, maker in (
            ("empty", lambda: []),
            ("one", lambda: make_steps(1)),
            ("five", lambda: make_steps(5)),
            ("tuple", lambda: tuple(make_steps(3))),
            ("generator", lambda: iter(make_steps(3))),
            ("duplicates", lambda: (lambda s: [s[0], s[1], s[0], s[0]])(make_steps(2)))):
        for func_name in ("copy_and_reset_steps", "copy_steps", "reset_steps"):
            given = maker()
            originals = list(given) if not hasattr(given, "__next__") else None
            if originals is None:
                originals = list(given)
                given = iter(originals)
            result = getattr(model, func_name)(given)
            print("%s(%s): result type=%s len=%d same_container=%r" % (
                func_name, label, type(result).__name__,
                len(list(result)) if not hasattr(result, "__next__") else -1,
                result is given))
            if hasattr(result, "__next__"):
                result = list(result)
            for i, (orig, new) in enumerate(zip(originals, result)):
                print("  [%d] identical=%r equal=%r shares_captured=%r shares_extra=%r"
                      % (i, orig is new, orig == new, orig.captured is new.captured,
                         orig.extra_attribute is new.extra_attribute))
                print("      orig: %s" % describe_step(orig))
                print("      new : %s" % describe_step(new))
            distinct = len(set(id(x) for x in result))
            print("  distinct result objects: %d" % distinct)

    # -- ORDER OF OPERATIONS as seen by the steps themselves.
    events = []

    class TracingStep(Step):
        def __copy__(self):
            events.append("copy %s" % self.name)
            clone = TracingStep.__new__(TracingStep)
            clone.__dict__.update(self.__dict__)
            return clone

        def reset(self):
            events.append("reset %s(%s)" % (self.name, self.status.name))
            super(TracingStep, self).reset()

    steps = [TracingStep("x.feature", i, u"When", "when", u"t%d" % i) for i in range(3)]
    for step in steps:
        step.status = Status.passed
    copies = model.copy_and_reset_steps(steps)
    print("tracing: copies=%s originals=%s" % (
        [describe_step(x) for x in copies], [describe_step(x) for x in steps]))
    print("tracing: per-step events: %s" % sorted(events))


def model_reset_checks():
    """Scenario.reset / feature.reset / use_background toggling between runs."""
    print("=== model reset checks")
    text = make_feature_text(["pass", "fail"], ["pass"], ["pass", "undef", "pass"],
                             second=["pass", "exc"])
    for toggle in ("none", "scenario.reset", "feature.reset", "use_background",
                   "use_inheritance", "reset_model"):
        del CALLS[:]
        feature = parse_feature(text, filename="gen.feature")
        config = Configuration(command_args=[], load_config=False)
        config.format = []
        config.reporters = []
        registry = make_registry()
        ids_before = None
        for run_no in range(3):
            runner = ModelRunner(config, features=[feature], step_registry=registry)
            runner.formatters = []
            failed = runner.run()
            print("toggle=%s run#%d failed=%r calls=%s" % (
                toggle, run_no, failed, " ".join("%s:%s@%s" % c for c in CALLS)))
            del CALLS[:]
            scenarios = list(feature.walk_scenarios())
            for scenario in scenarios:
                print("  %s status=%s steps=%s" % (
                    scenario.name, scenario.status.name,
                    ["%s:%s" % (s.name, s.status.name) for s in scenario.all_steps]))
            ids = [[id(s) for s in sc.all_steps] for sc in scenarios]
            print("  step objects kept from previous run: %r" % (ids == ids_before,))
            ids_before = ids
            if toggle == "scenario.reset":
                for scenario in scenarios:
                    scenario.reset()
            elif toggle == "feature.reset":
                feature.reset()
            elif toggle == "reset_model":
                from behave.model import reset_model
                reset_model([feature])
            elif toggle == "use_background":
                for scenario in scenarios:
                    scenario.use_background = (run_no % 2 == 1)
            elif toggle == "use_inheritance":
                for scenario in scenarios:
                    if scenario.background is not None:
                        scenario.background.use_inheritance = (run_no % 2 == 1)
                    scenario.use_background = True
            for scenario in scenarios:
                print("  after toggle: %s status=%s should_skip=%r steps=%s" % (
                    scenario.name, scenario.status.name, scenario.should_skip,
                    [describe_step(s) for s in scenario.all_steps]))
            # -- Background model steps (templates) must stay untouched.
            for bg in (feature.background, feature.rules[0].background):
                print("  template %r: own=%s inherited=%s" % (
                    bg, [describe_step(s) for s in bg.steps],
                    [describe_step(s) for s in bg.inherited_steps]))


def main():
    # -- PART 1: exhaustive outcome sequences, length 0..3, plain scenario.
    helper_checks()
    model_reset_checks()
    for n in range(0, 3):
        for seq in itertools.product(OUTCOMES, repeat=n):
            text = make_feature_text(None, None, seq)
            run_case("plain %s" % ",".join(seq), text)
    # -- PART 2: length 2, all modes.
    for seq in itertools.product(OUTCOMES, repeat=2):
        for wip, dry, cafs in itertools.product((0, 1), repeat=3):
            args = ["--dry-run"] if dry else []
            text = make_feature_text(None, None, seq, wip=bool(wip))
            run_case("modes %s wip=%d dry=%d cafs=%d" % (",".join(seq), wip, dry, cafs),
                     text, args=args, cafs=bool(cafs))
    # -- PART 3: backgrounds (0..2 levels), outline, with each first-non-pass position.
    for bad in ("fail", "exc", "pend", "undef", "skip", "kbd", "conv"):
        for where in ("fb", "rb", "own"):
            for outline in (False, True):
                for dry in (False, True):
                    fbg = ["pass", bad if where == "fb" else "pass"]
                    rbg = [bad if where == "rb" else "pass",
                           "undef" if where == "fb" else "pass"]
                    own = ["pass", bad if where == "own" else "pass", "pass", "undef", "pass"]
                    text = make_feature_text(fbg, rbg, own, outline=outline)
                    run_case("bg bad=%s where=%s outline=%r dry=%r" % (bad, where, outline, dry),
                             text, args=["--dry-run"] if dry else [])
    text = make_feature_text(["pass", "fail"], None, ["pass"], second=["pass", "undef"])
    run_case("feature-bg only, two scenarios", text)
    # -- PART 4: repeated runs of the same scenario objects.
    for seq in (("pass", "fail", "pass"), ("skip", "pass"), ("pass", "undef", "undef", "pass"),
                ("pend", "pass"), ("pass", "pass")):
        text = make_feature_text(["pass"], ["pass"], seq, second=("pass", "exc", "undef"))
        run_case("repeat %s" % ",".join(seq), text, repeat=3)
    # -- PART 5: hooks that skip / fail / abort; show_skipped and tag selection.
    text = make_feature_text(["pass"], None, ["pass", "fail", "undef"], second=("pass", "undef"))

    def skip_in_before_scenario(context, scenario):
        if scenario.name == "S1":
            scenario.mark_skipped()

    def raise_in_before_scenario(context, scenario):
        if scenario.name == "S1":
            raise RuntimeError("hook problem")

    def raise_in_before_step(context, step):
        if step.name.endswith("s1"):
            raise RuntimeError("step hook problem")

    def raise_in_after_step(context, step):
        if step.name.endswith("s0"):
            raise RuntimeError("after step hook problem")

    def abort_in_before_scenario(context, scenario):
        context._runner.abort("by hook")

    run_case("hook mark_skipped", text, hooks={"before_scenario": skip_in_before_scenario})
    run_case("hook mark_skipped no-skipped", text, args=["--no-skipped"],
             hooks={"before_scenario": skip_in_before_scenario})
    run_case("hook raises before_scenario", text, hooks={"before_scenario": raise_in_before_scenario})
    run_case("hook raises before_step", text, hooks={"before_step": raise_in_before_step})
    run_case("hook raises after_step", text, hooks={"after_step": raise_in_after_step})
    run_case("hook aborts", text, hooks={"before_scenario": abort_in_before_scenario})
    run_case("tags exclude all", text, args=["--tags=@nope"])
    run_case("tags exclude all no-skipped", text, args=["--tags=@nope", "--no-skipped"])
    run_case("name select", text, args=["--name=S2"])
    run_case("stop", text, args=["--stop"])
    # -- PART 6: error messages and captured output.
    text = make_feature_text(None, None, ["pass", "print", "pass"])
    run_case("messages print", text, show_messages=True)
    for o in ("fail", "fail0", "exc", "pend", "pend0", "kbd", "conv"):
        for wip in (False, True):
            text = make_feature_text(None, None, [o, "pass"], wip=wip)
            run_case("messages %s wip=%r" % (o, wip), text, show_messages=True)
    # -- PART 7: random longer sequences.
    rng = random.Random(20260927)
    for i in range(150):
        fbg = [rng.choice(OUTCOMES[:2] + ("pass",) * 4) for _ in range(rng.randint(0, 2))] or None
        rbg = [rng.choice(("pass",) * 5 + OUTCOMES) for _ in range(rng.randint(0, 2))] or None
        own = [rng.choice(("pass",) * 6 + OUTCOMES) for _ in range(rng.randint(0, 8))]
        wip, dry, cafs, outline = [rng.random() < 0.3 for _ in range(4)]
        text = make_feature_text(fbg, rbg, own, wip=wip, outline=outline)
        run_case("random#%d fbg=%s rbg=%s own=%s wip=%r dry=%r cafs=%r outline=%r" % (
            i, fbg, rbg, own, wip, dry, cafs, outline), text,
            args=["--dry-run"] if dry else [], cafs=cafs, repeat=rng.choice((1, 1, 2)))


if __name__ == "__main__":
    main()
