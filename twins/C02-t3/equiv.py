# -*- coding: utf-8 -*-
"""
Equivalence transcript for property C02 (step execution: order,
outcome-to-status mapping, stop after first non-pass).

Builds a throw-away behave project, runs ``python -m behave`` on it
(PYTHONPATH=/tmp/wtT/C02) with several formatters/modes and prints a canonical
transcript: exit codes, formatter output (timings, temp paths and line numbers
of behave-internal traceback frames normalised) and the call log written
by the step functions and hooks. Afterwards some in-process checks of
StepRegistry.find_match() and the background-step properties are printed.
"""
from __future__ import print_function
import sys
WORKTREE = "/tmp/wtT/C02"
sys.path.insert(0, WORKTREE)

import os
import re
import shutil
import subprocess
import tempfile
import textwrap

PYTHON = "/venv/bin/python"
FOCUS = "C02-t3 lazy-init of Scenario.background_steps and Background.inherited_steps without temp variable"

# ---------------------------------------------------------------------------
# PROJECT FILES
# ---------------------------------------------------------------------------
STEPS_PY = u'''
# -*- coding: utf-8 -*-
from __future__ import print_function
import os
from behave import given, when, then, step
from behave.api.pending_step import StepNotImplementedError, PendingStepError

def log(text):
    with open(os.environ["C02_CALL_LOG"], "a") as f:
        f.write(text + "\\n")

@step(u'a passing step "{name}"')
def step_passes(ctx, name):
    log("CALL passing %s" % name)

@step(u'a noisy passing step "{name}"')
def step_noisy_passes(ctx, name):
    log("CALL noisy-passing %s" % name)
    print("stdout of %s" % name)

@step(u'a failing step "{name}"')
def step_fails(ctx, name):
    log("CALL failing %s" % name)
    assert False, "XFAIL %s" % name

@step(u'a noisy failing step "{name}"')
def step_noisy_fails(ctx, name):
    log("CALL noisy-failing %s" % name)
    print("stdout of %s" % name)
    assert 1 == 2, u"XFAIL-NOISY %s \\u00e4\\u00f6\\u00fc" % name

@step(u'a bare-assert failing step "{name}"')
def step_fails_bare(ctx, name):
    log("CALL bare-failing %s" % name)
    assert name == "never"

@step(u'a step raising AssertionError without args "{name}"')
def step_fails_noargs(ctx, name):
    log("CALL noargs-failing %s" % name)
    raise AssertionError()

@step(u'a step raising AssertionError with two args "{name}"')
def step_fails_twoargs(ctx, name):
    log("CALL twoargs-failing %s" % name)
    raise AssertionError("first", 2)

@step(u'an erroring step "{name}"')
def step_errors(ctx, name):
    log("CALL erroring %s" % name)
    raise ValueError("XERROR %s" % name)

@step(u'a step raising KeyError without args "{name}"')
def step_errors_noargs(ctx, name):
    log("CALL noargs-erroring %s" % name)
    raise KeyError()

@step(u'a pending step "{name}"')
def step_pending(ctx, name):
    log("CALL pending %s" % name)
    raise StepNotImplementedError("XPENDING %s" % name)

@step(u'a pending step without args "{name}"')
def step_pending_noargs(ctx, name):
    log("CALL noargs-pending %s" % name)
    raise StepNotImplementedError()

@step(u'an old-style pending step "{name}"')
def step_pending_old(ctx, name):
    log("CALL old-pending %s" % name)
    raise PendingStepError(u"XOLDPENDING %s" % name)

@step(u'a step that skips the scenario "{name}"')
def step_skips_scenario(ctx, name):
    log("CALL skipping %s" % name)
    ctx.scenario.skip("XSKIP %s" % name)

@step(u'a step that skips the scenario and continues "{name}"')
def step_skips_scenario_silently(ctx, name):
    log("CALL skipping-silently %s" % name)
    ctx.scenario.skip()
    log("CALL skipping-silently-after %s" % name)

@given(u'a typed step "{name}"')
def given_typed(ctx, name):
    log("CALL given-typed %s" % name)

@when(u'a typed step "{name}"')
def when_typed(ctx, name):
    log("CALL when-typed %s" % name)
    assert name != "boom", "XFAIL typed %s" % name

@then(u'a typed step "{name}"')
def then_typed(ctx, name):
    log("CALL then-typed %s" % name)

@step(u'a step with text "{name}"')
def step_with_text(ctx, name):
    log("CALL with-text %s text=%r table=%r" % (name, ctx.text, ctx.table))

@step(u'a step with table "{name}"')
def step_with_table(ctx, name):
    rows = [tuple(row.cells) for row in ctx.table]
    log("CALL with-table %s text=%r rows=%r" % (name, ctx.text, rows))

@step(u'a step that runs substeps "{name}"')
def step_with_substeps(ctx, name):
    log("CALL substeps %s" % name)
    ctx.execute_steps(u"""
        Given a passing step "%s.sub1"
        When a failing step "%s.sub2"
        Then a passing step "%s.sub3"
    """ % (name, name, name))
'''

ENVIRONMENT_PY = u'''
# -*- coding: utf-8 -*-
from __future__ import print_function
import os

def log(text):
    with open(os.environ["C02_CALL_LOG"], "a") as f:
        f.write(text + "\\n")

def statuses(scenario):
    return ",".join("%s=%s" % (s.name, s.status.name) for s in scenario.all_steps)

def before_tag(ctx, tag):
    log("HOOK before_tag %s" % tag)

def after_tag(ctx, tag):
    log("HOOK after_tag %s" % tag)

def before_scenario(ctx, scenario):
    log("HOOK before_scenario %s" % scenario.name)
    if "continue_after_failed" in scenario.effective_tags:
        scenario.continue_after_failed_step = True
    if "skip_me" in scenario.effective_tags:
        scenario.mark_skipped()
    if "skip_with_reason" in scenario.effective_tags:
        scenario.skip("XHOOKSKIP")
    if "no_background" in scenario.effective_tags:
        scenario.use_background = False
    if "before_scenario_fails" in scenario.effective_tags:
        raise RuntimeError("XHOOK before_scenario")

def after_scenario(ctx, scenario):
    log("HOOK after_scenario %s status=%s steps=[%s]" % (
        scenario.name, scenario.status.name, statuses(scenario)))
    if "after_scenario_fails" in scenario.effective_tags:
        raise RuntimeError("XHOOK after_scenario")

def before_step(ctx, step):
    log("HOOK before_step %s status=%s" % (step.name, step.status.name))
    if "before_step_fails" in ctx.tags and "hookvictim" in step.name:
        raise RuntimeError("XHOOK before_step")

def after_step(ctx, step):
    log("HOOK after_step %s status=%s error=%s" % (
        step.name, step.status.name, bool(step.error_message)))
    if "after_step_fails" in ctx.tags and "hookvictim" in step.name:
        raise RuntimeError("XHOOK after_step")
'''

FEATURE_ORDER = u'''
Feature: Order with backgrounds
  Background: FB
    Given a passing step "fb1"
    And a passing step "fb2"

  Scenario: S1 all pass
    Given a passing step "s1a"
    When a passing step "s1b"
    Then a passing step "s1c"

  Scenario: S2 fails in the middle
    Given a passing step "s2a"
    When a failing step "s2b"
    Then a passing step "s2c"
    And an unknown step "s2d"
    And a passing step "s2e"
    But another unknown step "s2f"

  @no_background
  Scenario: S3 without background
    Given a passing step "s3a"
    When an erroring step "s3b"
    Then a passing step "s3c"

  Scenario Outline: SO <name>
    Given a passing step "<name>.a"
    When <kind> step "<name>.b"
    Then a passing step "<name>.c"

    Examples:
      | name | kind        |
      | o1   | a passing   |
      | o2   | a failing   |
      | o3   | an unknown  |
      | o4   | a pending   |

  Rule: R1
    Background: RB
      Given a passing step "rb1"
      And a noisy passing step "rb2"

    Scenario: R1S1 error in the middle
      Given a passing step "r1a"
      When an erroring step "r1b"
      Then a passing step "r1c"

    Scenario: R1S2 passes
      Given a passing step "r1d"

  Rule: R2 without background
    Scenario: R2S1
      Given a typed step "r2a"
      When a typed step "r2b"
      Then a typed step "r2c"

    Scenario: R2S2
      Given a typed step "r2d"
      When a typed step "boom"
      Then a typed step "r2e"
'''

FEATURE_BG_FAILS = u'''
Feature: Failing backgrounds
  Background: FB
    Given a passing step "fb1"
    And a failing step "fb2"
    And a passing step "fb3"

  Scenario: B1
    Given a passing step "b1a"
    Then an unknown step "b1b"

  Rule: RB
    Background:
      Given a passing step "rb1"

    Scenario: B2
      Given a passing step "b2a"
'''

FEATURE_OUTCOMES = u'''
Feature: Outcomes

  Scenario: O01 assertion with message
    Given a passing step "o01a"
    When a failing step "o01b"
    Then a passing step "o01c"

  Scenario: O02 bare assertion
    When a bare-assert failing step "o02a"
    Then a passing step "o02b"

  Scenario: O03 AssertionError without args
    When a step raising AssertionError without args "o03a"
    Then a passing step "o03b"

  Scenario: O04 AssertionError with two args
    When a step raising AssertionError with two args "o04a"
    Then a passing step "o04b"

  Scenario: O05 other exception
    When an erroring step "o05a"
    Then a passing step "o05b"

  Scenario: O06 other exception without args
    When a step raising KeyError without args "o06a"
    Then a passing step "o06b"

  Scenario: O07 pending
    Given a passing step "o07a"
    When a pending step "o07b"
    Then a passing step "o07c"

  Scenario: O08 pending without args
    When a pending step without args "o08a"
    Then a passing step "o08b"

  Scenario: O09 old-style pending
    When an old-style pending step "o09a"
    Then a passing step "o09b"

  @wip
  Scenario: O10 pending under wip
    Given a passing step "o10a"
    When a pending step "o10b"
    Then a passing step "o10c"
    And a pending step without args "o10d"
    And a failing step "o10e"
    And a passing step "o10f"

  Scenario: O11 undefined first
    Given an unknown step "o11a"
    When a passing step "o11b"
    Then an unknown step "o11c"

  Scenario: O12 step skips scenario
    Given a passing step "o12a"
    When a step that skips the scenario "o12b"
    Then a passing step "o12c"
    And an unknown step "o12d"

  Scenario: O13 step skips scenario silently
    When a step that skips the scenario and continues "o13a"
    Then a failing step "o13b"

  Scenario: O14 noisy failure with unicode
    Given a noisy passing step "o14a"
    When a noisy failing step "o14b"
    Then a passing step "o14c"

  @continue_after_failed
  Scenario: O15 continue after failed step
    Given a passing step "o15a"
    When a failing step "o15b"
    Then a passing step "o15c"
    And an erroring step "o15d"
    And a passing step "o15e"
    And an unknown step "o15f"
    And a passing step "o15g"
    And a failing step "o15h"

  @continue_after_failed
  Scenario: O16 continue after failed step stops at pending
    When a failing step "o16a"
    Then a pending step "o16b"
    And a passing step "o16c"

  @skip_me
  Scenario: O17 skipped by hook
    Given a passing step "o17a"
    When an unknown step "o17b"

  @skip_with_reason
  Scenario: O18 skipped by hook with reason
    Given a failing step "o18a"

  @before_scenario_fails
  Scenario: O19 before_scenario hook fails
    Given a passing step "o19a"
    When an unknown step "o19b"

  @after_scenario_fails
  Scenario: O20 after_scenario hook fails
    Given a passing step "o20a"

  @before_step_fails
  Scenario: O21 before_step hook fails
    Given a passing step "o21a"
    When a passing step "o21b hookvictim"
    Then a passing step "o21c"

  @after_step_fails
  Scenario: O22 after_step hook fails
    Given a passing step "o22a"
    When a passing step "o22b hookvictim"
    Then a passing step "o22c"

  Scenario: O23 no steps

  Scenario: O24 text and table
    Given a step with text "o24a"
      """
      some text
      """
    When a step with table "o24b"
      | a | b |
      | 1 | 2 |
    Then a step with text "o24c"
    And a failing step "o24d"

  Scenario: O25 substeps fail
    Given a step that runs substeps "o25a"
    Then a passing step "o25b"

  Scenario: O26 typed steps and generic steps
    Given a typed step "o26a"
    And a passing step "o26b"
    When a typed step "o26c"
    Then a typed step "o26d"
    But a typed step "o26e"

  Scenario: O27 last step passes
    Given a passing step "o27a"
'''

FEATURE_WIP = u'''
@wip
Feature: Wip feature
  Background:
    Given a pending step "wb1"

  Scenario: W1
    Given a passing step "w1a"
    When a pending step "w1b"
    Then a passing step "w1c"

  Scenario: W2
    When an old-style pending step "w2a"
    Then an unknown step "w2b"
    And a passing step "w2c"
'''


# ---------------------------------------------------------------------------
# NORMALISATION
# ---------------------------------------------------------------------------
def normalize(text, tmpdir):
    text = text.replace(os.path.realpath(tmpdir), "<TMP>").replace(tmpdir, "<TMP>")
    # -- behave-internal traceback frames: drop line numbers
    text = re.sub(r'(File \\?"%s[^"]*?\\?", line )\d+' % re.escape(WORKTREE),
                  r"\1N", text)
    text = re.sub(r'(File \\?"[^"]*?site-packages[^"]*?\\?", line )\d+',
                  r"\1N", text)
    # -- timings
    text = re.sub(r"Took \d+m\d+\.\d+s", "Took MmT.TTTs", text)
    text = re.sub(r"\b\d+\.\d+s\b", "T.TTTs", text)
    text = re.sub(r"Took \d+min ", "Took Mmin ", text)
    text = re.sub(r'("duration": )[0-9.e+-]+', r"\1D", text)
    text = re.sub(r'(time=")[0-9.]+(")', r"\1D\2", text)
    text = re.sub(r'(timestamp=")[^"]+(")', r"\1TS\2", text)
    text = re.sub(r'(hostname=")[^"]+(")', r"\1H\2", text)
    text = re.sub(r" at 0x[0-9a-fA-F]+", " at 0xADDR", text)
    return text


def run_behave(tmpdir, title, args):
    call_log = os.path.join(tmpdir, "call_log.txt")
    if os.path.exists(call_log):
        os.remove(call_log)
    env = dict(os.environ)
    env["PYTHONPATH"] = WORKTREE
    env["C02_CALL_LOG"] = call_log
    env["PYTHONIOENCODING"] = "utf-8"
    env["PYTHONDONTWRITEBYTECODE"] = "1"
    env["PYTHONHASHSEED"] = "0"
    env.pop("COLUMNS", None)
    env.pop("BEHAVE_ARGS", None)
    cmd = [PYTHON, "-m", "behave", "--no-color"] + args
    proc = subprocess.Popen(cmd, cwd=tmpdir, env=env,
                            stdout=subprocess.PIPE, stderr=subprocess.PIPE)
    out, err = proc.communicate()
    print("=" * 78)
    print("RUN: %s :: behave %s" % (title, " ".join(args)))
    print("EXIT-CODE: %s" % proc.returncode)
    print("-- STDOUT:")
    print(normalize(out.decode("utf-8", "replace"), tmpdir))
    print("-- STDERR:")
    print(normalize(err.decode("utf-8", "replace"), tmpdir))
    print("-- CALL-LOG:")
    if os.path.exists(call_log):
        with open(call_log) as f:
            print(normalize(f.read(), tmpdir))
    else:
        print("<none>")
    reports = os.path.join(tmpdir, "reports")
    if os.path.isdir(reports):
        for name in sorted(os.listdir(reports)):
            print("-- JUNIT-REPORT: %s" % name)
            with open(os.path.join(reports, name), "rb") as f:
                print(normalize(f.read().decode("utf-8", "replace"), tmpdir))
        shutil.rmtree(reports)


def write(path, content):
    dirname = os.path.dirname(path)
    if not os.path.isdir(dirname):
        os.makedirs(dirname)
    with open(path, "wb") as f:
        f.write(textwrap.dedent(content).lstrip("\n").encode("utf-8"))


def subprocess_section():
    tmpdir = tempfile.mkdtemp(prefix="c02_equiv_")
    try:
        write(os.path.join(tmpdir, "features", "steps", "steps.py"), STEPS_PY)
        write(os.path.join(tmpdir, "features", "environment.py"), ENVIRONMENT_PY)
        write(os.path.join(tmpdir, "features", "a_order.feature"), FEATURE_ORDER)
        write(os.path.join(tmpdir, "features", "b_bg_fails.feature"), FEATURE_BG_FAILS)
        write(os.path.join(tmpdir, "features", "c_outcomes.feature"), FEATURE_OUTCOMES)
        write(os.path.join(tmpdir, "features", "d_wip.feature"), FEATURE_WIP)
        write(os.path.join(tmpdir, "behave.ini"), u"[behave]\n")

        run_behave(tmpdir, "plain", ["-f", "plain", "features"])
        run_behave(tmpdir, "plain show-skipped no-capture",
                   ["-f", "plain", "--show-skipped", "--no-capture", "features"])
        run_behave(tmpdir, "pretty", ["-f", "pretty", "features"])
        run_behave(tmpdir, "json", ["-f", "json.pretty", "features"])
        run_behave(tmpdir, "progress3", ["-f", "progress3", "features"])
        run_behave(tmpdir, "dry-run plain", ["--dry-run", "-f", "plain", "features"])
        run_behave(tmpdir, "dry-run json",
                   ["--dry-run", "-f", "json.pretty", "features"])
        run_behave(tmpdir, "dry-run steps.usage",
                   ["--dry-run", "-f", "steps.usage", "features"])
        run_behave(tmpdir, "wip mode", ["-w", "features"])
        run_behave(tmpdir, "tags wip", ["--tags=wip", "-f", "plain", "features"])
        run_behave(tmpdir, "stop", ["--stop", "-f", "plain", "features"])
        run_behave(tmpdir, "name select",
                   ["-n", "S2", "-n", "R1S1", "-f", "plain", "--no-skipped",
                    "features"])
        run_behave(tmpdir, "junit",
                   ["--junit", "--junit-directory", "reports", "-f", "plain",
                    "features/a_order.feature", "features/b_bg_fails.feature"])
        run_behave(tmpdir, "line select",
                   ["-f", "plain", "features/a_order.feature:12",
                    "features/c_outcomes.feature:85"])
    finally:
        shutil.rmtree(tmpdir, ignore_errors=True)


# ---------------------------------------------------------------------------
# IN-PROCESS SECTIONS
# ---------------------------------------------------------------------------
def registry_section():
    from behave.step_registry import StepRegistry
    from behave.model import Step
    print("=" * 78)
    print("IN-PROCESS: StepRegistry.find_match()")

    def func_given(ctx): pass
    def func_when(ctx): pass
    def func_then(ctx): pass
    def func_step(ctx): pass
    def func_step2(ctx, what): pass
    def func_given_generic(ctx, what): pass

    registry = StepRegistry()
    registry.add_step_definition("given", u"a thing", func_given)
    registry.add_step_definition("given", u"some {what}", func_given_generic)
    registry.add_step_definition("when", u"a thing", func_when)
    registry.add_step_definition("then", u"a thing", func_then)

    def sizes():
        return dict((k, len(v)) for k, v in sorted(registry.steps.items()))

    def lookup(step_type, name):
        lists_before = dict((k, (id(v), list(v))) for k, v in registry.steps.items())
        step = Step("x.feature", 1, step_type.title(), step_type, name)
        match = registry.find_match(step)
        same_lists = all(id(registry.steps[k]) == lists_before[k][0] and
                         list(registry.steps[k]) == lists_before[k][1]
                         for k in lists_before)
        if match is None:
            desc = "None"
        else:
            args = [(a.name, a.value) for a in match.arguments]
            desc = "%s func=%s args=%r" % (match.__class__.__name__,
                                           match.func.__name__, args)
        definition = registry.find_step_definition(step)
        desc2 = "None" if definition is None else definition.func.__name__
        print("  find_match(%s %r) -> %s; definition=%s; lists-unchanged=%s; sizes=%s"
              % (step_type, name, desc, desc2, same_lists, sizes()))

    print(" -- without generic steps")
    for step_type in ("given", "when", "then", "step"):
        for name in (u"a thing", u"some other", u"nothing here", u""):
            lookup(step_type, name)

    print(" -- with generic steps")
    registry.add_step_definition("step", u"a thing", func_step)
    registry.add_step_definition("step", u"some {what}", func_step2)
    registry.add_step_definition("step", u"nothing here", func_step)
    for step_type in ("given", "when", "then", "step"):
        for name in (u"a thing", u"some other", u"nothing here", u"unknown", u""):
            lookup(step_type, name)

    print(" -- only generic steps")
    registry.clear()
    registry.add_step_definition("step", u"a thing", func_step)
    for step_type in ("given", "when", "then", "step"):
        for name in (u"a thing", u"unknown"):
            lookup(step_type, name)

    print(" -- empty registry")
    registry.clear()
    for step_type in ("given", "step"):
        lookup(step_type, u"a thing")


def background_section():
    from behave.parser import parse_feature
    from behave.model_core import Status
    print("=" * 78)
    print("IN-PROCESS: Scenario.background_steps / Background.inherited_steps")
    feature = parse_feature(textwrap.dedent(FEATURE_ORDER).lstrip(), filename="order.feature")

    def names(steps):
        return [s.name for s in steps]

    def describe(scenario):
        background = scenario.background
        print("  SCENARIO %r background=%r use_background=%s" % (
            scenario.name, background, scenario.use_background))
        first = scenario.background_steps
        second = scenario.background_steps
        print("    background_steps=%r cached=%s type=%s" % (
            names(first), first is second, type(first).__name__))
        print("    all_steps=%r iter=%r" % (names(scenario.all_steps), names(iter(scenario))))
        if background is not None:
            inherited1 = background.inherited_steps
            inherited2 = background.inherited_steps
            print("    background.steps=%r inherited=%r cached=%s all=%r iter=%r" % (
                names(background.steps), names(inherited1),
                inherited1 is inherited2, names(background.all_steps),
                names(iter(background))))
            originals = list(background.steps)
            if background.inherited_background is not None:
                originals += list(background.inherited_background.steps)
            shared = [s.name for s in first if any(s is o for o in originals)]
            shared += [s.name for s in inherited1
                       if any(s is o for o in background.inherited_background.steps)] \
                if background.inherited_background is not None else []
            print("    shared-with-originals=%r" % shared)

    scenarios = list(feature.walk_scenarios())
    for scenario in scenarios:
        describe(scenario)

    print(" -- copies are independent and reset")
    rule_scenario = [s for s in scenarios if s.name.startswith("R1S1")][0]
    rule_background = rule_scenario.background
    for step in rule_background.steps:
        step.status = Status.failed
        step.duration = 3
    for step in rule_background.inherited_background.steps:
        step.status = Status.passed
        step.error_message = u"XXX"
    rule_scenario.use_background = True    # -- REINIT: background_steps
    rule_background.use_inheritance = True  # -- REINIT: inherited_steps
    print("   ", [(s.name, s.status.name, s.duration, s.error_message)
                  for s in rule_scenario.background_steps])
    print("   ", [(s.name, s.status.name, s.duration, s.error_message)
                  for s in rule_background.inherited_steps])
    print("   ", [(s.name, s.status.name, s.duration, s.error_message)
                  for s in rule_background.all_steps])

    print(" -- toggles")
    for use_background in (False, True, 0, 1, None):
        for use_inheritance in (False, True):
            rule_background.use_inheritance = use_inheritance
            rule_scenario.use_background = use_background
            steps1 = rule_scenario.background_steps
            print("    use_background=%r use_inheritance=%r -> bg=%r inherited=%r all=%r cached=%s"
                  % (use_background, use_inheritance, names(steps1),
                     names(rule_background.inherited_steps),
                     names(rule_scenario.all_steps),
                     steps1 is rule_scenario.background_steps))
    rule_background.use_inheritance = True
    rule_scenario.use_background = True

    print(" -- scenario.reset() / skip() touch background copies only")
    for step in rule_scenario.all_steps:
        step.status = Status.passed
    rule_scenario.reset()
    print("   ", [(s.name, s.status.name) for s in rule_scenario.all_steps])
    rule_scenario.skip()
    print("   ", [(s.name, s.status.name) for s in rule_scenario.all_steps],
          rule_scenario.status.name)
    print("   ", [(s.name, s.status.name) for s in rule_background.steps])

    print(" -- explicit background_steps passed to constructor")
    from behave.model import Scenario, Step, Background
    step1 = Step("x.feature", 2, u"Given", "given", u"explicit")
    scenario = Scenario("x.feature", 1, u"Scenario", u"X", steps=[
        Step("x.feature", 3, u"When", "when", u"own")])
    print("   ", names(scenario.background_steps), names(scenario.all_steps))
    scenario.background = Background("x.feature", 1, steps=[step1])
    print("   ", names(scenario.background_steps), names(scenario.all_steps))
    scenario.use_background = True
    print("   ", names(scenario.background_steps), names(scenario.all_steps),
          scenario.background_steps[0] is step1, scenario.background.inherited_steps)


def main():
    print("EQUIV TRANSCRIPT C02 -- focus: %s" % FOCUS)
    subprocess_section()
    registry_section()
    background_section()
    print("DONE")


if __name__ == "__main__":
    main()
