# -*- coding: UTF-8 -*-
"""
Equivalence transcript for property C16 (JUnit reports).

Part A: direct calls of the XML escaping / CDATA helpers on boundary inputs.
Part B: runs ``python -m behave --junit`` (PYTHONPATH=/tmp/wtT/C16) on a small
        generated project in several configurations and prints a canonical
        dump of every produced XML report (raw text, normalised for
        timestamps / durations / hostname / temp paths) plus a parsed view
        with a counter-vs-testcase consistency check.
"""
from __future__ import print_function, unicode_literals
import sys
WORKTREE = "/tmp/wtT/C16"
sys.path.insert(0, WORKTREE)

import io
import os
import re
import shutil
import subprocess
import tempfile
from xml.etree import ElementTree as ET

import behave
assert os.path.abspath(behave.__file__).startswith(WORKTREE + "/"), behave.__file__
from behave.reporter import junit
from behave.formatter import ansi_escapes

PYTHON = "/venv/bin/python"


def show(label, value):
    print("%s => %s" % (label, ascii(value)))


# ---------------------------------------------------------------------------
# PART A: helper functions
# ---------------------------------------------------------------------------
def part_a():
    print("=" * 20, "PART A: helpers")
    samples = [
        None, "", "plain", "]]>", "a]]>b]]>c", "]]", "]]&gt;", "<&>\"'",
        "\x00", "\x08\x09\x0a\x0b\x0c\x0d\x0e\x1f\x20", "\x7f\x84\x85\x86\x9f\xa0",
        "\ud800", "\udfff", "﷐﷟﷠", "�￾￿",
        "\U0001fffe\U0001ffff\U00020000", "\U0010fffe\U0010ffff", "\U0001f600",
        "Ärgernis: ÄÖÜß 日本語", "x\x1b[31mred\x1b[0m]]>\x01y", "\x1b[2Aup", "\x1b[x",
        "\x1b[12;1m", "\x1b", "-", "a-b", "\\", "^", "[", "]",
    ]
    for text in samples:
        for func in (junit.escape_CDATA, junit._escape_invalid_xml_chars,
                     ansi_escapes.strip_escapes, junit.CDATA):
            name = getattr(func, "__name__", str(func))
            try:
                result = func(text)
                if isinstance(result, ET.Element):
                    result = ("Element", result.tag, result.text,
                              dict(result.attrib), len(result), result.tail)
                show("%s(%s)" % (name, ascii(text)), result)
            except Exception as e:  # pylint: disable=broad-except
                show("%s(%s) RAISES" % (name, ascii(text)),
                     "%s: %s" % (e.__class__.__name__, e))
    try:
        show("CDATA()", junit.CDATA().text)
    except Exception as e:  # pylint: disable=broad-except
        show("CDATA() RAISES", "%s: %s" % (e.__class__.__name__, e))

    # -- the compiled pattern itself
    show("_invalid_re.pattern", junit._invalid_re.pattern)
    show("_invalid_re.flags", junit._invalid_re.flags)
    bad = [cp for cp in range(0, 0x110000) if junit._invalid_re.match(chr(cp))]
    show("invalid codepoint count", len(bad))
    ranges = []
    for cp in bad:
        if ranges and ranges[-1][1] == cp - 1:
            ranges[-1][1] = cp
        else:
            ranges.append([cp, cp])
    show("invalid codepoint ranges", ranges)
    import hashlib
    digest = hashlib.sha256()
    for cp in range(0, 0x110000):
        if 0xD800 <= cp <= 0xDFFF:
            out = junit._escape_invalid_xml_chars(chr(cp))
            digest.update(out.encode("ascii"))
        else:
            out = junit._escape_invalid_xml_chars("<%s>" % chr(cp))
            digest.update(out.encode("utf-8"))
    show("escape all codepoints sha256", digest.hexdigest())

    # -- serialisation of CDATA elements through the patched ElementTree
    for text in ["", "plain", "]]>", "a\x00b]]>c\x1b[1m<d>&", "ÄÖ日本\U0001f600", "\ud800x"]:
        for encoding in ("UTF-8", "us-ascii", "unicode"):
            root = ET.Element("system-out")
            root.set("name", "n<&>\"")
            root.append(junit.CDATA(text))
            sub = ET.SubElement(root, "empty")
            sub.tail = "tail<&>"
            sub2 = ET.SubElement(root, "other")
            sub2.text = "text ]]> <&>"
            tree = junit.ElementTreeWithCDATA(root)
            try:
                if encoding == "unicode":
                    buf = io.StringIO()
                    tree.write(buf, encoding)
                else:
                    buf = io.BytesIO()
                    tree.write(buf, encoding)
                show("serialize(%s, %s)" % (ascii(text), encoding), buf.getvalue())
            except Exception as e:  # pylint: disable=broad-except
                show("serialize(%s, %s) RAISES" % (ascii(text), encoding),
                     "%s: %s" % (e.__class__.__name__, e))
            for short in (True, False):
                try:
                    show("tostring(%s, short=%s)" % (ascii(text), short),
                         ET.tostring(root, "unicode", short_empty_elements=short))
                except Exception as e:  # pylint: disable=broad-except
                    show("tostring RAISES", "%s: %s" % (e.__class__.__name__, e))
    show("ET._serialize_xml is ET._serialize['xml']",
         ET._serialize_xml is ET._serialize["xml"])
    show("ET._serialize_xml.__name__", ET._serialize_xml.__name__)

    # -- value object
    data = junit.FeatureReportData("FEATURE", "dir/sub/file")
    show("FeatureReportData.vars", sorted(vars(data).items()))
    data.counts_tests = 3; data.counts_errors = 1; data.counts_failed = 1
    data.counts_skipped = 1; data.testcases.append("x")
    data.reset()
    show("FeatureReportData.vars after reset", sorted(vars(data).items()))
    show("FeatureReportData(no filename)", sorted(vars(junit.FeatureReportData("F", None)).items()))
    show("FeatureReportData(classname)", sorted(vars(junit.FeatureReportData("F", "a/b", "C")).items()))
    show("describe_tags", [junit.JUnitReporter.describe_tags(t)
                           for t in ([], None, ["a"], ["a", "b.c"])])


# ---------------------------------------------------------------------------
# PART B: behave runs
# ---------------------------------------------------------------------------
FILES = {
"features/environment.py": '''
# -*- coding: UTF-8 -*-
from __future__ import print_function
import sys

def before_feature(context, feature):
    if "feature_hook_error" in feature.tags:
        raise RuntimeError(u"before_feature oops ]]> \\x02 Ä")

def before_scenario(context, scenario):
    if "hook_error" in scenario.tags:
        raise RuntimeError(u"before_scenario oops ]]> \\x01 ÄÖ")
    if "hook_assert" in scenario.tags:
        assert False, u"before_scenario assert"
    print(u"HOOK before_scenario: %s" % scenario.name)

def after_scenario(context, scenario):
    if "after_hook_error" in scenario.tags:
        raise ValueError(u"after_scenario oops")

def before_step(context, step):
    if step.name == u"a step with bad before_step hook":
        raise KeyError("before_step oops")

def before_tag(context, tag):
    if tag == "tag_hook_error":
        raise RuntimeError("before_tag oops")
''',
"features/steps/steps.py": '''
# -*- coding: UTF-8 -*-
from __future__ import print_function
import sys
import logging
from behave import given, when, then, step

@step(u'a step passes')
def step_passes(context):
    pass

@step(u'a step prints "{text}"')
def step_prints(context, text):
    print(text)

@step(u'a step prints nasty output')
def step_prints_nasty(context):
    print(u"OUT: cdata-end ]]> ctrl \\x01\\x0b\\x1f ansi \\x1b[31mred\\x1b[0m uml ÄÖÜ 日本語 \\U0001f600 <tag> & \\ufffe")
    print(u"ERR: cdata-end ]]> ctrl \\x02 ansi \\x1b[1mbold\\x1b[0m Ärger", file=sys.stderr)
    logging.getLogger("nasty").error(u"LOG: ]]> \\x03 Ö")

@step(u'a step fails')
def step_fails(context):
    assert False, u"XFAIL: ]]> ctrl \\x04 Ä <x> & \\x1b[31mred\\x1b[0m"

@step(u'a step fails after printing')
def step_fails_after_printing(context):
    print(u"before failing ]]>")
    sys.stderr.write(u"stderr before failing\\n")
    assert 1 == 2

@step(u'a step raises an error')
def step_raises_error(context):
    raise RuntimeError(u"XERROR: ]]> ctrl \\x05\\x7f Ö日本 \\"quoted\\" 'single'")

@step(u'a step with number {number:d}')
def step_with_number(context, number):
    print(u"number=%d" % number)
    assert number != 13, u"unlucky ]]> %d" % number
    if number == 99:
        raise ValueError(u"too big")

@step(u'a step with text')
def step_with_text(context):
    assert context.text is not None
    print(context.text)

@step(u'a step with table')
def step_with_table(context):
    assert context.table is not None
    if context.table.rows[0][0] == u"bad":
        raise IndexError(u"bad table")

@step(u'a step with bad before_step hook')
def step_with_bad_hook(context):
    pass

@step(u'a pending step')
def step_pending(context):
    raise NotImplementedError(u"STEP: pending")
''',
"features/basic.feature": '''
@basic
Feature: Basic <&> "quoted" ]]> Ä

  Background:
    Given a step prints "background ]]>"

  @t1 @t.two
  Scenario: Passing one
    Given a step passes
    When a step prints "hello"
    Then a step passes

  Scenario: Failing ]]> one Ä <x>
    Given a step passes
    When a step fails
    Then a step passes

  Scenario: Failing after printing
    When a step fails after printing

  Scenario: Erroring one
    Given a step passes
    When a step raises an error
    Then a step passes

  Scenario: Nasty output
    When a step prints nasty output
    Then a step passes

  Scenario: Nasty output then fails
    When a step prints nasty output
    Then a step fails

  Scenario: Undefined step
    Given a step passes
    When a step that is not defined ]]> Ö
    Then a step passes

  Scenario: Pending step
    Given a pending step
    Then a step passes

  @skip
  Scenario: Skipped by tag
    Given a step passes

  @skip
  Scenario: Skipped by tag with undefined
    Given an unknown thing

  Scenario: With text and table
    Given a step with text
      """
      Some ]]> text
        indented ä
      """
    And a step with table
      | name | value |
      | good | 1 ]]> |
      | x    | ü |
    And a step with table
      | name | value |
      | bad  | 2     |

  Scenario:
    Given a step passes
''',
"features/outline.feature": '''
Feature: Outlines

  @outline
  Scenario Outline: Numbers <n> -- <comment>
    Given a step with number <n>
    Then a step passes

    Examples: Good
      | n  | comment |
      | 1  | one     |
      | 2  | t]]>wo  |

    @skip
    Examples: Skipped
      | n  | comment |
      | 3  | three   |

    Examples: Bad
      | n  | comment   |
      | 13 | unlucky   |
      | 99 | big Ä     |
      | 5  | fine      |

  Scenario Outline: Undefined <what>
    Given an undefined <what>

    Examples:
      | what  |
      | alpha |
''',
"features/hooks.feature": '''
Feature: Hook problems

  @hook_error
  Scenario: Before scenario hook error
    Given a step passes

  @hook_assert
  Scenario: Before scenario hook assert
    Given a step passes

  @after_hook_error
  Scenario: After scenario hook error
    Given a step passes

  @after_hook_error
  Scenario: After scenario hook error with failing step
    Given a step fails

  @tag_hook_error
  Scenario: Tag hook error
    Given a step passes

  Scenario: Step hook error
    Given a step passes
    When a step with bad before_step hook
    Then a step passes

  Scenario: Fine
    Given a step passes
''',
"features/sub/rules.feature": '''
Feature: With rules

  Scenario: Top level
    Given a step passes

  Rule: First rule
    Background:
      Given a step prints "rule background"

    Scenario: In rule passes
      Given a step passes

    Scenario: In rule fails
      Given a step fails

    Scenario Outline: In rule outline <n>
      Given a step with number <n>
      Examples:
        | n  |
        | 7  |
        | 13 |

  @skip
  Rule: Skipped rule
    Scenario: In skipped rule
      Given a step passes
''',
"features/sub/feature_hook.feature": '''
@feature_hook_error
Feature: Feature hook error
  Scenario: Never runs one
    Given a step passes
  Scenario: Never runs two
    Given a step fails
''',
"features/sub/all_skipped.feature": '''
@skip
Feature: All skipped
  Scenario: S1
    Given a step passes
  Scenario Outline: S2 <n>
    Given a step with number <n>
    Examples:
      | n |
      | 1 |
''',
"features/sub/noname.feature": '''
Feature:
  Scenario: In nameless feature
    Given a step passes
''',
"features/sub/empty.feature": '''
Feature: Empty feature
''',
}

RUNS = [
    ("default", []),
    ("show-skipped", ["--show-skipped"]),
    ("no-skipped", ["--no-skipped"]),
    ("skipped-always", ["--no-skipped", "-D", "behave.reporter.junit.show_skipped_always=true"]),
    ("terse", ["-D", "behave.reporter.junit.show_timings=false",
               "-D", "behave.reporter.junit.show_tags=false",
               "-D", "behave.reporter.junit.show_multiline=false",
               "-D", "behave.reporter.junit.show_timestamp=false",
               "-D", "behave.reporter.junit.show_hostname=false"]),
    ("no-scenarios", ["-D", "behave.reporter.junit.show_scenarios=false"]),
    ("no-capture-options", ["--no-capture", "--no-capture-stderr", "--no-logcapture"]),
    ("dry-run", ["--dry-run"]),
    ("stop", ["--stop"]),
    ("only-basic-tag", ["--tags=basic", "--show-skipped"]),
    ("subdir-path", ["features/sub"]),
]


def normalize(text, workdir):
    text = text.replace(workdir, "<WORKDIR>")
    text = text.replace(WORKTREE, "<WORKTREE>")
    text = re.sub(r'time="[0-9.e+-]+"', 'time="T"', text)
    text = re.sub(r'timestamp="[^"]*"', 'timestamp="TS"', text)
    text = re.sub(r'hostname="[^"]*"', 'hostname="HOST"', text)
    text = re.sub(r' in \d+\.\d+s', ' in N.NNNs', text)
    text = re.sub(r'\b\d+m?\d*\.\d+s\b', 'N.NNNs', text)
    text = re.sub(r'File "[^"]*/lib/python[^"]*/', 'File "<PYLIB>/', text)
    return text


def dump_report(path, workdir):
    with io.open(path, "rb") as f:
        raw = f.read()
    try:
        text = raw.decode("UTF-8")
        print("DECODE: ok")
    except UnicodeDecodeError as e:
        print("DECODE: FAILED %s" % e)
        text = raw.decode("UTF-8", "replace")
    print("---- RAW (normalised)")
    for line in normalize(text, workdir).splitlines():
        print("   | " + ascii(line)[1:-1])
    print("---- PARSED")
    try:
        root = ET.fromstring(raw)
    except ET.ParseError as e:
        print("NOT WELL-FORMED: %s" % e)
        return
    attrs = dict(root.attrib)
    for key in ("time", "timestamp", "hostname"):
        if key in attrs:
            attrs[key] = "<%s>" % key
    print("suite %s %s" % (root.tag, ascii(sorted(attrs.items()))))
    cases = root.findall("testcase")
    n_fail = n_err = n_skip = 0
    for case in cases:
        kids = [child.tag for child in case]
        n_fail += kids.count("failure")
        n_err += kids.count("error")
        n_skip += kids.count("skipped")
        print("  case name=%s classname=%s status=%s children=%s" % (
            ascii(case.get("name")), ascii(case.get("classname")),
            case.get("status"), kids))
        for child in case:
            if child.tag in ("failure", "error"):
                print("    %s type=%s message=%s" % (
                    child.tag, ascii(child.get("type")), ascii(child.get("message"))))
    print("  children-of-suite=%s" % sorted(set(child.tag for child in root)))
    print("  CHECK tests=%s/%d failures=%s/%d errors=%s/%d skipped=%s/%d" % (
        root.get("tests"), len(cases), root.get("failures"), n_fail,
        root.get("errors"), n_err, root.get("skipped"), n_skip))


def part_b():
    print("=" * 20, "PART B: behave --junit runs")
    workdir = tempfile.mkdtemp(prefix="c16equiv_")
    workdir = os.path.realpath(workdir)
    try:
        for relname, content in FILES.items():
            path = os.path.join(workdir, relname)
            if not os.path.isdir(os.path.dirname(path)):
                os.makedirs(os.path.dirname(path))
            with io.open(path, "w", encoding="UTF-8") as f:
                f.write(content.lstrip("\n"))
        env = dict(os.environ)
        env["PYTHONPATH"] = WORKTREE
        env["PYTHONDONTWRITEBYTECODE"] = "1"
        env["PYTHONIOENCODING"] = "UTF-8"
        env.pop("GHERKIN_COLORS", None)
        for run_name, options in RUNS:
            print("#" * 10, "RUN %s: %s" % (run_name, " ".join(options)))
            report_dir = os.path.join(workdir, "reports_" + run_name)
            command = [PYTHON, "-m", "behave", "--junit",
                       "--junit-directory", report_dir,
                       "-f", "plain", "--no-color", "--no-timings"] + options
            proc = subprocess.Popen(command, cwd=workdir, env=env,
                                    stdout=subprocess.PIPE, stderr=subprocess.PIPE)
            out, err = proc.communicate()
            print("returncode: %s" % proc.returncode)
            print("---- STDOUT")
            for line in normalize(out.decode("UTF-8", "replace"), workdir).splitlines():
                print("   | " + ascii(line)[1:-1])
            print("---- STDERR")
            for line in normalize(err.decode("UTF-8", "replace"), workdir).splitlines():
                print("   | " + ascii(line)[1:-1])
            names = sorted(os.listdir(report_dir)) if os.path.isdir(report_dir) else []
            print("report files: %s" % names)
            for name in names:
                print("=" * 6, "REPORT %s/%s" % (run_name, name))
                dump_report(os.path.join(report_dir, name), workdir)
    finally:
        shutil.rmtree(workdir, ignore_errors=True)


def part_c():
    """Configuration.setup_reporters: junit forces capture on."""
    print("=" * 20, "PART C: configuration")
    from behave.configuration import Configuration
    for args in (["--junit"], ["--junit", "--no-capture", "--no-capture-stderr", "--no-logcapture"],
                 ["--no-capture"], [], ["--junit", "--no-summary"]):
        config = Configuration(command_args=args, load_config=False)
        show("Configuration(%s)" % " ".join(args),
             (config.junit, config.stdout_capture, config.stderr_capture,
              config.log_capture, [r.__class__.__name__ for r in config.reporters]))


if __name__ == "__main__":
    part_a()
    part_c()
    part_b()
