# -*- coding: UTF-8 -*-
"""Equivalence transcript for C20-t1 (behave/userdata.py: parse_user_define, unqote)."""
from __future__ import print_function
import sys
sys.path.insert(0, "/tmp/wtT/C20")
import itertools
import os
import tempfile

from behave.userdata import parse_user_define, unqote, UserData
from behave.configuration import Configuration


def show(label, func, *args, **kwargs):
    try:
        result = func(*args, **kwargs)
        print("%s -> %r" % (label, result))
    except Exception as e:  # noqa
        print("%s !! %s: %s" % (label, e.__class__.__name__, e))


# -- PART 1: unqote() on hand-picked and generated texts.
HAND_TEXTS = [
    "", " ", "x", '"', "'", '""', "''", '"\'', '\'"', '"x"', "'x'",
    '"x', 'x"', "'x", "x'", '"x\'', '\'x"', '""x""', "'\"x\"'", '"\'x\'"',
    ' "x" ', '"a=b"', "'a=b'", 'a="b"', "a='b'", "=", '"="', "'='",
    '"=', '="', "'=", "='", '"=\'', u'"ä=ö"',
]
for text in HAND_TEXTS:
    show("unqote(%r)" % (text,), unqote, text)

ALPHABET = ['"', "'", "=", " ", "a"]
generated = []
for size in range(0, 5):
    for chars in itertools.product(ALPHABET, repeat=size):
        generated.append("".join(chars))
for text in generated:
    show("unqote(%r)" % (text,), unqote, text)

# -- PART 2: parse_user_define() on documented schema, boundaries, generated.
DEFINES = [
    "name=value", "name", '"name=value"', "'name=value'",
    'name="value"', "name='value'", "  name = value  ", "  name  ",
    "name=", "=value", "=", "name==value", "name=a=b", '"name"="value"',
    "'name'='value'", '"name=value', 'name=value"', "name=\"va'lue\"",
    '" name = value "', "name= 'value' ", "name=' value '", 'name=""', "name=''",
    'name="', "name='", '"name"', "'name'", "", "   ", '""', "''", '"="', "'='",
    '"a=b"=c', "'a=\"b\"'", "\"a='b'\"", u"näme=wért", "a.b.c=1",
    "flag=true", "x = y = z", "\tname\t=\tvalue\t", "name=\n", '"\'a=b\'"',
]
for text in DEFINES + generated:
    show("parse_user_define(%r)" % (text,), parse_user_define, text)

# -- NON-STRING INPUTS: same exception types expected.
for bad in (None, 1, b"a=b", ["a=b"]):
    show("parse_user_define(%r)" % (bad,), parse_user_define, bad)
    show("unqote(%r)" % (bad,), unqote, bad)

# -- PART 3: Through the command line: -D definitions versus config file.
workdir = tempfile.mkdtemp(prefix="c20t1_")
os.chdir(workdir)
with open("behave.ini", "w") as f:
    f.write("[behave.userdata]\nfoo = from_file\nbar = file_bar\nnum = 12\n"
            "[behave]\nformat = plain\n")

CMDLINES = [
    [],
    ["-D", "foo=cmd"],
    ["-D", "foo"],
    ["-D", '"foo=quoted pair"'],
    ["-D", "foo='single'"],
    ["-D", "  foo = padded  "],
    ["-D", "new=1", "-D", "bar=", "--define", "num=0x10"],
    ["-D", "foo=1", "-D", "foo=2"],
    ["--define=flag", "-Dother=yes"],
]
for args in CMDLINES:
    config = Configuration(command_args=list(args), load_config=True)
    print("ARGS %r" % (args,))
    print("  defines  = %r" % (config.userdata_defines,))
    print("  userdata = %r" % (sorted(config.userdata.items()),))
    for getter_name, name in [("getint", "num"), ("getint", "new"),
                              ("getbool", "foo"), ("getbool", "flag"),
                              ("getfloat", "num"), ("getbool", "missing")]:
        show("  %s(%r)" % (getter_name, name), getattr(config.userdata, getter_name), name)
    config.update_userdata({"foo": "updated", "extra": "e"})
    print("  after update_userdata = %r" % (sorted(config.userdata.items()),))

# -- PART 4: UserData getters (unchanged code, sanity baseline).
data = UserData(i="42", f="1.5", b="yes", bad="zz", pre=7, t=True)
for getter, name, kw in [
    ("getint", "i", {}), ("getint", "bad", {}), ("getint", "nope", {}),
    ("getint", "nope", {"default": 9}), ("getfloat", "f", {}), ("getfloat", "bad", {}),
    ("getbool", "b", {}), ("getbool", "bad", {}), ("getbool", "t", {}),
    ("getint", "pre", {}), ("getbool", "nope", {"default": True}),
]:
    show("UserData.%s(%r, %r)" % (getter, name, kw), getattr(data, getter), name, **kw)
