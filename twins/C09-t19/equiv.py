# -*- coding: UTF-8 -*-
"""
Equivalence transcript for property C09 (tag selection with inheritance).

Outer mode (no args): creates a scratch project, runs the inner driver in a
subprocess for each case (tag expression x options), prints a transcript.
Inner mode (--inner <json-args>): runs behave in-process on the scratch
project and dumps call log, model statuses and formatter output.
"""
from __future__ import print_function
import sys
WORKTREE = "/tmp/wtW/C09"
sys.path.insert(0, WORKTREE)
import io
import json
import os
import re
import shutil
import subprocess
import tempfile

FEATURE_A = u'''
@f_a
Feature: Alpha

  Background:
    Given step "bg"

  @s1 @common
  Scenario: A1
    Given step "A1.1"
    When step "A1.2"

  @s2
  Scenario: A2
    Given step "A2.1"

  @o1 @row_<kind> @unknown_<nope>
  Scenario Outline: AO <kind>
    Given step "AO.<kind>"
    Then step "AO.end"

    @ex1
    Examples: E1
      | kind |
      | x    |
      | y    |

    @ex2 @common
    Examples: E2 <kind>
      | kind |
      | z    |

  @r1
  Rule: R1

    @s3
    Scenario: A3
      Given step "A3.1"

    Scenario: A4 fails
      Given failing step "A4.1"
      Then step "A4.2"

  @r2
  Rule: R2

    Background:
      Given step "bg2.<n>"

    @s5 @skip_me
    Scenario: A5
      Given step "A5.1"

    @o2
    Scenario Outline: AO2
      Given step "AO2.<n>"
        """
        text <n>
        """
      And step "AO2.table"
        | col <n> |
        | v<n>    |

      Examples:
        | n |
        | 1 |
        | 2 |
'''

FEATURE_B = u'''
Feature: Beta

  Scenario: B1 untagged
    Given step "B1.1"

  @s1
  Scenario: B2
    Given step "B2.1"
    And undefined thing
    And step "B2.3"

  @nosteps
  Scenario: B3 no steps

  @o3
  Scenario Outline: BO no examples
    Given step "BO.<q>"

  @r3
  Rule: R3 empty

  Rule: R4
    @common
    Scenario: B4
      Given step "B4.1"
'''

FEATURE_C = u'''
@f_c @wip
Feature: Gamma

  Scenario: C1
    Given step "C1.1"

  @not_wip @hook_error
  Scenario: C2
    Given step "C2.1"

  @skip_step
  Scenario: C3
    Given step "C3.1"
    And skipping step
    And step "C3.3"
'''

FEATURE_D = u'''
@f_d @skip_feature
Feature: Delta
  @s1
  Scenario: D1
    Given step "D1.1"
'''

FEATURE_E = u'''
@f_e
Feature: Epsilon empty
'''

FEATURE_Z = u'''
@f_z
Feature: Zeta

  @cont
  Scenario: Z1 continue after failed step
    Given step "Z1.1"
    And failing step "Z1.2"
    And step "Z1.3"
    And undefined other thing
    And step "Z1.5"
    And failing step "Z1.6"

  @pending
  Scenario: Z2 pending
    Given step "Z2.1"
    And pending step
    And step "Z2.3"
    And undefined third thing

  @abort
  Scenario: Z3 aborts
    Given step "Z3.1"
    And aborting step
    And step "Z3.3"

  @s1
  Scenario: Z4 after abort
    Given step "Z4.1"

  @o9
  Scenario Outline: ZO <v>
    Given step "ZO.<v>"
    Examples:
      | v |
      | 1 |
'''

STEPS = u'''
from behave import given, when, then, step
import calllog

@step(u'step "{name}"')
def step_named(context, name):
    calllog.log("STEP %s text=%r table=%r" % (
        name, context.text,
        context.table and [context.table.headings] + [list(r.cells) for r in context.table]))

@step(u'failing step "{name}"')
def step_failing(context, name):
    calllog.log("STEP-FAIL %s" % name)
    assert False, "XFAIL " + name

@step(u'pending step')
def step_pending(context):
    from behave.api.pending_step import StepNotImplementedError
    calllog.log("STEP-PENDING")
    raise StepNotImplementedError("not yet")

@step(u'aborting step')
def step_aborting(context):
    calllog.log("STEP-ABORT")
    raise KeyboardInterrupt()

@step(u'skipping step')
def step_skipping(context):
    calllog.log("STEP-SKIP")
    context.scenario.skip("from step")
'''

ENVIRONMENT = u'''
import calllog

def _tags(context):
    return ",".join(sorted(context.tags))

def before_all(context):
    calllog.log("before_all")

def after_all(context):
    calllog.log("after_all")

def before_feature(context, feature):
    calllog.log("before_feature %s ctx.tags=%s" % (feature.name, _tags(context)))
    if "skip_feature" in feature.tags:
        feature.skip("feature by hook")

def after_feature(context, feature):
    calllog.log("after_feature %s status=%s" % (feature.name, feature.status.name))

def before_rule(context, rule):
    calllog.log("before_rule %s ctx.tags=%s" % (rule.name, _tags(context)))

def after_rule(context, rule):
    calllog.log("after_rule %s status=%s" % (rule.name, rule.status.name))

def before_scenario(context, scenario):
    calllog.log("before_scenario %s ctx.tags=%s outline=%r" % (
        scenario.name, _tags(context),
        context.active_outline and list(context.active_outline.cells)))
    if "skip_me" in scenario.effective_tags:
        scenario.mark_skipped()
    if "cont" in scenario.tags:
        scenario.continue_after_failed_step = True
    if "hook_error" in scenario.tags:
        raise RuntimeError("hook boom")

def after_scenario(context, scenario):
    calllog.log("after_scenario %s status=%s" % (scenario.name, scenario.status.name))

def before_step(context, step):
    calllog.log("before_step %s" % step.name)

def after_step(context, step):
    calllog.log("after_step %s status=%s" % (step.name, step.status.name))

def before_tag(context, tag):
    calllog.log("before_tag %s" % tag)

def after_tag(context, tag):
    calllog.log("after_tag %s" % tag)
'''

CALLLOG = u'''
LOG = []
def log(text):
    LOG.append(text)
'''

CASES = [
    # (label, extra command-line args)
    ("no-tags", []),
    ("v1 @s1", ["--tags=@s1"]),
    ("v1 -@s1", ["--tags=-@s1"]),
    ("v1 ~@f_a", ["--tags=~@f_a"]),
    ("v1 @s1,@s3", ["--tags=@s1,@s3"]),
    ("v1 @f_a and -@r1", ["--tags=@f_a", "--tags=-@r1"]),
    ("v1 @row_x", ["--tags=@row_x"]),
    ("v1 -@common", ["--tags=-@common"]),
    ("v1 @ex1,@o2", ["--tags=@ex1,@o2"]),
    ("v1 @r2", ["--tags=@r2"]),
    ("v1 @unknown_tag", ["--tags=@unknown_tag"]),
    ("v2 @f_a and not @r1", ["--tags=@f_a and not @r1"]),
    ("v2 not @common", ["--tags=not @common"]),
    ("v2 @row_x or @ex2", ["--tags=@row_x or @ex2"]),
    ("v2 @row_*", ["--tags=@row_*"]),
    ("v2 not @s*", ["--tags=not @s*"]),
    ("v2 not @f_*", ["--tags=not @f_*"]),
    ("v2 @r1 or @r3", ["--tags=@r1 or @r3"]),
    ("v2 (@o1 and @ex2) or @nosteps", ["--tags=(@o1 and @ex2) or @nosteps"]),
    ("v2 @wip and not @not_wip", ["--tags=@wip and not @not_wip"]),
    ("v2 not @wip and not @f_a", ["--tags=not @wip and not @f_a"]),
    ("v2 @o3 or @f_e", ["--tags=@o3 or @f_e"]),
    ("v2 @skip_me or @s1", ["--tags=@skip_me or @s1"]),
    ("v2 @f_d or @hook_error", ["--tags=@f_d or @hook_error"]),
    ("v2 @skip_step", ["--tags=@skip_step"]),
    ("name A", ["--name=A[13]"]),
    ("name + tags", ["--name=AO", "--tags=not @ex1"]),
    ("stop", ["--stop", "--tags=@r1 or @s1"]),
    ("v2 @cont or @pending", ["--tags=@cont or @pending"]),
    ("v2 @f_z and not @abort", ["--tags=@f_z and not @abort"]),
    ("v2 @abort or @r3", ["--tags=@abort or @r3"]),
    ("v1 -@abort,@f_z", ["--tags=-@abort,@f_z"]),
]
OPTION_SETS = [
    ("default", []),
    ("show-skipped", ["--show-skipped"]),
    ("no-skipped", ["--no-skipped"]),
    ("dry-run", ["--dry-run"]),
    ("dry-run+no-skipped", ["--dry-run", "--no-skipped"]),
]


def make_project(basedir):
    os.makedirs(os.path.join(basedir, "features", "steps"))
    files = {
        "features/a.feature": FEATURE_A,
        "features/b.feature": FEATURE_B,
        "features/c.feature": FEATURE_C,
        "features/d.feature": FEATURE_D,
        "features/e.feature": FEATURE_E,
        "features/z.feature": FEATURE_Z,
        "features/steps/steps.py": STEPS,
        "features/environment.py": ENVIRONMENT,
        "calllog.py": CALLLOG,
    }
    for name, text in files.items():
        with io.open(os.path.join(basedir, name), "w", encoding="utf-8") as f:
            f.write(text)


# ---------------------------------------------------------------------------
# INNER DRIVER
# ---------------------------------------------------------------------------
def dump_scenario(scenario, indent):
    print("%sSCENARIO %r status=%s should_skip=%s skip_reason=%r dry=%r hook_failed=%s"
          % (indent, scenario.name, scenario.status.name, scenario.should_skip,
             scenario.skip_reason, bool(scenario.was_dry_run), scenario.hook_failed))
    print("%s  tags=%s effective=%s parent=%s" % (
        indent, list(scenario.tags), sorted(scenario.effective_tags),
        scenario.parent and scenario.parent.name))
    for step in scenario.all_steps:
        print("%s  STEP %s %r status=%s text=%r" % (
            indent, step.keyword, step.name, step.status.name, step.text))


def dump_container(container, indent=""):
    from behave.model import Rule, ScenarioOutline
    print("%s%s %r status=%s should_skip=%s skip_reason=%r tags=%s effective=%s"
          % (indent, container.type.upper(), container.name,
             container.status.name, container.should_skip,
             container.skip_reason, list(container.tags),
             sorted(container.effective_tags)))
    for item in container.run_items:
        if isinstance(item, Rule):
            dump_container(item, indent + "  ")
        elif isinstance(item, ScenarioOutline):
            print("%s  OUTLINE %r status=%s should_skip=%s tags=%s effective=%s built=%d"
                  % (indent, item.name, item.status.name, item.should_skip,
                     list(item.tags), sorted(item.effective_tags),
                     len(item._scenarios)))
            for scenario in item._scenarios:
                dump_scenario(scenario, indent + "    ")
        else:
            dump_scenario(item, indent + "  ")


def inner_main(args):
    from behave.configuration import Configuration
    from behave.runner import Runner
    sys.path.insert(1, os.getcwd())
    import calllog
    config = Configuration(command_args=args, load_config=False)
    runner = Runner(config)
    try:
        failed = runner.run()
        print("RESULT failed=%r aborted=%r" % (failed, runner.aborted))
    except BaseException as e:  # noqa
        print("EXCEPTION %s: %s" % (e.__class__.__name__, e))
    sys.stdout.flush()
    print("---- CALL LOG")
    for line in calllog.LOG:
        print("  " + line)
    print("---- MODEL")
    for feature in runner.features:
        dump_container(feature)
    print("---- UNDEFINED %s" % [s.name for s in runner.undefined_steps])
    extra_inner(runner)


def extra_inner(runner):
    """Hook for twin-specific checks on the model after a run."""


# ---------------------------------------------------------------------------
# OUTER DRIVER
# ---------------------------------------------------------------------------
_TIMING = re.compile(r"\d+m\d+\.\d+s|\d+\.\d+s")


def run_case(basedir, label, args):
    cmd = [sys.executable, os.path.abspath(__file__), "--inner", json.dumps(args)]
    env = dict(os.environ)
    env["PYTHONPATH"] = WORKTREE
    env["PYTHONHASHSEED"] = "0"
    env.pop("BEHAVE_ARGS", None)
    proc = subprocess.Popen(cmd, cwd=basedir, env=env, stdout=subprocess.PIPE,
                            stderr=subprocess.STDOUT, universal_newlines=True)
    output = proc.communicate()[0]
    print("=" * 78)
    print("CASE %s :: %s  (exit=%s)" % (label, args, proc.returncode))
    for line in output.splitlines():
        line = _TIMING.sub("<T>", line.rstrip())
        line = line.replace(basedir, "<BASE>")
        print(line)


def extra_outer():
    """Hook for twin-specific direct API checks (in-process)."""


def outer_main():
    basedir = tempfile.mkdtemp(prefix="c09eq")
    try:
        basedir = os.path.realpath(basedir)
        make_project(basedir)
        for case_label, case_args in CASES:
            for opt_label, opt_args in OPTION_SETS:
                args = ["-f", "plain", "--no-color", "--no-timings",
                        "--no-capture"] + opt_args + case_args
                run_case(basedir, "%s / %s" % (case_label, opt_label), args)
    finally:
        shutil.rmtree(basedir, ignore_errors=True)
    print("=" * 78)
    print("DIRECT API CHECKS")
    extra_outer()


if __name__ == "__main__":
    if len(sys.argv) > 2 and sys.argv[1] == "--inner":
        inner_main(json.loads(sys.argv[2]))
    else:
        outer_main()
