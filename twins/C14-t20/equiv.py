# -*- coding: UTF-8 -*-
"""
Equivalence transcript for property C14 (summary conservation).

Exercises the summary code of the worktree /tmp/wtW/C14 through

  PART A: real "python -m behave" runs (subprocess, PYTHONPATH=worktree) over a
          generated project (rules, outlines, backgrounds, failures, errors,
          undefined/pending steps, hook errors, --stop, --dry-run, tag and name
          selections, abort) with all summary output formats.  The project's
          environment.py additionally dumps (in after_all) what the collector,
          the v1 reporter tables and the V2 reporter see, next to a direct census.
  PART B: in-process use of format_summary_*, StatusCounts, HookErrorCounts,
          SummaryCounts, SummaryCollector, ModelVisitor and SummaryReporterV1/V2
          on parsed models with hand-set statuses, including boundary inputs and
          error cases (exception types and messages are recorded).

Prints a canonical transcript on stdout (timing lines are removed).
"""

from __future__ import absolute_import, print_function
import sys
WORKTREE = "/tmp/wtW/C14"
sys.path.insert(0, WORKTREE)

import io
import os
import re
import shutil
import subprocess
import tempfile
import textwrap

from behave.model_core import Status
from behave.parser import parse_feature
from behave.model_visitor import ModelVisitor, IModelVisitor
from behave.summary import (
    StatusCounts, HookErrorCounts, SummaryCounts, SummaryCollector, STATUS_ORDER
)
from behave.reporter import summary as rsummary
from behave.reporter.summary import (
    SummaryReporterV1, SummaryReporterV2, SummaryReporter,
    format_summary_v1, format_summary_v2, format_summary_v3,
    format_summary_v1A, format_summary_v1B, format_summary_with_schema,
    select_format_summary_by_name, compute_summary_sum, pluralize,
    OUTPUT_FORMAT_MAP,
)

PYTHON = "/venv/bin/python"
FORMAT_NAMES = ["v1", "v1A", "v1B", "v2", "v3"]


ADDRESS = re.compile(r"0x[0-9a-fA-F]+")


def emit(text=""):
    sys.stdout.write(ADDRESS.sub("0x<ADDR>", text))
    sys.stdout.write("\n")


def section(title):
    emit("")
    emit("=" * 70)
    emit("== " + title)
    emit("=" * 70)


def attempt(label, func, *args, **kwargs):
    try:
        result = func(*args, **kwargs)
        emit("%s -> %r" % (label, result))
        return result
    except Exception as e:  # pylint: disable=broad-except
        emit("%s -> RAISES %s: %s" % (label, e.__class__.__name__, e))
        return None


# ---------------------------------------------------------------------------
# PART A: PROJECT FILES
# ---------------------------------------------------------------------------
FEATURE_A = u"""
@feature_a
Feature: Alpha basic
  Background:
    Given a passing step

  Scenario: A1 passes
    When a passing step
    Then a passing step

  Scenario: A2 fails
    When a failing step
    Then a passing step

  Scenario: A3 errors
    When an erroring step
    Then a passing step
    And a passing step

  Scenario: A4 undefined
    When an unknown step that nobody defined
    Then a passing step

  Scenario: A5 pending
    When a pending step
    Then a passing step

  @skip
  Scenario: A6 skipped by tag
    When a passing step

  Scenario: A7 skips itself
    When the scenario is skipped
    Then a passing step

  @outline
  Scenario Outline: A8 outline <name>
    When a <kind> step
    Then a passing step

    Examples: first
      | name | kind    |
      | r1   | passing |
      | r2   | failing |
      | r3   | passing |

    @skip
    Examples: second
      | name | kind     |
      | r4   | erroring |
      | r5   | passing  |
"""

FEATURE_B = u"""
@feature_b
Feature: Beta rules
  Background:
    Given a passing step

  Scenario: B0 before rules
    When a passing step

  Rule: R1 all good
    Scenario: B1 passes
      When a passing step

    Scenario Outline: B2 outline <name>
      When a <kind> step

      Examples:
        | name | kind    |
        | x1   | passing |
        | x2   | passing |

  Rule: R2 mixed
    Background:
      Given a passing step

    Scenario: B3 fails
      When a failing step

    Scenario Outline: B4 outline <name>
      When a <kind> step
      Then a passing step

      Examples:
        | name | kind     |
        | y1   | failing  |
        | y2   | erroring |
        | y3   | passing  |

  @skip
  Rule: R3 skipped
    Scenario: B5 never runs
      When a failing step

  Rule: R4 empty
"""

FEATURE_C = u"""
@feature_c
Feature: Gamma hooks
  @hook.before_scenario
  Scenario: C1 before_scenario hook error
    When a passing step

  @hook.after_scenario
  Scenario: C2 after_scenario hook error
    When a passing step

  @hook.before_step
  Scenario: C3 before_step hook error
    When a passing step
    Then a passing step

  @hook.after_step
  Scenario: C4 after_step hook error
    When a passing step
    Then a passing step

  @hook.before_tag
  Scenario: C5 before_tag hook error
    When a passing step

  @hook.assert_before_scenario
  Scenario: C6 before_scenario hook assertion
    When a passing step

  Rule: RC hooks in rule
    @hook.before_scenario
    Scenario: C7 hook error inside rule
      When a passing step

    Scenario: C8 passes
      When a passing step
"""

FEATURE_D = u"""
@feature_d @hook.before_feature
Feature: Delta before_feature hook error
  Scenario: D1 never runs
    When a passing step

  Scenario: D2 never runs
    When a failing step
"""

FEATURE_E = u"""
@feature_e
Feature: Epsilon rule hooks
  @hook.before_rule
  Rule: RE1 before_rule hook error
    Scenario: E1 never runs
      When a passing step

  @hook.after_rule
  Rule: RE2 after_rule hook error
    Scenario: E2 passes
      When a passing step

  Rule: RE3 fine
    Scenario: E3 passes
      When a passing step
    Scenario: E4 aborts
      When the run is aborted
      Then a passing step
    Scenario: E5 after abort
      When a passing step
"""

FEATURE_F = u"""
@feature_f
Feature: Zeta all passing
  Scenario: F1 passes
    Given a passing step
  Scenario: F2 passes
    Given a passing step
    When a pending-warn step
"""

FEATURE_G = u"""
@feature_g
Feature: Eta empty feature
"""

FEATURE_H = u"""
@feature_h @hook.after_feature
Feature: Theta after_feature hook error
  Scenario: H1 passes
    Given a passing step
"""

STEPS_PY = u'''
from behave import given, when, then, step
from behave.api.pending_step import StepNotImplementedError

@step(u"a passing step")
def step_passing(ctx):
    pass

@step(u"a failing step")
def step_failing(ctx):
    assert False, "XFAIL-STEP"

@step(u"an erroring step")
def step_erroring(ctx):
    raise RuntimeError("XERROR-STEP")

@step(u"a pending step")
def step_pending(ctx):
    raise StepNotImplementedError("pending here")

@step(u"a pending-warn step")
def step_pending_warn(ctx):
    pass

@step(u"the scenario is skipped")
def step_skip(ctx):
    ctx.scenario.skip("SKIPPED-BY-STEP")

@step(u"the run is aborted")
def step_abort(ctx):
    ctx.abort(reason="ABORT-BY-STEP")
'''

ENVIRONMENT_PY = u'''
from __future__ import print_function
import sys
from behave.model import ScenarioOutline, Rule, Scenario
from behave.summary import SummaryCounts, SummaryCollector
from behave.reporter.summary import (
    SummaryReporterV1, SummaryReporterV2, OUTPUT_FORMAT_MAP
)

class HookError(RuntimeError):
    pass

def _check(tags, name):
    if "hook.%s" % name in tags:
        raise HookError("OOPS-IN-%s" % name)
    if "hook.assert_%s" % name in tags:
        assert False, "ASSERT-IN-%s" % name

def before_all(ctx):
    if ctx.config.userdata.get("abort_in_before_all") == "yes":
        ctx.abort(reason="before_all")
    if ctx.config.userdata.get("error_in_before_all") == "yes":
        raise HookError("OOPS-IN-before_all")

def before_feature(ctx, feature):
    _check(feature.tags, "before_feature")
def after_feature(ctx, feature):
    _check(feature.tags, "after_feature")
def before_rule(ctx, rule):
    _check(rule.tags, "before_rule")
def after_rule(ctx, rule):
    _check(rule.tags, "after_rule")
def before_scenario(ctx, scenario):
    _check(scenario.tags, "before_scenario")
def after_scenario(ctx, scenario):
    _check(scenario.tags, "after_scenario")
def before_step(ctx, step):
    _check(ctx.scenario.tags, "before_step")
def after_step(ctx, step):
    _check(ctx.scenario.tags, "after_step")
def before_tag(ctx, tag):
    if tag == "hook.before_tag":
        raise HookError("OOPS-IN-before_tag")

# -- DIRECT CENSUS of the model (independent of the summary code).
def _scenarios_of(container):
    for item in container:
        if isinstance(item, Rule):
            for x in _scenarios_of(item):
                yield x
        elif isinstance(item, ScenarioOutline):
            for x in item.scenarios:
                yield x
        else:
            yield item

def _rules_of(feature):
    return [item for item in feature if isinstance(item, Rule)]

def _tally(items):
    counts = {}
    for item in items:
        counts[item.status.name] = counts.get(item.status.name, 0) + 1
    return sorted(counts.items())

def _dump(label, value):
    print("DUMP %s: %s" % (label, value))

class _Config(object):
    def __init__(self, userdata):
        self.userdata = userdata

def after_all(ctx):
    if ctx.config.userdata.get("dump") != "yes":
        return
    features = ctx._runner.features
    scenarios = [s for f in features for s in _scenarios_of(f)]
    _dump("census.features", _tally(features))
    _dump("census.rules", _tally([r for f in features for r in _rules_of(f)]))
    _dump("census.scenarios", _tally(scenarios))
    _dump("census.steps", _tally([st for s in scenarios for st in s]))
    _dump("census.failed", [s.name for s in scenarios if s.status.name == "failed"])
    _dump("census.errored", [s.name for s in scenarios if s.status.is_error()])

    # -- COLLECTOR:
    collector = SummaryCollector()
    result = collector.visit_many(features)
    _dump("collector.result", result)
    for name, counts in collector.summary_counts.items():
        _dump("collector.%s" % name, "%s | %s" % (counts, sorted(
            (getattr(k, "name", k), v) for k, v in dict.items(counts) if v)))
    _dump("collector.str", str(collector.summary_counts).replace("\\n", " / "))
    _dump("collector.failed_scenarios", [s.name for s in collector.failed_scenarios])
    _dump("collector.errored_scenarios", [s.name for s in collector.errored_scenarios])
    _dump("collector.failed_features", [s.name for s in collector.failed_features])
    _dump("collector.errored_features", [s.name for s in collector.errored_features])
    _dump("collector.has_failures_or_errors", collector.has_failures_or_errors())

    # -- REPORTERS (second instance, fed by hand):
    for reporter_class in (SummaryReporterV1, SummaryReporterV2):
        for output_format in ("v1", "v1A", "v1B", "v2", "v3", None):
            userdata = {}
            if output_format:
                userdata["behave.reporter.summary.output_format"] = output_format
            reporter = reporter_class(_Config(userdata))
            label = "%s[%s]" % (reporter_class.__name__, output_format)
            try:
                for feature in features:
                    reporter.feature(feature)
                reporter.duration = 0
                reporter.stream = sys.stdout
                print("BEGIN %s" % label)
                reporter.end()
                print("END %s" % label)
            except Exception as e:
                print("END %s RAISES %s: %s" % (label, e.__class__.__name__, e))
            if reporter_class is SummaryReporterV1:
                for table_name in ("feature_summary", "rule_summary",
                                   "scenario_summary", "step_summary"):
                    _dump("%s.%s" % (label, table_name),
                          sorted(getattr(reporter, table_name).items()))
            _dump("%s.failed" % label, [s.name for s in reporter.failed_scenarios])
            _dump("%s.errored" % label, [s.name for s in reporter.errored_scenarios])
'''


def make_project(basedir):
    features_dir = os.path.join(basedir, "features")
    steps_dir = os.path.join(features_dir, "steps")
    os.makedirs(steps_dir)
    files = {
        "a_alpha.feature": FEATURE_A,
        "b_beta.feature": FEATURE_B,
        "c_gamma.feature": FEATURE_C,
        "d_delta.feature": FEATURE_D,
        "e_epsilon.feature": FEATURE_E,
        "f_zeta.feature": FEATURE_F,
        "g_eta.feature": FEATURE_G,
        "h_theta.feature": FEATURE_H,
        "environment.py": ENVIRONMENT_PY,
    }
    for name, contents in files.items():
        with io.open(os.path.join(features_dir, name), "w", encoding="utf-8") as f:
            f.write(contents.lstrip("\n"))
    with io.open(os.path.join(steps_dir, "steps.py"), "w", encoding="utf-8") as f:
        f.write(STEPS_PY)
    with io.open(os.path.join(basedir, "behave.ini"), "w", encoding="utf-8") as f:
        f.write(u"[behave]\ndefault_tags = not @skip\n")


TIMING_LINE = re.compile(r"^Took \d+m[\d.]+s$")


def run_behave(basedir, args, show_all=False):
    env = dict(os.environ)
    env["PYTHONPATH"] = WORKTREE
    env["PYTHONDONTWRITEBYTECODE"] = "1"
    env.pop("BEHAVE_ARGS", None)
    command = [PYTHON, "-m", "behave", "--no-color", "-f", "null"] + list(args)
    proc = subprocess.Popen(command, cwd=basedir, env=env,
                            stdout=subprocess.PIPE, stderr=subprocess.STDOUT)
    output, _ = proc.communicate()
    output = output.decode("utf-8", "replace")
    emit("$ behave %s" % " ".join(args))
    emit("returncode: %s" % proc.returncode)
    keep = []
    for line in output.splitlines():
        line = line.rstrip()
        if TIMING_LINE.match(line):
            line = "Took <TIME>"
        line = line.replace(basedir, "<BASEDIR>")
        keep.append(line)
    if not show_all:
        # -- KEEP: summary part, dumps and diagnostics; drop traceback noise.
        keep = [line for line in keep
                if not (line.startswith("  File ") or line.startswith("    "))]
    for line in keep:
        emit("  | " + line)


def part_a():
    basedir = tempfile.mkdtemp(prefix="c14_equiv_")
    try:
        make_project(basedir)
        dump = ["-D", "dump=yes"]
        section("A1: full run with dumps (default format)")
        run_behave(basedir, dump)
        section("A2: all output formats (reporter configured via userdata)")
        for name in FORMAT_NAMES + ["passed_first", "entity_first", "bogus"]:
            run_behave(basedir,
                       ["-D", "behave.reporter.summary.output_format=%s" % name])
        section("A3: --stop / abort / dry-run / selections")
        run_behave(basedir, ["--stop"] + dump)
        run_behave(basedir, ["--dry-run"] + dump)
        run_behave(basedir, ["--tags=@feature_e"] + dump)
        run_behave(basedir, ["--tags=@feature_e or @feature_f", "--stop"] + dump)
        run_behave(basedir, ["--tags=@outline"] + dump)
        run_behave(basedir, ["--tags=not @outline and not @skip",
                             "-D", "behave.reporter.summary.output_format=v2"])
        run_behave(basedir, ["--tags=@skip"] + dump)
        run_behave(basedir, ["-n", "B4 outline"] + dump)
        run_behave(basedir, ["-n", "no such scenario"] + dump)
        run_behave(basedir, ["features/f_zeta.feature"] + dump)
        run_behave(basedir, ["features/g_eta.feature"] + dump)
        run_behave(basedir, ["features/f_zeta.feature", "features/g_eta.feature",
                             "-D", "behave.reporter.summary.output_format=v1B"])
        run_behave(basedir, ["features/b_beta.feature:30"] + dump)
        run_behave(basedir, ["features/d_delta.feature",
                             "features/h_theta.feature"] + dump)
        run_behave(basedir, ["-D", "abort_in_before_all=yes"] + dump)
        run_behave(basedir, ["-D", "error_in_before_all=yes"] + dump)
        run_behave(basedir, ["--no-summary"])
        run_behave(basedir, ["features/c_gamma.feature", "--stop",
                             "-D", "behave.reporter.summary.output_format=v3"] + dump)
        for name in FORMAT_NAMES:
            run_behave(basedir, ["features/a_alpha.feature", "--dry-run", "-D",
                                 "behave.reporter.summary.output_format=%s" % name])
            run_behave(basedir, ["features/e_epsilon.feature", "-D",
                                 "behave.reporter.summary.output_format=%s" % name])
    finally:
        shutil.rmtree(basedir, ignore_errors=True)


# ---------------------------------------------------------------------------
# PART B: IN-PROCESS
# ---------------------------------------------------------------------------
class Config(object):
    def __init__(self, userdata=None):
        self.userdata = userdata or {}


def build_model(text, filename):
    feature = parse_feature(textwrap.dedent(text).strip(), filename=filename)
    return feature


MODEL_1 = u"""
    Feature: M1
      Background:
        Given a background step

      Scenario: S1
        When step one
        Then step two

      Scenario Outline: SO <n>
        When step <n>

        Examples:
          | n |
          | 1 |
          | 2 |

      Rule: R1
        Scenario: S2
          When step three

        Scenario Outline: SO2 <n>
          When step <n>
          Then step four

          Examples:
            | n |
            | 7 |
            | 8 |
            | 9 |

      Rule: R2
"""

MODEL_2 = u"""
    Feature: M2
      Scenario: T1
        Given step a
        And step b
      Scenario: T2
        Given step c
"""


def all_scenarios(container):
    from behave.model import Rule, ScenarioOutline
    for item in container:
        if isinstance(item, Rule):
            for x in all_scenarios(item):
                yield x
        elif isinstance(item, ScenarioOutline):
            for x in item.scenarios:
                yield x
        else:
            yield item


def set_statuses(feature, step_statuses, scenario_statuses=None,
                 rule_statuses=None, feature_status=None):
    """Assign statuses round-robin (deterministic)."""
    from behave.model import Rule
    scenarios = list(all_scenarios(feature))
    index = 0
    for scenario in scenarios:
        for step in scenario:
            step.set_status(step_statuses[index % len(step_statuses)])
            index += 1
    if scenario_statuses:
        for i, scenario in enumerate(scenarios):
            scenario.set_status(scenario_statuses[i % len(scenario_statuses)])
    if rule_statuses:
        rules = [item for item in feature if isinstance(item, Rule)]
        for i, rule in enumerate(rules):
            rule.set_status(rule_statuses[i % len(rule_statuses)])
    if feature_status:
        feature.set_status(feature_status)


class RecordingVisitor(IModelVisitor):
    """Records calls; may cancel the visit for chosen items."""
    def __init__(self, cancel=None):
        self.calls = []
        self.cancel = cancel or {}

    def _on(self, kind, item):
        self.calls.append("%s:%s" % (kind, item.name))
        key = "%s:%s" % (kind, item.name)
        if key in self.cancel:
            return self.cancel[key]
        if kind in self.cancel:
            return self.cancel[kind]
        return None

    def on_feature(self, feature):
        return self._on("feature", feature)

    def on_rule(self, rule):
        return self._on("rule", rule)

    def on_scenario_outline(self, scenario_outline):
        return self._on("outline", scenario_outline)

    def on_scenario(self, scenario):
        return self._on("scenario", scenario)

    def on_step(self, step):
        return self._on("step", step)


def show_reporter(label, reporter):
    for table_name in ("feature_summary", "rule_summary",
                       "scenario_summary", "step_summary"):
        table = getattr(reporter, table_name, None)
        if table is not None:
            emit("%s.%s = %r" % (label, table_name, sorted(table.items())))
    emit("%s.failed = %r" % (label, [s.name for s in reporter.failed_scenarios]))
    emit("%s.errored = %r" % (label, [s.name for s in reporter.errored_scenarios]))


def run_reporter(label, reporter_class, features, output_format=None,
                 show_failed=True, with_stream=False):
    userdata = {}
    if output_format:
        userdata["behave.reporter.summary.output_format"] = output_format
    reporter = reporter_class(Config(userdata))
    reporter.show_failed_scenarios = show_failed
    stream = io.StringIO()
    reporter.stream = stream
    try:
        for feature in features:
            reporter.feature(feature)
    except Exception as e:  # pylint: disable=broad-except
        emit("%s feature() RAISES %s: %s" % (label, e.__class__.__name__, e))
    reporter.duration = 61.5
    try:
        reporter.end()
    except Exception as e:  # pylint: disable=broad-except
        emit("%s end() RAISES %s: %s" % (label, e.__class__.__name__, e))
    emit("%s output:" % label)
    for line in stream.getvalue().splitlines():
        emit("  | " + line)
    show_reporter(label, reporter)
    if with_stream:
        other = io.StringIO()
        attempt("%s print_summary(stream, with_duration=False)" % label,
                reporter.print_summary, other, False)
        attempt("%s print_problematic_scenarios(stream)" % label,
                reporter.print_problematic_scenarios, other)
        for line in other.getvalue().splitlines():
            emit("  ! " + line)
        emit("%s own stream now:" % label)
        for line in stream.getvalue().splitlines():
            emit("  | " + line)
    return reporter


def part_b_formats():
    section("B1: format_summary_* on dicts and StatusCounts")
    tables = [
        ("empty", {}),
        ("only-all", {"all": 0}),
        ("all-3-no-parts", {"all": 3}),
        ("passed-1", {"passed": 1}),
        ("passed-0", {"passed": 0}),
        ("passed-2-failed-1", {"passed": 2, "failed": 1}),
        ("no-passed", {"failed": 1, "skipped": 2}),
        ("zeros", dict((s.name, 0) for s in STATUS_ORDER)),
        ("ones", dict((s.name, 1) for s in STATUS_ORDER)),
        ("ones+all", dict([(s.name, 1) for s in STATUS_ORDER] + [("all", 11)])),
        ("all-mismatch", {"all": 1, "passed": 5, "failed": 2}),
        ("all-zero-with-counts", {"all": 0, "passed": 5}),
        ("unknown-keys", {"passed": 1, "cleanup_error": 4, "xfailed": 2, "zzz": 9}),
        ("v1-table", {"all": 7, "passed": 3, "failed": 1, "error": 1,
                      "hook_error": 0, "skipped": 2, "untested": 0}),
        ("step-table", {"all": 12, "passed": 3, "failed": 1, "error": 1,
                        "hook_error": 1, "skipped": 2, "untested": 1,
                        "undefined": 1, "untested_undefined": 0, "pending": 1,
                        "pending_warn": 1, "untested_pending": 0}),
        ("big", {"passed": 12345, "failed": 100, "skipped": 10, "untested": 1}),
        ("status-keys", {Status.passed: 2, Status.failed: 1}),
        ("StatusCounts()", StatusCounts()),
        ("StatusCounts(p3,f1)", StatusCounts.from_counts(passed=3, failed=1)),
        ("HookErrorCounts", HookErrorCounts.from_counts(on_step=2)),
    ]
    funcs = [("v1", format_summary_v1), ("v1A", format_summary_v1A),
             ("v1B", format_summary_v1B), ("v2", format_summary_v2),
             ("v3", format_summary_v3)]
    for table_name, table in tables:
        for statement in ("feature", "step"):
            for func_name, func in funcs:
                attempt("%s(%r, %s)" % (func_name, statement, table_name),
                        func, statement, table)
    emit("-- format_summary_with_schema variations")
    table = {"passed": 2, "failed": 1, "skipped": 0, "untested": 3, "all": 6}
    variations = [
        dict(),
        dict(schema=None, item_schema=None, use_passed_for_all=True),
        dict(schema="{count}|{statement}|{suffix}|{parts}|{end}"),
        dict(item_schema="<{name}={value}>"),
        dict(item_schema="<{name}={value}>", use_passed_for_all=True),
        dict(end=""),
        dict(end="!", use_passed_for_all=True, schema=rsummary.OUTPUT_FORMAT_V3_SCHEMA),
        dict(schema="{bad}"),
        dict(item_schema="{bad}"),
        dict(schema=""),
        dict(item_schema=""),
    ]
    for kwargs in variations:
        attempt("with_schema(%r)" % sorted(kwargs.items()),
                format_summary_with_schema, "scenario", table, **kwargs)
        attempt("with_schema[no-all](%r)" % sorted(kwargs.items()),
                format_summary_with_schema, "scenario",
                {"passed": 1, "failed": 0, "error": 0}, **kwargs)
    attempt("with_schema(None)", format_summary_with_schema, "x", None)
    attempt("v1(None)", format_summary_v1, "x", None)
    attempt("v1(non-int)", format_summary_v1, "x", {"passed": "many"})
    attempt("v2(non-int)", format_summary_v2, "x", {"passed": "many"})
    attempt("v3(str-all)", format_summary_v3, "x", {"all": "n", "passed": 1})
    for name in FORMAT_NAMES + ["", "V1", None, "unknown"]:
        func = attempt("select_format_summary_by_name(%r)" % (name,),
                       lambda n=name: select_format_summary_by_name(n).__name__)
    emit("OUTPUT_FORMAT_MAP = %r" % sorted(
        (k, v.__name__) for k, v in OUTPUT_FORMAT_MAP.items()))
    for data in ({}, {"all": 5}, {"all": 5, "passed": 1, "failed": 2},
                 {"passed": 1, "x": 2.5}):
        attempt("compute_summary_sum(%r)" % sorted(data.items()),
                compute_summary_sum, data)
    attempt("compute_summary_sum(StatusCounts)", compute_summary_sum,
            StatusCounts.from_counts(passed=2, skipped=3))
    attempt("compute_summary_sum(bad)", compute_summary_sum, {"passed": "x"})
    for args in (("word",), ("word", 0), ("word", 1), ("word", 2),
                 ("box", 2, "es"), ("word", -1), ("word", 1.0), ("", 3)):
        attempt("pluralize%r" % (args,), pluralize, *args)


def part_b_counts():
    section("B2: StatusCounts / HookErrorCounts / SummaryCounts")
    counts = StatusCounts()
    emit("StatusCounts() = %r ; all=%r ; bool=%r ; len=%r" %
         (counts, counts.all, bool(counts), len(counts)))
    for status in (Status.passed, Status.passed, Status.failed,
                   Status.untested_undefined, Status.cleanup_error,
                   Status.xfailed, Status.executing):
        attempt("increment(%s)" % status.name, counts.increment, status)
    attempt("increment()", counts.increment)
    attempt("increment(failed, 5)", counts.increment, Status.failed, 5)
    attempt("increment(failed, delta=-2)", counts.increment, Status.failed, delta=-2)
    attempt("increment('passed')", counts.increment, "passed")
    attempt("increment(None)", counts.increment, None)
    attempt("increment(11)", counts.increment, 11)
    emit("counts = %r ; str = %s" % (counts, counts))
    emit("as_dict = %r" % list(counts.as_dict().items()))
    emit("get(all)=%r [all]=%r get(passed)=%r get('passed')=%r get('zzz', 7)=%r" % (
        counts.get("all"), counts["all"], counts.get(Status.passed),
        counts.get("passed"), counts.get("zzz", 7)))
    attempt("counts[Status.unknown]", lambda: counts[Status.unknown])
    attempt("counts['passed']", lambda: counts["passed"])
    emit("'passed' in counts = %r ; Status.passed in counts = %r" % (
        "passed" in counts, Status.passed in counts))
    attempt("StatusCounts({'passed': 2, 'failed': 1})", StatusCounts,
            {"passed": 2, "failed": 1})
    attempt("StatusCounts({Status.error: 2}, skipped=1)", StatusCounts,
            {Status.error: 2}, skipped=1)
    attempt("StatusCounts(passed=3)", StatusCounts, passed=3)
    attempt("StatusCounts({'nope': 2})", StatusCounts, {"nope": 2})
    attempt("StatusCounts({3: 2})", StatusCounts, {3: 2})
    attempt("StatusCounts({None: 2})", StatusCounts, {None: 2})
    attempt("StatusCounts({'passed': 1, 7: 2})", StatusCounts, {"passed": 1, 7: 2})
    data = {"failed": 4}
    attempt("StatusCounts(data, passed=1)", StatusCounts, data, passed=1)
    emit("data after = %r" % sorted(data.items()))
    attempt("from_dict", StatusCounts.from_dict, {"passed": 1, "hook_error": 2})
    attempt("from_dict(bad-key)", StatusCounts.from_dict, {"bad": 1})
    attempt("from_counts(all 12)", StatusCounts.from_counts, 1, 2, 3, 4, 5, 6, 7,
            8, 9, 10, 11, 12)
    a = StatusCounts.from_counts(passed=3, failed=1)
    b = StatusCounts.from_counts(failed=4, skipped=1)
    emit("a == a.copy-like: %r ; a == b: %r ; a != b: %r" % (
        a == StatusCounts.from_counts(passed=3, failed=1), a == b, a != b))
    attempt("a == 3", lambda: a == 3)
    a += b
    emit("a += b -> %r" % (a,))
    a.reset()
    emit("a.reset() -> %r ; bool=%r ; keys=%d" % (a, bool(a), len(a)))
    emit("make_data() = %r" % sorted(
        (k.name, v) for k, v in StatusCounts.make_data().items()))

    hooks = HookErrorCounts()
    emit("HookErrorCounts() = %r ; all=%r ; bool=%r" % (hooks, hooks.all, bool(hooks)))
    for name in ("on_feature", "on_step", "on_step", "on_rule", "on_scenario"):
        attempt("hooks.increment(%s)" % name, hooks.increment, name)
    attempt("hooks.increment(on_step, 3)", hooks.increment, "on_step", 3)
    attempt("hooks.increment(on_nothing)", hooks.increment, "on_nothing")
    attempt("hooks.increment(all)", hooks.increment, "all")
    attempt("hooks.increment(None)", hooks.increment, None)
    emit("hooks = %r ; items=%r ; as_dict=%r ; iter=%r" % (
        hooks, list(hooks.items()), list(hooks.as_dict().items()), list(hooks)))
    emit("hooks.get(all)=%r ['all']=%r get(on_step)=%r get(zz, 5)=%r" % (
        hooks.get("all"), hooks["all"], hooks.get("on_step"), hooks.get("zz", 5)))
    attempt("HookErrorCounts({'on_rule': 2, 'junk': 9}, on_step=1)",
            HookErrorCounts, {"on_rule": 2, "junk": 9}, on_step=1)
    attempt("HookErrorCounts.from_dict(bad)", HookErrorCounts.from_dict, {"junk": 1})
    emit("hooks == same: %r ; hooks == {}: %r ; hooks == 3: %r ; != : %r" % (
        hooks == HookErrorCounts.from_counts(1, 1, 1, 5), hooks == {}, hooks == 3,
        hooks != HookErrorCounts()))

    summary_counts = SummaryCounts()
    emit("SummaryCounts() = %r ; str=%r ; bool=%r ; len=%r" % (
        summary_counts, str(summary_counts), bool(summary_counts),
        len(summary_counts)))
    summary_counts.features.increment(Status.passed)
    summary_counts.scenarios.increment(Status.failed, 2)
    summary_counts.steps.increment(Status.undefined)
    summary_counts.hook_errors.increment("on_rule")
    emit("summary_counts = %r" % (summary_counts,))
    emit("str = %s" % str(summary_counts).replace("\n", " / "))
    emit("as_dict(nested) = %r" % [
        (k, list(v.items())) for k, v in summary_counts.as_dict(nested=True).items()])
    emit("items = %r" % [(k, str(v)) for k, v in summary_counts.items()])
    emit("iter = %r" % [k for k, _ in summary_counts])
    attempt("from_counts(features=StatusCounts)", SummaryCounts.from_counts,
            features=StatusCounts.from_counts(passed=1))
    attempt("from_counts(features=dict)", SummaryCounts.from_counts,
            features={"passed": 1})
    attempt("from_counts(hook_errors=StatusCounts)", SummaryCounts.from_counts,
            hook_errors=StatusCounts())
    attempt("from_counts(junk=1)", SummaryCounts.from_counts, junk=1)
    attempt("from_counts(strict=False, junk=1)", SummaryCounts.from_counts,
            strict=False, junk=1)
    attempt("from_dict({})", SummaryCounts.from_dict, {})
    attempt("== SummaryCounts()", lambda: summary_counts == SummaryCounts())
    attempt("SummaryCounts() == SummaryCounts()",
            lambda: SummaryCounts() == SummaryCounts())
    attempt("== 3", lambda: summary_counts == 3)
    attempt("get('all')", summary_counts.get, "all")
    attempt("get('features')", summary_counts.get, "features")
    attempt("['all']", lambda: summary_counts["all"])


def part_b_visitor():
    section("B3: ModelVisitor traversal and cancellation")
    feature1 = build_model(MODEL_1, "m1.feature")
    feature2 = build_model(MODEL_2, "m2.feature")
    cancels = [
        None,
        {"feature": False},
        {"feature:M1": False},
        {"feature": 0},
        {"feature": ""},
        {"feature": []},
        {"feature": True},
        {"feature": "yes"},
        {"rule:R1": False},
        {"rule": False},
        {"outline": False},
        {"outline:SO2 <n>": 0},
        {"scenario:S1": False},
        {"scenario:SO 2 -- @1.2 ": False},
        {"scenario:SO2 7 -- @1.1 ": False},
        {"scenario": False},
        {"step": False},
        {"step:step 8": False},
        {"step:step four": 0},
        {"step:a background step": ()},
        {"step": 1},
        {"scenario:S2": "", "rule:R2": False},
    ]
    emit("scenario names: %r" % [s.name for s in all_scenarios(feature1)])
    for cancel in cancels:
        recorder = RecordingVisitor(cancel)
        walker = ModelVisitor(recorder)
        result = attempt("visit_many([M1, M2]) cancel=%r" % (cancel,),
                         walker.visit_many, [feature1, feature2])
        emit("   calls(%d): %s" % (len(recorder.calls), " ".join(
            c.replace(" ", "_") for c in recorder.calls)))
    recorder = RecordingVisitor()
    walker = ModelVisitor(recorder)
    rule = [item for item in feature1 if item.__class__.__name__ == "Rule"][0]
    outline = [item for item in feature1
               if item.__class__.__name__ == "ScenarioOutline"][0]
    scenario = list(all_scenarios(feature1))[0]
    step = list(scenario)[0]
    for label, item in (("feature", feature2), ("rule", rule), ("outline", outline),
                        ("scenario", scenario), ("step", step)):
        del recorder.calls[:]
        attempt("visit(%s)" % label, walker.visit, item)
        emit("   calls: %s" % " ".join(c.replace(" ", "_") for c in recorder.calls))
        del recorder.calls[:]
        attempt("walker(%s)" % label, walker, item)
        emit("   calls: %s" % " ".join(c.replace(" ", "_") for c in recorder.calls))
    for label, item in (("list", [feature2, step]), ("tuple", (step, scenario)),
                        ("empty-list", []), ("empty-tuple", ())):
        del recorder.calls[:]
        attempt("walker(%s)" % label, walker, item)
        emit("   calls: %s" % " ".join(c.replace(" ", "_") for c in recorder.calls))
    attempt("visit(None)", walker.visit, None)
    attempt("visit('text')", walker.visit, "text")
    attempt("visit(3)", walker.visit, 3)
    attempt("walker(set)", walker, set())
    attempt("walker(generator)", walker, (x for x in [feature2]))
    attempt("visit_many(generator)", walker.visit_many, (x for x in [step, step]))
    attempt("visit_many([step, None, step])", walker.visit_many, [step, None, step])
    attempt("visit_many(None)", walker.visit_many, None)
    attempt("visit_feature(rule)", walker.visit_feature, rule)
    attempt("visit_rule(feature)", walker.visit_rule, feature2)
    attempt("visit_scenario_outline(scenario)", walker.visit_scenario_outline, scenario)
    attempt("visit_scenario(step)", walker.visit_scenario, step)
    attempt("visit_step(scenario)", walker.visit_step, scenario)
    log = []

    def visit_func(item):
        log.append(item)
        return item != 3 and None
    attempt("visit_many(range(6), visit_func)", walker.visit_many, range(6), visit_func)
    emit("   log: %r" % log)
    del log[:]
    attempt("visit_items_of(range(3), visit_func)", walker.visit_items_of,
            range(3), visit_func)
    emit("   log: %r" % log)
    del log[:]
    attempt("visit_items_of([5,4,3,2], visit_func=)", walker.visit_items_of,
            [5, 4, 3, 2], visit_func=visit_func)
    emit("   log: %r" % log)
    for value in (None, True, False, 0, 1, "", "x", [], [0], 0.0):
        emit("should_continue_visit(%r) = %r" % (
            value, ModelVisitor.should_continue_visit(value)))
    attempt("ModelVisitor(object())", ModelVisitor, object())
    emit("ModelVisitor().visitor is self: %r" % (
        (lambda v: v.visitor is v)(ModelVisitor())))
    plain = ModelVisitor()
    attempt("plain.visit(feature1)", plain.visit, feature1)


def part_b_collector_and_reporters():
    section("B4: SummaryCollector / SummaryReporterV1 / V2 on hand-set models")
    status_sets = [
        ("all-passed", [Status.passed], None, None, None),
        ("mixed-steps", [Status.passed, Status.failed, Status.skipped,
                         Status.undefined, Status.untested, Status.error,
                         Status.pending, Status.pending_warn,
                         Status.untested_pending, Status.untested_undefined,
                         Status.hook_error], None, None, None),
        ("forced-scenarios", [Status.passed, Status.untested],
         [Status.passed, Status.failed, Status.error, Status.hook_error,
          Status.skipped, Status.untested, Status.failed],
         [Status.failed, Status.skipped], Status.failed),
        ("error-feature", [Status.error], [Status.error, Status.hook_error],
         [Status.error, Status.hook_error], Status.error),
        ("untouched", None, None, None, None),
        ("skipped", [Status.skipped], [Status.skipped], [Status.skipped],
         Status.skipped),
        ("hook-error-feature", [Status.untested], [Status.untested],
         [Status.untested, Status.hook_error], Status.hook_error),
        ("undefined-scenarios", [Status.undefined, Status.untested_undefined],
         [Status.undefined, Status.pending, Status.cleanup_error], None, None),
    ]
    for label, steps, scenarios, rules, feature_status in status_sets:
        emit("")
        emit("---- status-set: %s" % label)
        feature1 = build_model(MODEL_1, "m1.feature")
        feature2 = build_model(MODEL_2, "m2.feature")
        if steps:
            set_statuses(feature1, steps, scenarios, rules, feature_status)
            set_statuses(feature2, list(reversed(steps)), scenarios, None, None)
        if label in ("forced-scenarios", "hook-error-feature"):
            feature1.hook_failed = True
            list(all_scenarios(feature1))[2].hook_failed = True
            list(list(all_scenarios(feature1))[3])[0].hook_failed = True
            [i for i in feature1 if i.__class__.__name__ == "Rule"][1].hook_failed = True
        features = [feature1, feature2]
        emit("statuses: features=%r scenarios=%r" % (
            [f.status.name for f in features],
            [s.status.name for f in features for s in all_scenarios(f)]))

        collector = SummaryCollector()
        attempt("collector.visit_many", collector.visit_many, features)
        for name, counts in collector.summary_counts.items():
            emit("collector.%s = %s" % (name, counts))
        emit("collector.steps.as_dict = %r" % list(
            collector.summary_counts.steps.as_dict().items()))
        emit("collector lists: ff=%r fs=%r ef=%r es=%r pf=%r ps=%r hfe=%r" % (
            [x.name for x in collector.failed_features],
            [x.name for x in collector.failed_scenarios],
            [x.name for x in collector.errored_features],
            [x.name for x in collector.errored_scenarios],
            [x.name for x in collector.pending_features],
            [x.name for x in collector.pending_scenarios],
            collector.has_failures_or_errors()))
        # -- SECOND PASS: counts accumulate.
        attempt("collector(features) again", collector, features)
        emit("collector.scenarios(2x) = %s ; failed_scenarios=%d" % (
            collector.summary_counts.scenarios, len(collector.failed_scenarios)))
        attempt("collector.reset()", collector.reset)
        shared = SummaryCounts()
        c1 = SummaryCollector(shared)
        c1.visit_feature(feature2)
        c1.visit_scenario(list(all_scenarios(feature1))[0])
        c1.visit_step(list(list(all_scenarios(feature1))[0])[0])
        emit("shared = %r" % (shared,))

        for output_format in FORMAT_NAMES + [None]:
            run_reporter("V1[%s]" % output_format, SummaryReporterV1, features,
                         output_format, with_stream=(output_format == "v2"))
        run_reporter("V1[no-failed-list]", SummaryReporterV1, features, "v3",
                     show_failed=False)
        for output_format in ("v1", "v1B", "v3", None):
            run_reporter("V2[%s]" % output_format, SummaryReporterV2, features,
                         output_format)

    emit("")
    emit("---- statuses that are missing from the v1 tables")
    for bad_status in (Status.xfailed, Status.cleanup_error, Status.executing,
                       Status.unknown, Status.undefined, Status.pending):
        for level in ("step", "scenario", "rule", "feature"):
            feature1 = build_model(MODEL_1, "m1.feature")
            set_statuses(feature1, [Status.passed, Status.failed])
            scenarios = list(all_scenarios(feature1))
            if level == "step":
                list(scenarios[3])[1].set_status(bad_status)
            elif level == "scenario":
                scenarios[3].set_status(bad_status)
            elif level == "rule":
                [i for i in feature1
                 if i.__class__.__name__ == "Rule"][0].set_status(bad_status)
            else:
                feature1.set_status(bad_status)
            label = "V1[%s@%s]" % (bad_status.name, level)
            run_reporter(label, SummaryReporterV1, [feature1], "v2")
            collector = SummaryCollector()
            attempt("collector[%s@%s]" % (bad_status.name, level),
                    collector.visit, feature1)
            emit("   %s" % str(collector.summary_counts).replace("\n", " / "))
            emit("   failed=%r errored=%r" % (
                [s.name for s in collector.failed_scenarios],
                [s.name for s in collector.errored_scenarios]))

    emit("")
    emit("---- reporter odds and ends")
    emit("SummaryReporter is SummaryReporterV1: %r" % (
        SummaryReporter is SummaryReporterV1))
    reporter = SummaryReporterV1(Config())
    reporter.stream = io.StringIO()
    reporter.duration = 0
    attempt("empty reporter.end()", reporter.end)
    emit(reporter.stream.getvalue())
    reporter.show_rules = False
    feature1 = build_model(MODEL_1, "m1.feature")
    set_statuses(feature1, [Status.passed])
    reporter.feature(feature1)
    reporter.feature(feature1)
    reporter.stream = io.StringIO()
    reporter.duration = 3599.99
    attempt("reporter.end() show_rules=False", reporter.end)
    emit(reporter.stream.getvalue())
    attempt("process_run_items_for([])", reporter.process_run_items_for, [])
    attempt("process_run_items_for(None)", reporter.process_run_items_for, None)
    attempt("process_scenario_outline(outline)", reporter.process_scenario_outline,
            [i for i in feature1 if i.__class__.__name__ == "ScenarioOutline"][0])
    attempt("process_rule(rule)", reporter.process_rule,
            [i for i in feature1 if i.__class__.__name__ == "Rule"][0])
    attempt("on_scenario(scenario)", reporter.on_scenario,
            list(all_scenarios(feature1))[0])
    attempt("compute_summary_sums()", reporter.compute_summary_sums)
    show_reporter("twice", reporter)


def main():
    part_a()
    part_b_formats()
    part_b_counts()
    part_b_visitor()
    part_b_collector_and_reporters()
    return 0


if __name__ == "__main__":
    sys.exit(main())
