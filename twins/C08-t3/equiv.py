# -*- coding: utf-8 -*-
"""
Equivalence transcript for twin C08-t3
(_select_tag_expression_parser4auto in behave/tag_expression/builder.py).

Exercises dialect auto-detection: which dialect is chosen for pure v1, pure v2
and mixed texts/sequences, the rejection errors (type, args, message), the
evaluation results, and the end-to-end path "python -m behave --tags=...".
"""
from __future__ import print_function
import os
import shutil
import subprocess
import sys
import tempfile
sys.path.insert(0, "/tmp/wtT/C08")

from behave.tag_expression import builder
from behave.tag_expression.builder import (
    TagExpressionProtocol, make_tag_expression
)

ELEMENT_TAGS = [
    [], ["foo"], ["bar"], ["foo", "bar"], ["baz"], ["foo.x"], ["android"],
    ["not"], ["foo", "baz"], ["a"], ["a", "b"],
]


def describe(expr):
    return "%s.%s str=%r check=%s" % (
        expr.__class__.__module__, expr.__class__.__name__, str(expr),
        "".join("1" if expr.check(tags) else "0" for tags in ELEMENT_TAGS))


INPUTS = [
    # -- PURE V1
    "@foo", "foo", "-@foo", "~@foo", "-foo", "~foo", "@foo @bar", "foo bar",
    "@foo,@bar", "foo,bar", "~@foo,@bar", "-foo -bar", "@foo,~@bar -baz",
    "@foo:2,@bar:3", "@foo , @bar", ",", "-", "~", "a-b", "a~b", "@a-b @c~d",
    # -- PURE V2
    "not @foo", "@foo and @bar", "@foo or @bar", "not foo and not bar",
    "(@foo)", "(foo or bar) and not baz", "not (foo or bar)", "not(foo)",
    "(foo)and(bar)", "foo.*", "not foo.*", "*.x or bar", "fo?", "[ab]",
    "foo and", "and", "or", "not", "(", ")", "()", "foo )",
    # -- KEYWORD-CONTAINING TAG NAMES
    "android", "nothing", "orange", "@android @nothing", "android,orange",
    "-android", "~nothing", "-not", "-and", "not-foo", "not -foo",
    # -- MIXED (old NOT-PREFIX with new operators)
    "~@foo and @bar", "-@foo or @bar", "not ~@foo", "not -foo", "(~@foo)",
    "(-foo)", "~foo.*", "-fo?", "-(foo)", "~(foo or bar)", "foo and -bar",
    "@foo,@bar and baz", "foo,bar or baz", "foo, not bar",
    # -- BOUNDARY
    "", " ", "  @foo  ", "@foo\t@bar", "@foo\n-@bar", u"@\xe4\xf6", u"~@\xe4\xf6",
    u"not @\xe4\xf6",
    # -- SEQUENCES
    [], (), ["@foo"], ("@foo",), ["@foo", "@bar"], ("-@foo", "@bar,@baz"),
    ["~@foo"], ["not @foo"], ["@foo", "not @bar"], ["-@foo", "not @bar"],
    ["@foo and @bar", "baz"], ["(foo)", "bar"], ["foo.*", "bar"], ["~foo.*"],
    ["@foo,@bar", "@baz or @a"], [""], ["", ""], ["@foo", ""],
    # -- WRONG TYPES
    None, 3, 1.5, {"@foo"}, {"a": 1}, b"@foo", ["@foo", None], [3], (b"@foo",),
    object,
]

print("== auto-detect: selected parser")
for value in INPUTS:
    try:
        parser = builder._select_tag_expression_parser4auto(value)
        print("%r -> %s" % (value, parser.__name__))
    except Exception as e:  # pylint: disable=broad-except
        print("%r -> EXC %s args=%r str=%s" % (
            value, e.__class__.__name__, e.args, e))

print("== parse with protocols")
for protocol in TagExpressionProtocol:
    for value in INPUTS:
        value_copy = list(value) if isinstance(value, list) else value
        try:
            outcome = describe(protocol.parse(value))
        except Exception as e:  # pylint: disable=broad-except
            outcome = "EXC %s: %s" % (e.__class__.__name__, e)
        unchanged = (value == value_copy)
        print("%s %r -> %s%s" % (protocol.name, value, outcome,
                                 "" if unchanged else " INPUT-MUTATED"))

print("== make_tag_expression with current protocol")
for name in ("auto_detect", "v1", "v2", "strict", "AUTO_DETECT"):
    try:
        TagExpressionProtocol.use(name)
    except Exception as e:  # pylint: disable=broad-except
        print("use(%r) -> EXC %s: %s" % (name, e.__class__.__name__, e))
        continue
    print("use(%r) current=%s" % (name, TagExpressionProtocol.current().name))
    for value in ["@foo", "~@foo", "@foo,@bar", "@foo @bar", "not @foo",
                  "~@foo and @bar", ["-@foo", "@bar"], ["@foo", "not @bar"]]:
        try:
            outcome = describe(make_tag_expression(value))
        except Exception as e:  # pylint: disable=broad-except
            outcome = "EXC %s: %s" % (e.__class__.__name__, e)
        print("  %r -> %s" % (value, outcome))
TagExpressionProtocol.use("auto_detect")

print("== repeated calls are independent")
for _ in range(2):
    for value in ("~@foo", "not @foo", "@foo,@bar", "~@foo and bar"):
        try:
            print(value, "->", builder._select_tag_expression_parser4auto(value).__name__)
        except Exception as e:  # pylint: disable=broad-except
            print(value, "-> EXC", e.__class__.__name__, e)

# -- END-TO-END: behave --tags with auto-detection (and configured protocols)
print("== behave --tags")
FEATURE = u"""\
Feature: F
  @foo
  Scenario: S_foo
    Given a step
  @bar
  Scenario: S_bar
    Given a step
  @foo @bar
  Scenario: S_foo_bar
    Given a step
  @android
  Scenario: S_android
    Given a step
  Scenario: S_none
    Given a step
"""
STEPS = u"""\
from behave import given
@given(u"a step")
def step_impl(ctx):
    pass
"""
workdir = tempfile.mkdtemp(prefix="c08t3_")
try:
    os.makedirs(os.path.join(workdir, "features", "steps"))
    with open(os.path.join(workdir, "features", "f.feature"), "w") as f:
        f.write(FEATURE)
    with open(os.path.join(workdir, "features", "steps", "steps.py"), "w") as f:
        f.write(STEPS)
    env = dict(os.environ, PYTHONPATH="/tmp/wtT/C08", PYTHONDONTWRITEBYTECODE="1")
    TAG_ARGS = [
        ["--tags=@foo"], ["--tags=~@foo"], ["--tags=@foo,@bar"],
        ["--tags=@foo", "--tags=@bar"], ["--tags=-@foo", "--tags=~@bar"],
        ["--tags=@android"], ["--tags=-android"], ["--tags=android,foo"],
        ["--tags=not @foo"], ["--tags=@foo and not @bar"], ["--tags=(foo or android)"],
        ["--tags=@foo", "--tags=not @bar"], ["--tags=fo*"],
        ["--tags=~@foo and @bar"], ["--tags=-@foo", "--tags=not @bar"], ["--tags=~fo*"],
    ]
    for protocol in (None, "v1", "v2"):
        ini = os.path.join(workdir, "behave.ini")
        if protocol:
            with open(ini, "w") as f:
                f.write("[behave]\ntag_expression_protocol = %s\n" % protocol)
        for tag_args in TAG_ARGS:
            cmd = [sys.executable, "-m", "behave", "-f", "plain", "--no-timings",
                   "--no-skipped", "--no-color"] + tag_args + ["features"]
            proc = subprocess.Popen(cmd, cwd=workdir, env=env,
                                    stdout=subprocess.PIPE, stderr=subprocess.STDOUT)
            output = proc.communicate()[0].decode("utf-8")
            lines = [line.strip() for line in output.splitlines()]
            selected = [line[len("Scenario: "):] for line in lines
                        if line.startswith("Scenario:")]
            summary = [line for line in lines
                       if ("scenario" in line and " passed, " in line) or "Error" in line]
            print("protocol=%s %r rc=%s selected=%r %r" % (
                protocol, tag_args, proc.returncode, selected, summary))
finally:
    shutil.rmtree(workdir, ignore_errors=True)
