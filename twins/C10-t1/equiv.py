# -*- coding: UTF-8 -*-
"""
Equivalence transcript for property C10 (file-location and name selection).

Exercises behave.runner_util / behave.model / behave.configuration of the
worktree /tmp/wtT/C10 through their public behaviour and prints a canonical
transcript (no temp paths, no timings, no object ids).
"""
from __future__ import absolute_import, print_function
import os
import re
import shutil
import subprocess
import sys
import tempfile

WORKTREE = "/tmp/wtT/C10"
sys.path.insert(0, WORKTREE)

from behave.configuration import Configuration          # noqa: E402
from behave.model import Feature, Rule, ScenarioOutline, Scenario  # noqa: E402
from behave.model_core import FileLocation              # noqa: E402
from behave import runner_util                          # noqa: E402
from behave.runner_util import (                         # noqa: E402
    FileLocationParser, FeatureLineDatabase, FeatureListParser,
    FeatureScenarioLocationCollector, FeatureScenarioLocationCollector1,
    FeatureScenarioLocationCollector2, parse_features,
    collect_feature_locations,
)

assert runner_util.__file__.startswith(WORKTREE), runner_util.__file__

ALICE = u"""\
@feature_tag
Feature: Alice

  Background: Common
    Given a step passes

  Scenario: A1 first
    Given a step passes

  @setup
  Scenario: A2 setup
    Given a step passes

  @wip
  Scenario Outline: A3 outline <name>
    Given a step passes with "<name>"

    Examples: Good
      | name  |
      | alpha |
      | beta  |

    @extra
    Examples: Other
      | name  |
      | gamma |

  @teardown
  Scenario: A4 teardown
    Given a step passes

  Rule: R1 rule

    Scenario: A5 in rule
      Given a step passes
      When another step passes

    Scenario Outline: A6 rule outline <n>
      Given a step passes with "<n>"

      Examples:
        | n |
        | 1 |
        | 2 |

  Rule: R2 empty rule
"""

BOB = u"""\
Feature: Bob
  Scenario: B1 only
    Given a step passes
  Scenario: B2 second
    Given a step passes
    Then another step passes
"""

EMPTY = u"""\
# -- no feature in here
"""

STEPS = u"""\
from behave import step

@step(u'a step passes')
def step_passes(ctx):
    pass

@step(u'another step passes')
def step_passes2(ctx):
    pass

@step(u'a step passes with "{name}"')
def step_passes_with(ctx, name):
    pass
"""

ENVIRONMENT = u"""\
from __future__ import print_function

def before_feature(ctx, feature):
    print("HOOK before_feature: %s" % feature.name)

def after_feature(ctx, feature):
    print("HOOK after_feature: %s" % feature.name)

def before_rule(ctx, rule):
    print("HOOK before_rule: %s" % rule.name)

def after_rule(ctx, rule):
    print("HOOK after_rule: %s" % rule.name)

def before_scenario(ctx, scenario):
    print("HOOK before_scenario: %s" % scenario.name)

def after_scenario(ctx, scenario):
    print("HOOK after_scenario: %s status=%s" % (scenario.name, scenario.status.name))
"""


def write(path, text):
    dirname = os.path.dirname(path)
    if dirname and not os.path.isdir(dirname):
        os.makedirs(dirname)
    with open(path, "w") as f:
        f.write(text)


def describe(entity):
    if entity is None:
        return "None"
    return "%s(%r @%s)" % (type(entity).__name__, entity.name,
                           entity.location.line)


def call(func, *args, **kwargs):
    """Call func; return ("ok", result) or ("raise", description)."""
    try:
        return ("ok", func(*args, **kwargs))
    except BaseException as e:  # pylint: disable=broad-except
        text = str(e).replace(os.getcwd(), "<CWD>")
        return ("raise", "%s: %s" % (type(e).__name__, text))


def show_feature_selection(feature):
    if feature is None:
        print("    feature: None")
        return
    print("    feature: %s should_skip=%s" % (describe(feature),
                                                 feature.should_skip))
    for item in feature.walk_scenarios(with_outlines=True, with_rules=True):
        should_skip = getattr(item, "should_skip", "-")
        status = item.status.name
        print("      %-50s skip=%-5s status=%s" % (describe(item), should_skip,
                                                  status))


def loc_text(loc):
    if isinstance(loc, FileLocation):
        return "FileLocation(%r, %r)" % (loc.filename.replace(os.sep, "/"),
                                         loc.line)
    return repr(loc)


# ---------------------------------------------------------------------------
# SECTIONS
# ---------------------------------------------------------------------------
def section_file_location_parser():
    print("== FileLocationParser.parse")
    texts = [
        "features/alice.feature", "features/alice.feature:10",
        "  features/alice.feature:3  ", "features/alice.feature:0",
        "features/alice.feature:", "features/alice.feature:x1",
        "C:\\x\\alice.feature:12", "a:b:7", ":5", "", "  ", "x.feature:007",
        "x.feature: 7", "x.feature :7", u"caf\xe9.feature:4", "x.feature:-3",
    ]
    for text in texts:
        kind, result = call(FileLocationParser.parse, text)
        if kind == "ok":
            print("  %r -> filename=%r line=%r" % (text, result.filename,
                                                   result.line))
        else:
            print("  %r -> %s" % (text, result))


def section_line_database(feature, max_line):
    print("== FeatureLineDatabase (feature)")
    db = FeatureLineDatabase.make(feature)
    print("  data.keys = %r" % (list(db.data.keys()),))
    print("  data.vals = %s" % ", ".join(describe(x) for x in db.data.values()))
    print("  cache before: %r %r" % (db._line_numbers, db._line_entities))
    for line in [-5, -1] + list(range(0, max_line + 4)) + [10 ** 6]:
        item = db.select_run_item_by_line(line)
        scenarios = db.select_scenarios_by_line(line)
        print("  line %3d: item=%s -> %s" % (
            line, describe(item),
            "[" + ", ".join(describe(s) for s in scenarios) + "]"))
        assert isinstance(scenarios, list)
    print("  cache after: %r / %s" % (
        db._line_numbers, ", ".join(describe(x) for x in db._line_entities)))

    print("== FeatureLineDatabase (ctor variants)")
    db2 = FeatureLineDatabase(feature)
    print("  ctor(entity).keys == make(entity).keys: %s" %
          (list(db2.data.keys()) == list(db.data.keys())))
    db3 = FeatureLineDatabase()
    print("  empty: data=%r" % (list(db3.data.items()),))
    print("  empty.select_run_item_by_line(3): %r" %
          (call(db3.select_run_item_by_line, 3),))
    print("  empty.select_scenarios_by_line(3): %r" %
          (call(db3.select_scenarios_by_line, 3),))
    db4 = FeatureLineDatabase(line_data=[(4, "four"), (9, None), (12, 12)])
    for line in (0, 4, 5, 9, 10, 12, 13):
        print("  custom line %2d: item=%r scenarios=%r" % (
            line, call(db4.select_run_item_by_line, line),
            call(db4.select_scenarios_by_line, line)))

    print("== FeatureLineDatabase (sub-entities)")
    entities = list(feature.walk_scenarios(with_outlines=True, with_rules=True))
    for entity in entities:
        if not isinstance(entity, (Rule, ScenarioOutline)) and \
                entity is not entities[0]:
            continue
        sub_db = FeatureLineDatabase.make(entity)
        print("  %s: keys=%r" % (describe(entity), list(sub_db.data.keys())))
        first = entity.location.line
        for line in (0, first - 1, first, first + 1, first + 6, max_line + 1):
            scenarios = sub_db.select_scenarios_by_line(line)
            print("    line %3d: item=%s -> [%s]" % (
                line, describe(sub_db.select_run_item_by_line(line)),
                ", ".join(describe(s) for s in scenarios)))


def section_parse_features(max_line):
    print("== parse_features")
    alice = os.path.join("features", "alice.feature")
    bob = os.path.join("features", "bob.feature")
    empty = os.path.join("features", "empty.feature")
    cases = []
    cases.append([alice])
    cases.append([FileLocation(alice)])
    cases.append([FileLocation(alice, 0)])
    for line in range(1, max_line + 3):
        cases.append([FileLocation(alice, line)])
    cases.append([FileLocation(alice, 7), FileLocation(alice, 31)])
    cases.append([FileLocation(alice, 31), FileLocation(alice, 7)])
    cases.append([FileLocation(alice, 20), FileLocation(alice, 21),
                  FileLocation(alice, 46)])
    cases.append([FileLocation(alice, 7), FileLocation(alice)])
    cases.append([FileLocation(alice), FileLocation(alice, 7)])
    cases.append([FileLocation(alice, 7), FileLocation(alice, 0)])
    cases.append([FileLocation(alice, 7), FileLocation(bob, 4),
                  FileLocation(alice, 31)])
    cases.append([FileLocation(alice, 7), bob])
    cases.append([bob, "features/../features/bob.feature"])
    cases.append([FileLocation(bob, 2), FileLocation(bob, 4)])
    cases.append([FileLocation(empty, 1), FileLocation(bob, 2)])
    cases.append([FileLocation(empty), FileLocation(empty, 3),
                  FileLocation(alice, 36)])
    cases.append([FileLocation(alice, 36), FileLocation(empty, 3),
                  FileLocation(alice, 7)])
    cases.append([])
    cases.append([42])
    cases.append([FileLocation(alice, 7), None])
    cases.append(["features/missing.feature"])
    cases.append([FileLocation(alice, 7),
                  FileLocation("features/missing.feature", 3)])
    for case in cases:
        print("  locations: [%s]" % ", ".join(loc_text(x) for x in case))
        kind, result = call(parse_features, case)
        if kind == "raise":
            print("    -> %s" % result)
            continue
        print("    -> %d feature(s)" % len(result))
        for feature in result:
            show_feature_selection(feature)
    print("  language=de: %r" % (call(parse_features, [bob], language="de"),))
    print("  language=en: %r" % (
        [describe(f) for f in parse_features([bob], language="en")],))


def section_collectors(max_line):
    print("== FeatureScenarioLocationCollector variants")
    alice = os.path.join("features", "alice.feature")
    collectors = [FeatureScenarioLocationCollector,
                  FeatureScenarioLocationCollector1,
                  FeatureScenarioLocationCollector2]
    line_sets = [[], [0], [7], [8], [11], [3], [7, 31], [15, 21], [46, 47],
                 [max_line + 5], [7, 0]]
    for collector_class in collectors:
        print("  class %s" % collector_class.__name__)
        for lines in line_sets:
            feature = parse_features([alice])[0]
            collector = collector_class(feature)
            for line in lines:
                collector.add_location(FileLocation(alice, line))
            print("    lines=%r use_all=%s scenario_lines=%r filename=%r" % (
                lines, collector.use_all_scenarios,
                sorted(collector.scenario_lines),
                (collector.filename or "").replace(os.sep, "/") or None))
            kind, result = call(collector.build_feature)
            if kind == "raise":
                print("      -> %s" % result)
                continue
            print("      same feature: %s" % (result is feature))
            print("      selected: %r" % sorted(
                (s.line, s.name) for s in collector.selected_scenarios))
            print("      skipped : %r" % sorted(
                s.line for s in feature.walk_scenarios() if s.should_skip))
            print("      scenario_lines after: %r" %
                  sorted(collector.scenario_lines))
        # -- STRICT MODE and other corner cases
        feature = parse_features([alice])[0]
        collector = collector_class(feature, FileLocation(alice, 8))
        print("    strict(8): %r" % (call(
            lambda: sorted(s.line for s in
                           collector.discover_selected_scenarios(strict=True))),))
        collector = collector_class()
        print("    no feature: build_feature=%r" % (call(collector.build_feature),))
        collector = collector_class(location=FileLocation(alice, 8))
        print("    no feature + location: filename=%r build_feature=%r" % (
            collector.filename.replace(os.sep, "/"),
            call(collector.build_feature)))
        print("    mismatch: %r" % (call(
            collector.add_location, FileLocation("other.feature", 1)),))
        collector.clear()
        print("    cleared: %r %r %r %r" % (
            collector.feature, collector.filename,
            collector.use_all_scenarios, sorted(collector.scenario_lines)))
        print("    select_scenario_line_for: %r" % (
            [collector_class.select_scenario_line_for(x, [3, 7, 9])
             for x in (0, 2, 3, 4, 7, 8, 9, 99)] +
            [collector_class.select_scenario_line_for(5, [])],))


def section_feature_list_parser():
    print("== FeatureListParser")
    text = u"""\
# -- comment line
features/alice.feature
  features/alice.feature:7

   # indented comment
features/bob.feature:4
features/*.feature
features/[ab]*.feature:3
features/nothing_*.feature
/abs/path/x.feature:9
sub/../features/bob.feature
"""
    for here in (None, "", ".", "lists"):
        print("  here=%r" % (here,))
        kind, result = call(FeatureListParser.parse, text, here)
        if kind == "raise":
            print("    -> %s" % result)
            continue
        for loc in result:
            print("    %s" % loc_text(loc))
    print("  empty text: %r" % (FeatureListParser.parse(u""),))
    for listfile in ("lists/all.txt", "@lists/all.txt", "top.txt",
                     "@top.txt", "lists/missing.txt", "@@top.txt"):
        kind, result = call(FeatureListParser.parse_file, listfile)
        if kind == "raise":
            print("  parse_file(%r) -> %s" % (listfile, result))
        else:
            print("  parse_file(%r) -> [%s]" % (
                listfile, ", ".join(loc_text(x) for x in result)))
    print("== collect_feature_locations")
    for paths in (["features"], ["features/alice.feature:7"],
                  ["@lists/all.txt"], ["features/bob.feature", "@top.txt"],
                  ["features/missing.feature:3"], ["features/readme.txt"],
                  ["features/alice.feature:7", "features/alice.feature:31"]):
        for strict in (True, False):
            kind, result = call(collect_feature_locations, paths, strict)
            if kind == "raise":
                print("  %r strict=%s -> %s" % (paths, strict, result))
            else:
                print("  %r strict=%s -> [%s]" % (
                    paths, strict, ", ".join(loc_text(x) for x in result)))


def section_name_select():
    print("== name selection (model level)")
    alice = os.path.join("features", "alice.feature")
    name_args = [
        [],
        ["--name", "A1"],
        ["--name", "first", "--name", "teardown"],
        ["--name", "alpha"],
        ["--name", "A3 outline"],
        ["--name", "^A5 in rule$"],
        ["--name", "A[26]"],
        ["--name", "nothing matches this"],
        ["--name", "rule outline 2", "--name", "gamma"],
        ["--name", ""],
        ["--name", "a1"],
        ["--name", "Good"],
        ["--name", u"caf\xe9|A1"],
    ]
    for args in name_args:
        config = Configuration(command_args=args + ["--no-color"],
                               load_config=False)
        name_re = config.name_re
        print("  args=%r name=%r name_re=%s" % (
            args, config.name,
            None if name_re is None else (name_re.pattern, name_re.flags)))
        feature = parse_features([alice])[0]
        for item in feature.walk_scenarios(with_outlines=True):
            result = item.should_run_with_name_select(config)
            should_run = item.should_run(config)
            print("    %-45s name_select=%s/%s should_run=%s/%s" % (
                describe(item), type(result).__name__, bool(result),
                type(should_run).__name__, bool(should_run)))
    print("  build_name_re:")
    for names in (["a"], ["a", "b"], [u"\xe4", "x.y"], [], ["(", "b"],
                  [b"bytes", u"text"]):
        kind, result = call(Configuration.build_name_re, names)
        if kind == "ok":
            result = (result.pattern, result.flags)
        print("    %r -> %s %r" % (names, kind, result))


def run_behave(args):
    env = dict(os.environ)
    env["PYTHONPATH"] = WORKTREE
    env["PYTHONDONTWRITEBYTECODE"] = "1"
    env.pop("BEHAVE_ARGS", None)
    command = [sys.executable, "-m", "behave", "-f", "plain", "--no-color",
               "--no-timings", "--no-capture"] + args
    proc = subprocess.Popen(command, env=env, stdout=subprocess.PIPE,
                            stderr=subprocess.STDOUT, universal_newlines=True)
    output = proc.communicate()[0]
    output = output.replace(os.getcwd(), "<CWD>")
    output = re.sub(r"Took \d+min \d+\.\d+s", "Took <T>", output)
    output = re.sub(r"Took \d+m\d+\.\d+s", "Took <T>", output)
    output = re.sub(r"Took \d+\.\d+s", "Took <T>", output)
    output = re.sub(r'"duration": [-+.e\d]+', '"duration": "<T>"', output)
    print("  $ behave %s  (rc=%d)" % (" ".join(args), proc.returncode))
    for line in output.splitlines():
        print("    | %s" % line.rstrip())


def section_behave_runs():
    print("== behave runs (subprocess)")
    runs = [
        ["features/alice.feature"],
        ["features/alice.feature:0"],
        ["features/alice.feature:7"],
        ["features/alice.feature:9"],
        ["features/alice.feature:15"],
        ["features/alice.feature:21"],
        ["features/alice.feature:22"],
        ["features/alice.feature:33"],
        ["features/alice.feature:41"],
        ["features/alice.feature:7", "features/alice.feature:46"],
        ["features/alice.feature:7", "features/bob.feature:4",
         "features/alice.feature:31"],
        ["@lists/all.txt"],
        ["@top.txt"],
        ["--name", "A1", "features/alice.feature"],
        ["--name", "alpha", "--name", "B2", "features"],
        ["--name", "rule", "features/alice.feature:33"],
        ["--name", "no such name", "features/alice.feature"],
        ["--name", "gamma", "--show-skipped", "features/alice.feature:15"],
        ["--dry-run", "features/alice.feature:38"],
        ["-f", "json", "--name", "A5", "features/alice.feature"],
    ]
    for args in runs:
        run_behave(args)


def main():
    workdir = tempfile.mkdtemp(prefix="c10_equiv_")
    old_cwd = os.getcwd()
    try:
        workdir = os.path.realpath(workdir)
        os.chdir(workdir)
        write("features/alice.feature", ALICE)
        write("features/bob.feature", BOB)
        write("features/empty.feature", EMPTY)
        write("features/readme.txt", u"not a feature\n")
        write("features/steps/steps.py", STEPS)
        write("features/environment.py", ENVIRONMENT)
        write("lists/all.txt", u"# list\n../features/alice.feature:7\n"
                               u"../features/alice.feature:21\n\n"
                               u"../features/b*.feature\n")
        write("top.txt", u"features/bob.feature:2\nfeatures/alice.feature:33\n"
                         u"features/bob.feature:4\n")
        max_line = len(ALICE.splitlines())
        print("alice.feature lines:")
        for number, text in enumerate(ALICE.splitlines(), 1):
            print("  %2d: %s" % (number, text))

        section_file_location_parser()
        feature = parse_features([os.path.join("features", "alice.feature")])[0]
        section_line_database(feature, max_line)
        section_parse_features(max_line)
        section_collectors(max_line)
        section_feature_list_parser()
        section_name_select()
        section_behave_runs()
    finally:
        os.chdir(old_cwd)
        shutil.rmtree(workdir, ignore_errors=True)


if __name__ == "__main__":
    main()
