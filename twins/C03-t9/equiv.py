# -*- coding: UTF-8 -*-
"""
Equivalence transcript for silent twin C03-t9 (property C03: status roll-up).
FOCUS: ScenarioContainer.compute_status (behave/model.py)

Prints a canonical transcript of observed statuses / exceptions / call logs:
  * model level (in-process): exhaustive over the Status enumeration and all
    child-status tuples up to length 3 for Feature/Rule, ScenarioOutline and
    Scenario (incl. how often each child's status is read), the status cache
    of TagAndStatusStatement, a parsed feature>rule>outline>scenario tree,
    scenario auto-retry;
  * real runs (subprocess per run) of a small behave project with --stop,
    --dry-run, tag/name de-selection, abort, hook errors in every hook,
    skip from hooks/steps, auto-retry, --wip.
USAGE: /venv/bin/python equiv.py > transcript.txt
"""
from __future__ import print_function
import sys
sys.path.insert(0, "/tmp/wtV/C03")

# ---------------------------------------------------------------------------
# MODEL-LEVEL PART: in-process, exhaustive over the status enumeration.
# ---------------------------------------------------------------------------
import itertools
from behave.model_core import Status, OuterStatus, ScenarioStatus, \
    TagAndStatusStatement
from behave.model import Feature, Rule, Scenario, ScenarioOutline, Step, \
    Background, Examples, Table
from behave.parser import parse_feature
from behave.contrib.scenario_autoretry import patch_scenario_with_autoretry

ALL = list(Status)
ABBREV = dict((s, "%02d" % s.value) for s in ALL)


def describe_call(func, *args, **kwargs):
    try:
        result = func(*args, **kwargs)
    except BaseException as e:     # noqa
        return "RAISED %s: %s" % (e.__class__.__name__, e)
    if isinstance(result, Status):
        return "Status.%s" % result.name
    return repr(result)


class Child(object):
    """Stand-in for a contained model element: counts reads of .status"""
    def __init__(self, status):
        self._status = status
        self.reads = 0

    @property
    def status(self):
        self.reads += 1
        return self._status


class CountingStep(Step):
    """Real step whose .status reads are counted."""
    def __init__(self, *args, **kwargs):
        self.reads = 0
        super(CountingStep, self).__init__(*args, **kwargs)

    @property
    def status(self):
        self.reads += 1
        return self._status

    @status.setter
    def status(self, value):
        self._status = value


def section_status_enum(out):
    out("#" * 70)
    out("SECTION status-enum")
    for s in ALL:
        out("%-18s value=%-2d passed=%s failure=%s error=%s untested=%s "
            "pending=%s undefined=%s final=%s has_failed=%s norm=%s hash=%s" % (
                s.name, s.value, s.is_passed(), s.is_failure(), s.is_error(),
                s.is_untested(), s.is_pending(), s.is_undefined(),
                s.is_final(), s.has_failed(), s.normalized_name, hash(s)))
        classes = [name for name, flag in [
            ("passed-like", s.is_passed()), ("failure", s.is_failure()),
            ("error", s.is_error()), ("skipped", s is Status.skipped),
            ("untested", s.is_untested())] if flag]
        out("    classes=%s" % classes)
        out("    outer=%s" % describe_call(OuterStatus.from_inner_status, s))
        out("    scenario_from_step=%s / dry=%s" % (
            describe_call(ScenarioStatus.from_step_status, s),
            describe_call(ScenarioStatus.from_step_status, s, dry_run=True)))
        out("    v0=%s" % describe_call(s.to_status_v0))
        out("    eq-name=%s eq-other=%s ne-name=%s from_name=%s" % (
            s == s.name, s == "zzz", s != s.name,
            describe_call(Status.from_name, s.name)))
    out("from_name(bogus)=%s" % describe_call(Status.from_name, "bogus"))
    out("outer(str)=%s" % describe_call(OuterStatus.from_inner_status, "passed"))


def tuples_upto(n, values=ALL):
    for length in range(0, n + 1):
        for combo in itertools.product(values, repeat=length):
            yield combo


def run_container(cls, combo, hook_failed, compact=False):
    if cls is Feature:
        container = Feature("x.feature", 1, u"Feature", u"F")
    else:
        container = Rule("x.feature", 1, u"Rule", u"R")
    children = [Child(s) for s in combo]
    container.run_items = children
    container.hook_failed = hook_failed
    computed = container.compute_status()
    reads1 = "".join(str(c.reads) for c in children)
    via_property = container.status
    again = container.status
    reads2 = "".join(str(c.reads) for c in children)
    if compact:
        return "%s%s%s/%s" % (ABBREV[computed], ABBREV[via_property],
                              ABBREV[again], reads2)
    return "%s/%s/%s r=%s,%s" % (computed.name, via_property.name, again.name,
                                 reads1, reads2)


def section_container(out):
    out("#" * 70)
    out("SECTION container compute_status (Feature, Rule) exhaustive len<=3")
    for cls in (Feature, Rule):
        for hook_failed in (False, True):
            out("-- %s hook_failed=%s" % (cls.__name__, hook_failed))
            for combo in tuples_upto(2):
                out("%s => %s" % (",".join(s.name for s in combo) or "<empty>",
                                  run_container(cls, combo, hook_failed)))
            for a, b in itertools.product(ALL, repeat=2):
                cells = []
                for c in ALL:
                    cells.append("%s:%s" % (ABBREV[c],
                                 run_container(cls, (a, b, c), hook_failed, True)))
                out("%s,%s,* => %s" % (a.name, b.name, " | ".join(cells)))
    # -- LONGER SEQUENCES (abort patterns): passed* untested*, skipped/passed mixes
    out("-- long sequences")
    interesting = [Status.passed, Status.skipped, Status.untested,
                   Status.failed, Status.pending_warn, Status.xpassed]
    for combo in itertools.product(interesting, repeat=5):
        out("%s => %s" % (",".join(ABBREV[s] for s in combo),
                          run_container(Feature, combo, False, True)))


def make_outline(rows_per_table, with_none_table=False):
    examples = []
    for index, rows in enumerate(rows_per_table):
        table = Table([u"kind"], rows=[[u"v%d" % i] for i in range(rows)],
                      line=20 + 10 * index)
        examples.append(Examples("x.feature", 10 + index, u"Examples",
                                 u"E%d" % index, table=table))
    if with_none_table:
        examples.append(Examples("x.feature", 30, u"Examples", u"NONE", table=None))
    steps = [Step("x.feature", 5, u"Given", "given", u"a <kind> step")]
    return ScenarioOutline("x.feature", 4, u"Scenario Outline", u"SO <kind>",
                           steps=steps, examples=examples)


def run_outline(shape, combo, compact=False):
    rows_per_table, with_none = shape
    outline = make_outline(rows_per_table, with_none)
    children = [Child(s) for s in combo]
    outline._scenarios = children
    computed = outline.compute_status()
    reads1 = "".join(str(c.reads) for c in children)
    via_property = outline.status
    reads2 = "".join(str(c.reads) for c in children)
    if compact:
        return "%s%s/%s" % (ABBREV[computed], ABBREV[via_property], reads2)
    return "%s/%s r=%s,%s" % (computed.name, via_property.name, reads1, reads2)


def section_outline(out):
    out("#" * 70)
    out("SECTION outline compute_status exhaustive len<=3")
    shapes = [((), False), ((), True), ((0,), False), ((2,), False),
              ((1, 2), True), ((0, 0), False)]
    for shape in shapes:
        out("-- examples shape=%r" % (shape,))
        for combo in tuples_upto(2):
            out("%s => %s" % (",".join(s.name for s in combo) or "<empty>",
                              run_outline(shape, combo)))
    for shape in [((2,), False), ((), False)]:
        out("-- examples shape=%r len=3" % (shape,))
        for a, b in itertools.product(ALL, repeat=2):
            cells = ["%s:%s" % (ABBREV[c], run_outline(shape, (a, b, c), True))
                     for c in ALL]
            out("%s,%s,* => %s" % (a.name, b.name, " | ".join(cells)))
    out("-- long sequences")
    interesting = [Status.passed, Status.skipped, Status.untested,
                   Status.error, Status.pending_warn, Status.xfailed]
    for combo in itertools.product(interesting, repeat=5):
        out("%s => %s" % (",".join(ABBREV[s] for s in combo),
                          run_outline(((5,), False), combo, True)))
    # -- REAL OUTLINE: not built yet / built / statuses pushed into steps
    out("-- real outline")
    outline = make_outline((2, 1))
    out("unbuilt: status=%s cached=%s scenarios-built=%d" % (
        outline.status.name, outline._cached_status.name, len(outline._scenarios)))
    scenarios = outline.scenarios
    out("built: n=%d status=%s names=%r" % (
        len(scenarios), outline.status.name, [s.name for s in scenarios]))
    for combo in itertools.product(
            [Status.passed, Status.skipped, Status.untested, Status.failed,
             Status.undefined, Status.pending_warn], repeat=3):
        outline.reset()
        for scenario, status in zip(scenarios, combo):
            for step in scenario.all_steps:
                step.status = status
        out("%s => outline=%s scenarios=%s" % (
            ",".join(s.name for s in combo), outline.status.name,
            [s.status.name for s in scenarios]))
    out("mark_skipped (partly executed): %s" % describe_call(outline.mark_skipped))
    outline.reset()
    out("mark_skipped (after reset): %s" % describe_call(outline.mark_skipped))
    out("mark_skipped: outline=%s scenarios=%s" % (
        outline.status.name, [s.status.name for s in scenarios]))
    empty = make_outline(())
    out("no-examples: status=%s" % empty.status.name)
    out("no-examples skip: %s" % describe_call(empty.skip))
    out("no-examples after skip: status=%s" % empty.status.name)


def make_scenario(step_statuses, background_statuses=None, hook_failed=False):
    background = None
    if background_statuses is not None:
        bsteps = [CountingStep("x.feature", 2, u"Given", "given", u"bg%d" % i)
                  for i, _ in enumerate(background_statuses)]
        background = Background("x.feature", 2, u"Background", u"", steps=bsteps)
    steps = [CountingStep("x.feature", 5 + i, u"When", "when", u"s%d" % i)
             for i, _ in enumerate(step_statuses)]
    scenario = Scenario("x.feature", 4, u"Scenario", u"S", steps=steps)
    scenario.background = background
    if background is not None:
        for step, status in zip(scenario.background_steps, background_statuses):
            step.status = status
    for step, status in zip(steps, step_statuses):
        step.status = status
    scenario.hook_failed = hook_failed
    for step in scenario.all_steps:
        step.reads = 0
    return scenario


def run_scenario(step_statuses, background_statuses=None, hook_failed=False):
    scenario = make_scenario(step_statuses, background_statuses, hook_failed)
    result = describe_call(scenario.compute_status)
    reads1 = ".".join(str(getattr(s, "reads", "?")) for s in scenario.all_steps)
    via_property = describe_call(lambda: scenario.status)
    reads2 = ".".join(str(getattr(s, "reads", "?")) for s in scenario.all_steps)
    return "%s / %s r=%s,%s" % (result, via_property, reads1, reads2)


def section_scenario(out):
    out("#" * 70)
    out("SECTION scenario compute_status exhaustive len<=3")
    for hook_failed in (False, True):
        out("-- no background, hook_failed=%s" % hook_failed)
        for combo in tuples_upto(2):
            out("%s => %s" % (",".join(s.name for s in combo) or "<empty>",
                              run_scenario(combo, None, hook_failed)))
    out("-- no background, len=3")
    for a, b in itertools.product(ALL, repeat=2):
        cells = ["%s:%s" % (ABBREV[c], run_scenario((a, b, c))) for c in ALL]
        out("%s,%s,* => %s" % (a.name, b.name, " | ".join(cells)))
    out("-- with background")
    for bg in tuples_upto(2, [Status.passed, Status.failed, Status.untested,
                              Status.skipped, Status.pending_warn,
                              Status.hook_error]):
        for combo in tuples_upto(2, [Status.passed, Status.error, Status.skipped,
                                     Status.untested_undefined,
                                     Status.pending_warn, Status.executing]):
            out("bg=%s steps=%s => %s" % (
                ",".join(s.name for s in bg), ",".join(s.name for s in combo),
                run_scenario(combo, bg)))
    out("-- skip()/mark_skipped() on partly executed scenarios")
    for combo in tuples_upto(2, ALL):
        scenario = make_scenario(combo)
        out("%s => skip:%s status=%s steps=%s" % (
            ",".join(s.name for s in combo), describe_call(scenario.skip),
            describe_call(lambda: scenario.status.name),
            [s.status.name for s in scenario.all_steps]))
        scenario = make_scenario(combo)
        out("%s => mark_skipped:%s" % (
            ",".join(s.name for s in combo), describe_call(scenario.mark_skipped)))


class Probe(TagAndStatusStatement):
    def __init__(self, answers):
        super(Probe, self).__init__("x.feature", 1, u"Probe", u"P", [])
        self.answers = list(answers)
        self.calls = 0

    def compute_status(self):
        self.calls += 1
        return self.answers.pop(0)


def section_status_cache(out):
    out("#" * 70)
    out("SECTION status cache (TagAndStatusStatement)")
    base = TagAndStatusStatement("x.feature", 1, u"K", u"N", [u"t1"])
    out("base initial cached=%s should_skip=%s skip_reason=%s tags=%r parent=%r" % (
        base._cached_status.name, base.should_skip, base.skip_reason,
        base.tags, base.parent))
    out("base.status => %s" % describe_call(lambda: base.status))
    out("base.compute_status => %s" % describe_call(base.compute_status))
    for s in ALL:
        base.set_status(s)
        out("base set_status(%s): %s" % (s.name, describe_call(lambda: base.status)))
        base.set_status(s.name)
        out("base set_status(%r): cached=%s" % (s.name, base._cached_status.name))
    out("base set_status('bogus') => %s" % describe_call(base.set_status, "bogus"))
    out("base set_status(None) => %s cached=%r" % (
        describe_call(base.set_status, None), base._cached_status))
    base.set_status(Status.failed)
    base.should_skip = True
    base.skip_reason = "why"
    base.reset()
    out("after reset: cached=%s should_skip=%s skip_reason=%s" % (
        base._cached_status.name, base.should_skip, base.skip_reason))
    base.set_status(Status.passed)
    out("clear_status => %s cached=%s" % (
        describe_call(base.clear_status), base._cached_status.name))
    out("status attribute is read-only: %s" % describe_call(
        setattr, base, "status", Status.passed).split(":")[0])

    for first in ALL:
        for second in ALL:
            probe = Probe([first, second, Status.passed])
            seen = [probe.status.name, probe.status.name, probe.status.name]
            out("probe %s,%s => seen=%s calls=%d cached=%s" % (
                first.name, second.name, seen, probe.calls,
                probe._cached_status.name))
    probe = Probe([Status.passed, Status.failed, Status.skipped])
    log = [probe.status.name]
    probe.clear_status(); log.append(probe.status.name)
    probe.reset(); log.append(probe.status.name)
    out("probe clear/reset => %s calls=%d" % (log, probe.calls))
    probe = Probe([Status.passed])
    probe.set_status("failed")
    out("probe set_status wins: %s calls=%d" % (probe.status.name, probe.calls))
    for cls in (Feature, Rule, Scenario, ScenarioOutline):
        item = cls("x.feature", 1, u"K", u"N")
        out("%s: has status API=%s initial=%s" % (
            cls.__name__,
            [hasattr(item, n) for n in ("status", "set_status", "clear_status",
                                        "compute_status", "reset")],
            item._cached_status.name))
        item.set_status("error")
        out("%s: set_status('error') => %s; is TagAndStatusStatement=%s" % (
            cls.__name__, item.status.name,
            isinstance(item, TagAndStatusStatement)))
        item.clear_status()
        out("%s: cleared => cached=%s" % (cls.__name__, item._cached_status.name))


FEATURE_TEXT = u'''
Feature: Tree
  Background:
    Given bg step
  Scenario: S1
    When s1 step
  Scenario Outline: O1 <k>
    When o1 <k> step
    Examples:
      | k |
      | a |
      | b |
  Rule: R1
    Scenario: R1S1
      When r1s1 step
    Scenario Outline: R1O1 <k>
      When r1o1 <k> step
      Examples:
        | k |
        | a |
  Rule: R2
    Scenario: R2S1
      When r2s1 step
'''


def tree_lines(item, indent=0):
    lines = ["%s%s %r: %s" % (". " * indent, item.__class__.__name__,
                               item.name, item.status.name)]
    if isinstance(item, ScenarioOutline):
        for scenario in item._scenarios:
            lines.extend(tree_lines(scenario, indent + 1))
    elif not isinstance(item, Scenario):
        for run_item in item.run_items:
            lines.extend(tree_lines(run_item, indent + 1))
    return lines


def section_tree(out):
    out("#" * 70)
    out("SECTION parsed tree (feature > rule > outline > scenario > step)")
    feature = parse_feature(FEATURE_TEXT, filename="tree.feature")
    out("fresh (outlines unbuilt): " + " ; ".join(tree_lines(feature)))
    scenarios = feature.walk_scenarios()
    out("scenarios=%r" % [s.name for s in scenarios])
    out("built: " + " ; ".join(tree_lines(feature)))
    values = [Status.passed, Status.skipped, Status.untested, Status.failed,
              Status.pending, Status.pending_warn]
    for combo in itertools.product(values, repeat=len(scenarios)):
        if sum(1 for s in combo if s in (Status.failed, Status.pending)) > 1:
            continue
        feature.reset()
        for scenario, status in zip(scenarios, combo):
            for step in scenario.steps:
                step.status = status
            for step in scenario.background_steps:
                step.status = (Status.skipped if status is Status.skipped
                               else Status.untested if status is Status.untested
                               else Status.passed)
        out("%s => %s" % (",".join(ABBREV[s] for s in combo),
                          " ".join(ABBREV[Status.from_name(l.split(": ")[-1])]
                                   for l in tree_lines(feature))))
    # -- CACHING: final status sticks until clear_status()
    feature.reset()
    for scenario in scenarios:
        for step in scenario.all_steps:
            step.status = Status.passed
    log = [feature.status.name]
    scenarios[0].steps[0].status = Status.failed
    log.append(feature.status.name)
    log.append(scenarios[0].status.name)
    scenarios[0].clear_status(); log.append(scenarios[0].status.name)
    log.append(feature.status.name)
    feature.clear_status(); log.append(feature.status.name)
    out("caching => %s" % log)
    # -- HOOK FAILED FLAGS
    for target in [feature] + list(feature.run_items):
        feature.reset()
        for scenario in scenarios:
            for step in scenario.all_steps:
                step.status = Status.passed
        target.hook_failed = True
        out("hook_failed on %r => %s" % (target.name, " ; ".join(tree_lines(feature))))
    feature.reset()
    out("after reset => %s" % " ; ".join(tree_lines(feature)))
    feature.mark_skipped()
    out("mark_skipped => %s" % " ; ".join(tree_lines(feature)))
    feature.reset()
    feature.run_items[2].skip("because")
    out("rule.skip => %s" % " ; ".join(tree_lines(feature)))


class FakeScenario(object):
    def __init__(self, name, outcomes):
        self.name = name
        self.outcomes = list(outcomes)
        self.calls = []

    def run(self, *args, **kwargs):
        self.calls.append((args, sorted(kwargs.items())))
        return self.outcomes.pop(0)


def section_autoretry(out):
    out("#" * 70)
    out("SECTION autoretry")
    import io
    import contextlib
    patterns = [(), (True,), (False,), (True, False), (True, True),
                (True, True, False), (True, True, True), (0, ), ("x", None)]
    for max_attempts in (0, 1, 2, 3):
        for pattern in patterns:
            outcomes = list(pattern) + [True] * 5
            scenario = FakeScenario("fs", outcomes)
            patch_scenario_with_autoretry(scenario, max_attempts=max_attempts)
            buf = io.StringIO()
            with contextlib.redirect_stdout(buf):
                result = describe_call(scenario.run, "RUNNER", flag=1)
            out("max=%d pattern=%r => %s calls=%r printed=%r" % (
                max_attempts, pattern, result, scenario.calls, buf.getvalue()))
    scenario = FakeScenario("fs", [True, False])
    patch_scenario_with_autoretry(scenario)
    buf = io.StringIO()
    with contextlib.redirect_stdout(buf):
        result = describe_call(scenario.run, "R")
    out("default max => %s printed=%r" % (result, buf.getvalue()))
    outline = make_outline((2, 1))
    patch_scenario_with_autoretry(outline, max_attempts=2)
    out("outline patched: built=%d run-is-patched=%s outline-run-patched=%s" % (
        len(outline._scenarios),
        [type(s.run).__name__ for s in outline._scenarios],
        type(outline.run).__name__))


def run_model_sections(out):
    section_status_enum(out)
    section_status_cache(out)
    section_container(out)
    section_outline(out)
    section_scenario(out)
    section_tree(out)
    section_autoretry(out)

# ---------------------------------------------------------------------------
# COMMON PART: real runs of a small behave project (subprocess per run).
# ---------------------------------------------------------------------------
import os
import shutil
import subprocess
import tempfile
import textwrap

WORKTREE = "/tmp/wtV/C03"
PYTHON = "/venv/bin/python"

FEATURE_A = u'''\
Feature: Alpha
  Background:
    Given a passing step

  Scenario: A1 pass
    When a passing step

  Scenario: A2 fail
    When a failing step
    Then a passing step

  @skipme
  Scenario: A3 tagged
    When a passing step

  @flaky
  Scenario: A3b flaky
    When a flaky step "a3b" passing on attempt 2

  Scenario Outline: A4 outline <kind>
    When a <kind> step
    Examples: E1
      | kind    |
      | passing |
      | failing |
    Examples: E2
      | kind     |
      | erroring |
      | passing  |

  Rule: R1
    Scenario: R1S1 undefined
      When an undefined step here
      Then a passing step

    @wip
    Scenario: R1S2 pending
      When a pending step
      Then a passing step

    Scenario: R1S2b pending error
      When a pending step
      Then a passing step

    Scenario: R1S3 abort
      When the run is aborted if requested

    Scenario Outline: R1O <kind>
      When a <kind> step
      Examples:
        | kind    |
        | passing |
        | passing |

  Rule: R2 all fine
    Scenario: R2S1
      When a passing step
    @skipme
    Scenario Outline: R2O <kind>
      When a <kind> step
      Examples:
        | kind    |
        | passing |
'''

FEATURE_B = u'''\
@beta
Feature: Beta
  Scenario: B1
    Given a passing step
    And a step that skips the scenario if requested
    And a passing step
  Scenario Outline: B2 <n>
    Given a passing step
    When a flaky step "b2_<n>" passing on attempt <n>
    Examples:
      | n |
      | 1 |
      | 2 |
      | 3 |
'''

FEATURE_C = u'''\
@skipme
Feature: Gamma
  Scenario: C1
    Given a passing step
  Rule: GR
    Scenario: C2
      Given a failing step
'''

STEPS = u'''\
import os
from behave import given, when, then, step

ATTEMPTS = {}

@step(u'a passing step')
def step_passing(ctx):
    pass

@step(u'a failing step')
def step_failing(ctx):
    assert False, "XFAIL-HERE"

@step(u'a erroring step')
def step_erroring(ctx):
    raise RuntimeError("BOOM")

@step(u'a pending step')
def step_pending(ctx):
    from behave.exception import PendingStepError
    raise PendingStepError("PENDING-HERE")

@step(u'a flaky step "{name}" passing on attempt {n:d}')
def step_flaky(ctx, name, n):
    ATTEMPTS[name] = ATTEMPTS.get(name, 0) + 1
    assert ATTEMPTS[name] >= n, "FLAKY %s: attempt %d" % (name, ATTEMPTS[name])

@step(u'the run is aborted if requested')
def step_abort(ctx):
    if os.environ.get("X_ABORT") == "step":
        ctx.abort(reason="X_ABORT")

@step(u'a step that skips the scenario if requested')
def step_skip(ctx):
    if os.environ.get("X_SKIP") == "step":
        ctx.scenario.skip("X_SKIP")
'''

ENVIRONMENT = u'''\
import os
from behave.contrib.scenario_autoretry import patch_scenario_with_autoretry

BAD_HOOK = os.environ.get("X_BAD_HOOK", "")
BAD_NAME = os.environ.get("X_BAD_NAME", "")
AUTORETRY = int(os.environ.get("X_AUTORETRY", "0"))
LOG = []

def _maybe_fail(hook, name):
    LOG.append("%s:%s" % (hook, name))
    if hook == BAD_HOOK and (not BAD_NAME or BAD_NAME in name):
        raise RuntimeError("HOOK-ERROR in %s" % hook)

def before_all(ctx):
    ctx.config.userdata["hook_log"] = LOG
    _maybe_fail("before_all", "")
    if os.environ.get("X_ABORT") == "before_all":
        ctx.abort(reason="X_ABORT")

def after_all(ctx):
    _maybe_fail("after_all", "")

def before_feature(ctx, feature):
    if AUTORETRY:
        for scenario in feature.walk_scenarios(with_outlines=True):
            if "flaky" in scenario.effective_tags or "beta" in scenario.effective_tags:
                if scenario.type == "scenario_outline" or scenario.keyword == "Scenario":
                    patch_scenario_with_autoretry(scenario, max_attempts=AUTORETRY)
    if os.environ.get("X_SKIP") == "before_feature" and BAD_NAME in feature.name:
        feature.skip("X_SKIP")
    _maybe_fail("before_feature", feature.name)

def after_feature(ctx, feature):
    LOG.append("  status-in-after_feature:%s" % feature.status.name)
    _maybe_fail("after_feature", feature.name)

def before_rule(ctx, rule):
    _maybe_fail("before_rule", rule.name)

def after_rule(ctx, rule):
    LOG.append("  status-in-after_rule:%s" % rule.status.name)
    _maybe_fail("after_rule", rule.name)

def before_scenario(ctx, scenario):
    if os.environ.get("X_SKIP") == "before_scenario" and BAD_NAME in scenario.name:
        scenario.skip("X_SKIP")
    _maybe_fail("before_scenario", scenario.name)

def after_scenario(ctx, scenario):
    LOG.append("  status-in-after_scenario:%s" % scenario.status.name)
    _maybe_fail("after_scenario", scenario.name)

def before_step(ctx, step):
    _maybe_fail("before_step", step.name)

def after_step(ctx, step):
    _maybe_fail("after_step", step.name)
'''

DRIVER = u'''\
from __future__ import print_function
import sys
sys.path.insert(0, "%(worktree)s")
from behave.configuration import Configuration
from behave.runner import Runner
from behave.model import Rule, ScenarioOutline, Scenario

SEEN = []

def dump(item, indent=0):
    pad = ". " * indent
    print("%%s%%s %%r: status=%%s hook_failed=%%s should_skip=%%s" %% (
          pad, item.__class__.__name__, item.name, item.status.name,
          getattr(item, "hook_failed", None), getattr(item, "should_skip", None)))
    if isinstance(item, ScenarioOutline):
        for scenario in item._scenarios:
            dump(scenario, indent + 1)
    elif isinstance(item, Scenario):
        for step in item.all_steps:
            print("%%s  Step %%r: status=%%s" %% (pad, step.name, step.status.name))
    else:
        for run_item in item.run_items:
            dump(run_item, indent + 1)

class TreeReporter(object):
    def feature(self, feature):
        SEEN.append((feature.name, feature.status.name))
        print("REPORTER.feature %%r status=%%s" %% (feature.name, feature.status.name))
        dump(feature, 1)
    def end(self):
        print("REPORTER.end")

config = Configuration(sys.argv[1:], load_config=False)
config.reporters = [TreeReporter()]
runner = Runner(config)
try:
    failed = runner.run()
    print("RUN failed=%%s aborted=%%s" %% (failed, runner.aborted))
except BaseException as e:      # noqa
    print("RUN raised %%s: %%s" %% (e.__class__.__name__, e))
print("FINAL:")
for feature in runner.features:
    dump(feature, 1)
for line in config.userdata.get("hook_log", []):
    print("HOOKLOG", line)
''' % {"worktree": WORKTREE}

RUNS = [
    # (label, extra-args, env)
    ("plain", [], {}),
    ("stop", ["--stop"], {}),
    ("dry-run", ["--dry-run"], {}),
    ("no-skipme", ["--tags=not @skipme"], {}),
    ("only-skipme", ["--tags=@skipme"], {}),
    ("nothing-selected", ["--tags=@nothing"], {}),
    ("show-skipped-nothing", ["--tags=@nothing", "--show-skipped"], {}),
    ("name-A1", ["-n", "A1"], {}),
    ("name-R1O", ["-n", "R1O"], {}),
    ("name-nomatch", ["-n", "ZZZ-NOMATCH"], {}),
    ("abort-in-step", [], {"X_ABORT": "step"}),
    ("abort-in-before_all", [], {"X_ABORT": "before_all"}),
    ("bad-before_all", [], {"X_BAD_HOOK": "before_all"}),
    ("bad-before_feature-Alpha", [], {"X_BAD_HOOK": "before_feature", "X_BAD_NAME": "Alpha"}),
    ("bad-after_feature-Beta", [], {"X_BAD_HOOK": "after_feature", "X_BAD_NAME": "Beta"}),
    ("bad-before_rule-R2", [], {"X_BAD_HOOK": "before_rule", "X_BAD_NAME": "R2"}),
    ("bad-after_rule-R2", [], {"X_BAD_HOOK": "after_rule", "X_BAD_NAME": "R2"}),
    ("bad-before_scenario-A1", [], {"X_BAD_HOOK": "before_scenario", "X_BAD_NAME": "A1"}),
    ("bad-after_scenario-R2S1", [], {"X_BAD_HOOK": "after_scenario", "X_BAD_NAME": "R2S1"}),
    ("bad-before_scenario-R1O", [], {"X_BAD_HOOK": "before_scenario", "X_BAD_NAME": "R1O"}),
    ("bad-before_step-all", ["--stop"], {"X_BAD_HOOK": "before_step"}),
    ("bad-after_step-B", ["--tags=@beta"], {"X_BAD_HOOK": "after_step"}),
    ("skip-in-step", [], {"X_SKIP": "step"}),
    ("skip-in-before_scenario-B1", [], {"X_SKIP": "before_scenario", "X_BAD_NAME": "B1"}),
    ("skip-in-before_feature-Beta", [], {"X_SKIP": "before_feature", "X_BAD_NAME": "Beta"}),
    ("autoretry-2", [], {"X_AUTORETRY": "2"}),
    ("autoretry-3", [], {"X_AUTORETRY": "3"}),
    ("autoretry-3-stop-beta", ["--stop", "--tags=@beta"], {"X_AUTORETRY": "3"}),
    ("pending-as-warn-wip", ["--wip"], {}),
]


def run_real_projects(out):
    workdir = tempfile.mkdtemp(prefix="c03twin_")
    try:
        os.makedirs(os.path.join(workdir, "features", "steps"))
        def write(relpath, contents):
            with open(os.path.join(workdir, relpath), "wb") as f:
                f.write(contents.encode("utf-8"))
        write("features/a.feature", FEATURE_A)
        write("features/b.feature", FEATURE_B)
        write("features/c.feature", FEATURE_C)
        write("features/steps/steps.py", STEPS)
        write("features/environment.py", ENVIRONMENT)
        write("driver.py", DRIVER)
        for label, args, env in RUNS:
            out("=" * 70)
            out("REAL RUN: %s args=%r env=%r" % (label, args, sorted(env.items())))
            run_env = dict(os.environ)
            for name in list(run_env):
                if name.startswith("X_"):
                    del run_env[name]
            run_env.update(env)
            run_env["PYTHONPATH"] = WORKTREE
            run_env["PYTHONDONTWRITEBYTECODE"] = "1"
            cmd = [PYTHON, "driver.py", "-f", "null", "--no-color",
                   "--no-capture", "features"] + args
            proc = subprocess.Popen(cmd, cwd=workdir, env=run_env,
                                    stdout=subprocess.PIPE,
                                    stderr=subprocess.STDOUT)
            output = proc.communicate()[0].decode("utf-8", "replace")
            output = output.replace(workdir, "<WORKDIR>")
            for line in output.splitlines():
                if "Traceback" in line or line.startswith("  File ") or line.startswith("    "):
                    continue    # -- line numbers of behave internals may shift
                out("| " + line.rstrip())
            out("returncode=%s" % proc.returncode)
    finally:
        shutil.rmtree(workdir, ignore_errors=True)


def main():
    def out(text):
        sys.stdout.write(text + "\n")
    run_model_sections(out)
    run_real_projects(out)
    sys.stdout.flush()


if __name__ == "__main__":
    main()
