# -*- coding: utf-8 -*-
"""
Equivalence transcript for property C15 (formatter event protocol;
JSON/plain/progress reports mirror the model).

Prints a canonical transcript of:
  1. a `python -m behave` run (subprocess, PYTHONPATH=worktree) of a small
     generated project with several formatters active at once
     (json, json.pretty, plain, progress, progress2, progress3, pretty) plus a
     user-defined recording formatter that logs the raw event stream;
  2. reading the JSON reports back with behave.json_parser;
  3. direct in-process calls of the refactored units on boundary inputs.
"""
from __future__ import print_function
import io
import json
import os
import re
import shutil
import subprocess
import sys

WORKTREE = "/tmp/wtT/C15"
sys.path.insert(0, WORKTREE)

HERE = os.path.dirname(os.path.abspath(__file__))
WORK = os.path.join(HERE, "_work")
PYTHON = "/venv/bin/python"


def out(text=""):
    sys.stdout.write(text + "\n")


def section(title):
    out("")
    out("=" * 70)
    out("== " + title)
    out("=" * 70)


def scrub(text):
    text = text.replace(WORK, "<WORK>")
    text = re.sub(r"0x[0-9a-fA-F]+", "0xADDR", text)
    text = re.sub(r"\b\d+m\d+\.\d+s\b", "<DUR>", text)
    text = re.sub(r"\b\d+\.\d{3}s\b", "<DUR>", text)
    return text


# ---------------------------------------------------------------------------
# PROJECT
# ---------------------------------------------------------------------------
FEATURE_ALPHA = u'''@feat_tag
Feature: Alpha feature
  Some description line one.
  Second description line.

  Background: Common setup
    Given a passing step
    And the number 7 is stored

  @s1 @smoke
  Scenario: All pass with table and text
    Scenario description here.
    Given a table
      | name  | value \\| piped |
      | Alice | 1              |
      | Bob   | two\\nlines     |
    When a doc string
      """
      first line
        indented second line
      third with \\"\\"\\" quotes
      """
    Then the float 3.5 and the word "hello" are used

  @s2
  Scenario: Failing in the middle
    Given a passing step
    When a failing step
    Then a passing step
    And another passing step

  Scenario: Error raised
    When an erroring step
    Then a passing step

  Scenario: Undefined step in scenario
    Given a passing step
    When this step is not defined anywhere
    Then a passing step

  @skipme
  Scenario: Skipped by tag
    Given a passing step

  Scenario Outline: Outline <name>
    Given the number <num> is stored
    Then a custom point 1,<num> is parsed
    And <kind> step

    @ex1
    Examples: First
      | name | num | kind      |
      | A    | 1   | a passing |
      | B    | 22  | a failing |

    Examples: Second
      | name | num | kind      |
      | C    | 3   | a passing |
'''

FEATURE_BETA = u'''Feature: Beta feature with rules

  Background:
    Given a passing step

  Scenario: Before rules
    Then a passing step

  Rule: First rule
    Background: Rule setup
      Given the number 1 is stored

    Scenario: In rule one
      When a step with table and text
        | h1 | h2 |
        | x  | yy |
      Then a passing step

    Scenario: In rule one failing
      When a failing step with multi-line message
      Then a passing step

  Rule: Second rule
    Scenario: In rule two
      Given a named arg name=Zed and age=42
'''

FEATURE_GAMMA = u'''Feature: Gamma empty feature
'''

FEATURE_DELTA = u'''Feature: Delta background fails

  Background: Broken
    Given a failing step

  Scenario: Never really runs
    Then a passing step

  Scenario: Also affected
    Then a passing step
'''

STEPS = u'''# -*- coding: utf-8 -*-
from behave import given, when, then, step, register_type
import parse


class Point(object):
    def __init__(self, x, y):
        self.x = x
        self.y = y
    def __repr__(self):
        return "Point(%s, %s)" % (self.x, self.y)


@parse.with_pattern(r"\\d+,\\d+")
def parse_point(text):
    x, y = text.split(",")
    return Point(int(x), int(y))

register_type(Point=parse_point)


@step(u'a passing step')
def step_passing(ctx):
    pass

@step(u'another passing step')
def step_passing2(ctx):
    pass

@step(u'a failing step')
def step_failing(ctx):
    assert False, "XFAIL: expected failure"

@step(u'a failing step with multi-line message')
def step_failing_ml(ctx):
    assert False, "line one\\nline two\\nline three"

@step(u'an erroring step')
def step_erroring(ctx):
    raise RuntimeError("boom")

@step(u'the number {num:d} is stored')
def step_number(ctx, num):
    ctx.num = num

@step(u'a table')
def step_table(ctx):
    assert ctx.table is not None

@step(u'a doc string')
def step_text(ctx):
    assert ctx.text

@step(u'a step with table and text')
def step_table_text(ctx):
    pass

@step(u'the float {value:f} and the word "{word}" are used')
def step_float_word(ctx, value, word):
    assert isinstance(value, float)

@step(u'a custom point {point:Point} is parsed')
def step_point(ctx, point):
    assert isinstance(point, Point)

@step(u'a named arg name={name} and age={age:d}')
def step_named(ctx, name, age):
    pass
'''

RECORDER = u'''# -*- coding: utf-8 -*-
from behave.formatter.base import Formatter


class RecordingFormatter(Formatter):
    name = "recorder"
    description = "Records the raw formatter event stream."

    def __init__(self, stream_opener, config):
        super(RecordingFormatter, self).__init__(stream_opener, config)
        self.stream = self.open()

    def _w(self, text):
        self.stream.write(text + u"\\n")

    def uri(self, uri):
        self._w(u"uri %s" % uri)

    def feature(self, feature):
        self._w(u"feature %s @%s" % (feature.name, feature.location))

    def rule(self, rule):
        self._w(u"rule %s" % rule.name)

    def background(self, background):
        self._w(u"background %r steps=%d" % (background.name, len(background.steps)))

    def scenario(self, scenario):
        self._w(u"scenario %s @%s" % (scenario.name, scenario.location))

    def step(self, step):
        self._w(u"  step %s %s" % (step.keyword, step.name))

    def match(self, match):
        args = [(a.name, a.original, repr(a.value)) for a in match.arguments]
        self._w(u"  match %s args=%r" % (match.location, args))

    def result(self, step):
        self._w(u"  result %s %s -> %s" % (step.keyword, step.name, step.status.name))

    def eof(self):
        self._w(u"eof")

    def close(self):
        self._w(u"close")
        self.close_stream()
'''


def write_file(path, content):
    dirname = os.path.dirname(path)
    if not os.path.isdir(dirname):
        os.makedirs(dirname)
    with io.open(path, "w", encoding="utf-8") as f:
        f.write(content)


def make_project():
    if os.path.isdir(WORK):
        shutil.rmtree(WORK)
    write_file(os.path.join(WORK, "features", "alpha.feature"), FEATURE_ALPHA)
    write_file(os.path.join(WORK, "features", "beta.feature"), FEATURE_BETA)
    write_file(os.path.join(WORK, "features", "gamma.feature"), FEATURE_GAMMA)
    write_file(os.path.join(WORK, "features", "delta.feature"), FEATURE_DELTA)
    write_file(os.path.join(WORK, "features", "steps", "steps.py"), STEPS)
    write_file(os.path.join(WORK, "recorder.py"), RECORDER)


def run_behave(args, label):
    env = dict(os.environ)
    env["PYTHONPATH"] = WORKTREE + os.pathsep + WORK
    env["PYTHONDONTWRITEBYTECODE"] = "1"
    env["PYTHONHASHSEED"] = "0"
    env.pop("BEHAVE_FORMAT", None)
    cmd = [PYTHON, "-m", "behave"] + args
    proc = subprocess.Popen(cmd, cwd=WORK, env=env, stdout=subprocess.PIPE,
                            stderr=subprocess.STDOUT)
    stdout, _ = proc.communicate()
    section("RUN %s: behave %s" % (label, " ".join(args)))
    out("returncode: %s" % proc.returncode)
    out("---- stdout+stderr:")
    out(scrub(stdout.decode("utf-8", "replace")))


def normalize_json(data):
    """Replace run-dependent durations by a type marker."""
    if isinstance(data, dict):
        result = {}
        for key, value in data.items():
            if key == "duration":
                result[key] = "<%s>" % type(value).__name__
            else:
                result[key] = normalize_json(value)
        return result
    if isinstance(data, list):
        return [normalize_json(x) for x in data]
    return data


def show_file(name):
    path = os.path.join(WORK, name)
    out("---- file %s:" % name)
    if not os.path.exists(path):
        out("<MISSING>")
        return
    with io.open(path, "r", encoding="utf-8") as f:
        out(scrub(f.read()))


def show_json_file(name):
    path = os.path.join(WORK, name)
    out("---- json file %s:" % name)
    if not os.path.exists(path):
        out("<MISSING>")
        return
    with io.open(path, "r", encoding="utf-8") as f:
        raw = f.read()
    out("raw starts with %r, ends with %r" % (raw[:2], raw[-3:]))
    data = json.loads(raw)
    text = json.dumps(normalize_json(data), indent=1, sort_keys=True)
    out(scrub(text))


def describe_parsed(name):
    from behave import json_parser
    path = os.path.join(WORK, name)
    out("---- json_parser.parse(%s):" % name)
    if not os.path.exists(path):
        out("<MISSING>")
        return
    features = json_parser.parse(path)
    for feature in features:
        out("Feature %r kw=%r tags=%r loc=%s:%s desc=%r status=%s" % (
            feature.name, feature.keyword, feature.tags,
            scrub(feature.filename), feature.line, feature.description,
            "n/a"))
        if feature.background:
            bg = feature.background
            out("  Background %r kw=%r loc=%s" % (bg.name, bg.keyword, bg.line))
            for st in bg.steps:
                describe_step(st, "    ")
        for scenario in feature.scenarios:
            out("  %s %r kw=%r tags=%r line=%s desc=%r" % (
                type(scenario).__name__, scenario.name, scenario.keyword,
                scenario.tags, scenario.line, scenario.description))
            for st in scenario.steps:
                describe_step(st, "    ")


def describe_step(st, prefix):
    out("%sStep %s|%s|%r line=%s status=%s dur=%s err=%r" % (
        prefix, st.keyword, st.step_type, st.name, st.line,
        st.status.name, type(st.duration).__name__,
        scrub(st.error_message) if st.error_message else st.error_message))
    if st.text is not None:
        out("%s  text=%r" % (prefix, st.text))
    if st.table is not None:
        out("%s  table headings=%r rows=%r" % (
            prefix, st.table.headings, [list(r) for r in st.table.rows]))


# ---------------------------------------------------------------------------
# PART 1+2: SUBPROCESS RUNS
# ---------------------------------------------------------------------------
def part_runs():
    make_project()
    run_behave([
        "--no-color", "-T", "--tags=-skipme",
        "-f", "json", "-o", "r1.json",
        "-f", "json.pretty", "-o", "r1.pretty.json",
        "-f", "plain", "-o", "r1.plain.txt",
        "-f", "progress", "-o", "r1.progress.txt",
        "-f", "progress2", "-o", "r1.progress2.txt",
        "-f", "progress3", "-o", "r1.progress3.txt",
        "-f", "pretty", "-o", "r1.pretty.txt",
        "-f", "recorder:RecordingFormatter", "-o", "r1.events.txt",
        "-f", "plain",
        "features/"], "R1-all-formatters")
    for name in ("r1.plain.txt", "r1.progress.txt", "r1.progress2.txt",
                 "r1.progress3.txt", "r1.pretty.txt", "r1.events.txt"):
        show_file(name)
    show_json_file("r1.json")
    show_json_file("r1.pretty.json")
    describe_parsed("r1.json")
    describe_parsed("r1.pretty.json")

    # -- RUN 2: with timings, --no-multiline, --stop, no skipped shown.
    run_behave([
        "--no-color", "--no-multiline", "--no-skipped", "--stop",
        "-f", "plain", "-o", "r2.plain.txt",
        "-f", "json", "-o", "r2.json",
        "-f", "progress3", "-o", "r2.progress3.txt",
        "-f", "recorder:RecordingFormatter", "-o", "r2.events.txt",
        "features/alpha.feature", "features/beta.feature"], "R2-stop")
    for name in ("r2.plain.txt", "r2.progress3.txt", "r2.events.txt"):
        show_file(name)
    show_json_file("r2.json")
    describe_parsed("r2.json")

    # -- RUN 3: dry-run, no feature matches / empty feature only.
    run_behave([
        "--no-color", "-T", "--dry-run",
        "-f", "json.pretty", "-o", "r3.json",
        "-f", "plain", "-o", "r3.plain.txt",
        "-f", "progress2", "-o", "r3.progress2.txt",
        "-f", "recorder:RecordingFormatter", "-o", "r3.events.txt",
        "features/beta.feature", "features/gamma.feature"], "R3-dry-run")
    for name in ("r3.plain.txt", "r3.progress2.txt", "r3.events.txt"):
        show_file(name)
    show_json_file("r3.json")
    describe_parsed("r3.json")

    # -- RUN 4: plain to stdout only with a scenario name filter (nothing runs).
    run_behave(["--no-color", "-T", "-f", "plain", "-f", "json",
                "-n", "NO_SUCH_SCENARIO", "features/alpha.feature"],
               "R4-nothing-selected")
    # -- RUN 5: unknown formatter.
    run_behave(["--no-color", "-f", "no_such_format", "features/gamma.feature"],
               "R5-unknown-formatter")


# ---------------------------------------------------------------------------
# PART 3: DIRECT UNIT CALLS
# ---------------------------------------------------------------------------
class FakeConfig(object):
    show_timings = False
    show_multiline = True
    show_skipped = True
    show_source = False
    color = False

    def __init__(self, **kwargs):
        for key, value in kwargs.items():
            setattr(self, key, value)


def make_stream_opener():
    from behave.formatter.base import StreamOpener
    stream = io.StringIO()
    return StreamOpener(stream=stream), stream


def guarded(label, func, *args, **kwargs):
    try:
        result = func(*args, **kwargs)
        out("%s -> %r" % (label, result))
        return result
    except Exception as e:  # pylint: disable=broad-except
        out("%s raised %s: %s" % (label, type(e).__name__, scrub(str(e))))
        return None


def part_describe_table():
    section("UNIT: ModelDescriptor.describe_table / describe_docstring / indent")
    from behave.model import Table, Row
    from behave.model_describe import ModelDescriptor, ModelPrinter
    from behave.textutil import indent
    tables = [
        ("simple", Table([u"a", u"bb"], rows=[[u"1", u"22222"], [u"333", u"4"]])),
        ("no-rows", Table([u"only", u"headings"], rows=[])),
        ("one-col", Table([u"x"], rows=[[u""], [u"longer value"]])),
        ("escapes", Table([u"p|q", u"back\\slash"],
                          rows=[[u"new\nline", u"|"], [u"\\|", u""]])),
        ("unicode", Table([u"n\xe4me", u"日本"], rows=[[u"\xfc", u"ok"]])),
        ("no-headings", Table([], rows=[])),
    ]
    for label, table in tables:
        for indentation in (None, u"", u"      "):
            guarded("describe_table[%s, indent=%r]" % (label, indentation),
                    ModelDescriptor.describe_table, table, indentation)
    # -- RAGGED ROWS: shorter and longer than headings.
    ragged_short = Table([u"a", u"b", u"c"], rows=[])
    ragged_short.rows.append(Row(ragged_short.headings, [u"1", u"2"], 0))
    guarded("describe_table[ragged-short]", ModelDescriptor.describe_table,
            ragged_short, u"  ")
    ragged_long = Table([u"a"], rows=[])
    ragged_long.rows.append(Row(ragged_long.headings, [u"1", u"2", u"3"], 0))
    guarded("describe_table[ragged-long]", ModelDescriptor.describe_table,
            ragged_long, None)
    for text in (u"", u"one", u"one\ntwo\n", u'with """ quotes\n  indented'):
        for indentation in (None, u"    "):
            guarded("describe_docstring[%r, %r]" % (text, indentation),
                    ModelDescriptor.describe_docstring, text, indentation)
    for value in (u"", u"a\nb", u"a\nb\n", [u"a\n", u"b\n"], [u"a", u"b"], []):
        guarded("indent(%r)" % (value,), indent, value, u"--")
    stream = io.StringIO()
    printer = ModelPrinter(stream)
    printer.print_table(tables[0][1], u"  ")
    printer.print_docstring(u"doc\nstring", u"  ")
    out("ModelPrinter output: %r" % stream.getvalue())


def part_json_formatter():
    section("UNIT: JSONFormatter direct event stream")
    from behave.formatter.json import JSONFormatter, PrettyJSONFormatter
    from behave.model import Feature, Scenario, Step, Background, Table
    from behave.model_core import Status, Argument
    from behave.matchers import Match

    class Custom(object):
        def __repr__(self):
            return "Custom()"

        def __eq__(self, other):
            return isinstance(other, Custom)

        def __ne__(self, other):
            return not self.__eq__(other)

        __hash__ = None

    def func(ctx):
        pass

    def make_match(arguments, with_location=True):
        match = Match(func, arguments)
        if not with_location:
            match.location = None
        return match

    argument_sets = [
        ("none", []),
        ("int", [Argument(0, 1, u"7", 7)]),
        ("named-int", [Argument(0, 1, u"7", 7, name=u"num")]),
        ("str-same", [Argument(0, 3, u"abc", u"abc", name=u"word")]),
        ("str-diff", [Argument(0, 3, u"abc", u"ABC")]),
        ("float", [Argument(0, 3, u"3.5", 3.5, name=u"value")]),
        ("bool", [Argument(0, 4, u"true", True)]),
        ("none-value", [Argument(0, 4, u"null", None, name=u"opt")]),
        ("custom", [Argument(0, 3, u"1,2", Custom(), name=u"point")]),
        ("list-value", [Argument(0, 3, u"1 2", [1, 2])]),
        ("empty-name", [Argument(0, 1, u"x", u"x", name=u"")]),
        ("multi", [Argument(0, 1, u"1", 1, name=u"a"),
                   Argument(2, 3, u"b", u"b"),
                   Argument(4, 5, u"c", Custom())]),
        ("int-eq-float", [Argument(0, 1, u"1", 1.0)]),
        ("custom-nonscalar-original", [Argument(0, 1, [u"x"], Custom())]),
    ]
    for formatter_class in (JSONFormatter, PrettyJSONFormatter):
        opener, stream = make_stream_opener()
        formatter = formatter_class(opener, FakeConfig())
        feature = Feature(u"f.feature", 1, u"Feature", u"Direct", tags=[u"t1"],
                          description=[u"d1"])
        formatter.uri(u"f.feature")
        formatter.feature(feature)
        steps = []
        for i, (label, _args) in enumerate(argument_sets):
            steps.append(Step(u"f.feature", 10 + i, u"Given", u"given",
                              u"step %s" % label))
        steps[1].text = u"single line"
        steps[2].text = u"multi\nline"
        steps[3].table = Table([u"h"], rows=[[u"v"]])
        background = Background(u"f.feature", 2, u"Background", u"", steps=[
            Step(u"f.feature", 3, u"Given", u"given", u"bg step")])
        formatter.background(background)
        background.steps[0].status = Status.passed
        formatter.match(make_match([]))
        formatter.result(background.steps[0])
        scenario = Scenario(u"f.feature", 5, u"Scenario", u"S1", tags=[u"x"],
                            steps=steps)
        formatter.scenario(scenario)
        for st in steps:
            formatter.step(st)
        for i, (st, (label, arguments)) in enumerate(zip(steps, argument_sets)):
            with_location = (label != "float")
            try:
                formatter.match(make_match(arguments, with_location))
                out("match[%s]: ok" % label)
            except Exception as e:  # pylint: disable=broad-except
                out("match[%s]: raised %s: %s" % (label, type(e).__name__, e))
            if i % 3 == 2:
                st.status = Status.failed
                st.error_message = u"Assertion Failed: msg %d\nsecond line" % i
            elif i % 3 == 1:
                st.status = Status.passed
                st.error_message = u"ignored because passed"
            else:
                st.status = Status.skipped
            st.duration = 0.25 * i
            formatter.result(st)
        formatter.eof()
        # -- SECOND FEATURE: separator handling; no elements.
        feature2 = Feature(u"g.feature", 1, u"Feature", u"Second")
        formatter.feature(feature2)
        formatter.eof()
        formatter.eof()     # -- idempotent without current feature data.
        formatter.close()
        out("---- %s output:" % formatter_class.__name__)
        text = stream.getvalue()
        out(text)
        out("valid json: %r" % (json.loads(text) is not None))

    opener, stream = make_stream_opener()
    formatter = JSONFormatter(opener, FakeConfig())
    formatter.close()
    out("no features output: %r" % stream.getvalue())

    # -- PROTOCOL VIOLATIONS: errors must stay the same.
    opener, stream = make_stream_opener()
    formatter = JSONFormatter(opener, FakeConfig())
    guarded("match before feature", formatter.match,
            make_match([Argument(0, 1, u"1", 1)]))
    guarded("result before feature", formatter.result,
            Step(u"f.feature", 1, u"Given", u"given", u"x"))
    formatter.feature(Feature(u"f.feature", 1, u"Feature", u"F"))
    guarded("match before scenario", formatter.match,
            make_match([Argument(0, 1, u"1", 1)]))
    formatter.scenario(Scenario(u"f.feature", 2, u"Scenario", u"S"))
    guarded("match without steps", formatter.match,
            make_match([Argument(0, 1, u"1", 1)]))
    guarded("match with bad arg + no steps", formatter.match,
            make_match([Argument(0, 1, [u"x"], Custom())]))


def part_plain_progress():
    section("UNIT: PlainFormatter / progress formatters direct event stream")
    from behave.formatter.plain import PlainFormatter, Plain0Formatter
    from behave.formatter.progress import (ScenarioProgressFormatter,
        StepProgressFormatter, ScenarioStepProgressFormatter)
    from behave.model import Feature, Scenario, Step, Background, Table, Rule
    from behave.model_core import Status

    class AlignedPlain(PlainFormatter):
        SHOW_ALIGNED_KEYWORDS = True
        SHOW_TAGS = True

    class NoBackgroundPlain(PlainFormatter):
        SHOW_BACKGROUNDS = False

    def make_steps():
        steps = [
            Step(u"p.feature", 4, u"Given", u"given", u"first"),
            Step(u"p.feature", 5, u"When", u"when", u"second with text"),
            Step(u"p.feature", 6, u"Then", u"then", u"third with table"),
            Step(u"p.feature", 7, u"And", u"then", u"fourth fails"),
            Step(u"p.feature", 8, u"But", u"then", u"fifth errors"),
            Step(u"p.feature", 9, u"*", u"then", u"sixth undefined"),
        ]
        steps[1].text = u'Some "text"\n  with """ and indentation'
        steps[2].table = Table([u"a", u"b|c"], rows=[[u"1", u"x"], [u"22", u""]])
        statuses = [Status.passed, Status.passed, Status.passed, Status.failed,
                    Status.error, Status.undefined]
        for i, (st, status) in enumerate(zip(steps, statuses)):
            st.status = status
            st.duration = 0.5 + i
        steps[3].error_message = u"Assertion Failed: nope\nmore"
        steps[4].error_message = u"Traceback...\nRuntimeError: boom"
        steps[4].exception = RuntimeError("boom")
        return steps

    configs = [
        ("default", FakeConfig()),
        ("timings", FakeConfig(show_timings=True)),
        ("no-multiline", FakeConfig(show_multiline=False)),
    ]
    classes = [PlainFormatter, Plain0Formatter, AlignedPlain, NoBackgroundPlain,
               ScenarioProgressFormatter, StepProgressFormatter,
               ScenarioStepProgressFormatter]
    for formatter_class in classes:
        for config_label, config in configs:
            opener, stream = make_stream_opener()
            formatter = formatter_class(opener, config)
            feature = Feature(u"p.feature", 1, u"Feature", u"Plain", tags=[u"ft"])
            formatter.uri(u"p.feature")
            formatter.feature(feature)
            background = Background(u"p.feature", 2, u"Background", u"BG",
                                    steps=[])
            formatter.background(background)
            for with_rule in (False, True):
                if with_rule:
                    rule = Rule(u"p.feature", 20, u"Rule", u"R1", tags=[u"rt"])
                    formatter.rule(rule)
                    formatter.background(background)
                steps = make_steps()
                scenario = Scenario(u"p.feature", 3, u"Scenario", u"S",
                                    tags=[u"a", u"b"], steps=steps)
                formatter.scenario(scenario)
                for st in steps:
                    formatter.step(st)
                for st in steps:
                    formatter.match(None)
                    formatter.result(st)
                out("%s/%s rule=%s: pending steps queue=%d" % (
                    formatter_class.__name__, config_label, with_rule,
                    len(formatter.steps)))
            # -- SCENARIO WITHOUT NAME / STEPS:
            formatter.scenario(Scenario(u"p.feature", 30, u"Scenario", u""))
            formatter.eof()
            formatter.close()
            out("---- %s/%s output:" % (formatter_class.__name__, config_label))
            out(stream.getvalue())

    # -- BOUNDARY: result() without announced step.
    opener, stream = make_stream_opener()
    formatter = PlainFormatter(opener, FakeConfig())
    guarded("plain result without step", formatter.result, make_steps()[0])
    out("stream after error: %r" % stream.getvalue())
    opener, stream = make_stream_opener()
    formatter = StepProgressFormatter(opener, FakeConfig())
    guarded("progress2 result without step", formatter.result, make_steps()[0])


def part_json_parser():
    section("UNIT: JsonParser on hand-written data")
    from behave.json_parser import JsonParser

    def step_data(name, **extra):
        data = {"keyword": "Given", "step_type": "given", "name": name,
                "location": "x.feature:%d" % (len(name) + 1)}
        data.update(extra)
        return data

    json_data = [
        {"keyword": "Feature", "name": "F1", "tags": ["a"],
         "location": "x.feature:1", "status": "failed",
         "description": ["d"],
         "elements": [
             {"type": "background", "keyword": "Background", "name": "bg",
              "location": "x.feature:2",
              "steps": [step_data("b1", result={"status": "passed",
                                                 "duration": 0.5})]},
             {"type": "scenario", "keyword": "Scenario", "name": "S1",
              "tags": ["t"], "location": "x.feature:5", "status": "failed",
              "description": ["sd"],
              "steps": [
                  step_data("s1", text=["l1", "l2"],
                            result={"status": "passed", "duration": 1}),
                  step_data("s22", text="single",
                            table={"headings": ["h1", "h2"],
                                   "rows": [["1", "2"], ["3", "4"]]},
                            result={"status": "failed", "duration": 2.5,
                                    "error_message": ["e1", "e2"]}),
                  step_data("s333", result={"status": "skipped"}),
                  step_data("s4444"),
                  step_data("s55555", table={}, result={}),
              ]},
             {"type": "Scenario_Outline", "keyword": "Scenario Outline",
              "name": "SO", "location": "x.feature:20",
              "steps": [step_data("o1")],
              "examples": {"keyword": "Examples", "name": "E",
                           "location": "x.feature:25",
                           "table": {"headings": ["c"], "rows": [["v"]]}}},
             {"type": "SCENARIO", "keyword": "Scenario", "name": "S2",
              "location": "x.feature:30"},
         ]},
        {"keyword": "Feature", "location": "y.feature:1"},
    ]
    parser = JsonParser()
    features = parser.parse_features(json_data)
    out("current_scenario_outline: %r" % (
        parser.current_scenario_outline and parser.current_scenario_outline.name))
    for feature in features:
        out("Feature %r kw=%r tags=%r file=%s line=%s desc=%r" % (
            feature.name, feature.keyword, feature.tags, feature.filename,
            feature.line, feature.description))
        out("  run_items=%r" % [type(x).__name__ for x in feature.run_items])
        if feature.background:
            out("  Background %r" % feature.background.name)
            for st in feature.background.steps:
                describe_step(st, "    ")
        for scenario in feature.scenarios:
            out("  %s %r tags=%r line=%s desc=%r" % (
                type(scenario).__name__, scenario.name, scenario.tags,
                scenario.line, scenario.description))
            for st in scenario.steps:
                describe_step(st, "    ")
            examples = getattr(scenario, "examples", None)
            if examples is not None:
                out("    examples=%s" % type(examples).__name__)

    bad_inputs = [
        ("unknown type", [{"keyword": "Feature", "location": "x:1", "elements": [{"type": "rule"}]}]),
        ("missing type", [{"keyword": "Feature", "location": "x:1", "elements": [{"name": "n"}]}]),
        ("examples type", [{"keyword": "Feature", "location": "x:1",
                            "elements": [{"type": "examples"}]}]),
        ("bad location", [{"keyword": "Feature", "location": "nolocation"}]),
        ("no keyword", [{"location": "x:1"}]),
        ("bad scenario location", [{"keyword": "Feature", "location": "x:1", "elements": [
            {"type": "scenario", "location": "a:b:c"}]}]),
        ("bad status", [{"keyword": "Feature", "location": "x:1", "elements": [
            {"type": "scenario", "location": "x:2", "steps": [
                {"location": "x:3", "result": {"status": "no_such"}}]}]}]),
        ("not a list", {"location": "x:1"}),
        ("element after bad element", [{"keyword": "Feature", "location": "x:1", "elements": [
            {"type": "scenario", "location": "x:2", "name": "ok"},
            {"type": "bogus"},
            {"type": "scenario", "location": "x:3", "name": "never"}]}]),
    ]
    for label, data in bad_inputs:
        parser = JsonParser()
        guarded("parse_features[%s]" % label, parser.parse_features, data)

    parser = JsonParser()
    from behave import model
    feature = model.Feature(u"z.feature", 1, u"Feature", u"Z")
    for element in ({"type": "scenario", "location": "z.feature:2", "name": "A"},
                    {"type": "background", "location": "z.feature:3", "name": "B"},
                    {"type": "scenario_outline", "location": "z.feature:4",
                     "name": "C"},
                    {"type": "background", "location": "z.feature:5", "name": "D"},
                    {"type": "nonsense"}):
        guarded("add_feature_element[%s]" % element.get("type"),
                parser.add_feature_element, feature, element)
    out("feature.background=%r scenarios=%r outline=%r" % (
        feature.background.name, [s.name for s in feature.scenarios],
        parser.current_scenario_outline.name))


def part_make_formatters():
    section("UNIT: make_formatters")
    from behave.formatter._registry import make_formatters
    from behave.formatter.base import StreamOpener
    config = FakeConfig(format=["plain", "json", "progress"])
    s1, s2 = io.StringIO(), io.StringIO()
    formatters = make_formatters(config, [StreamOpener(stream=s1),
                                          StreamOpener(stream=s2)])
    out("formatters: %r" % [type(f).__name__ for f in formatters])
    out("streams: %r" % [f.stream is s1 or (f.stream is s2 and 2) or
                         (f.stream is not None and "other")
                         for f in formatters])
    config = FakeConfig(format=["plain", "nope"])
    guarded("make_formatters[unknown]", make_formatters, config, [])


def main():
    os.chdir(HERE)
    part_runs()
    part_describe_table()
    part_json_formatter()
    part_plain_progress()
    part_json_parser()
    part_make_formatters()
    if os.path.isdir(WORK):
        shutil.rmtree(WORK)
    return 0


if __name__ == "__main__":
    sys.exit(main())
