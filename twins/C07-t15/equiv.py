# -*- coding: UTF-8 -*-
"""
Equivalence transcript for property C07 (tag expressions v2).
Prints a canonical transcript of observed behaviour of:

  * make_tag_expression(text, protocol).check(tags) -- complete truth tables
  * str() / to_string() / repr() of parsed expressions and re-parsing them
  * text normalisation ('@' removal, list-of-terms form, extra spaces)
  * operand factory (Literal vs. Matcher), Matcher.evaluate
  * TagExpressionProtocol: from_name / use / current / parse / auto-detect
  * Configuration.setup_tag_expression with the {config.tags} placeholder
  * error cases (exception types and messages)
"""
from __future__ import absolute_import, print_function
import sys
sys.dont_write_bytecode = True
sys.path.insert(0, "/tmp/wtW/C07")

import itertools
import random

from behave.tag_expression import builder as _builder
from behave.tag_expression import make_tag_expression, TagExpressionProtocol
from behave.tag_expression.builder import (
    _parse_tag_expression_v2, _select_tag_expression_parser4auto,
)
from behave.tag_expression.parser import TagExpressionParser, TagExpressionError
from behave.tag_expression.model import (
    Expression, Literal, And, Or, Not, True_, Matcher, Never
)
from behave.configuration import Configuration

assert _builder.__file__.startswith("/tmp/wtW/C07/"), _builder.__file__

UNIVERSE = ["a", "b", "a.b", "a-b", "k=v", "A", "ab", "foo.bar"]
OPERANDS = ["a", "b", "a.b", "a-b", "k=v", "a*", "?", "[ab]", "*.b*", "A",
            "a?b", "k=*", "foo.*"]
PROTOCOLS = [None, TagExpressionProtocol.V2, TagExpressionProtocol.AUTO_DETECT,
             TagExpressionProtocol.V1, TagExpressionProtocol.STRICT]


def out(*parts):
    print(" ".join(str(p) for p in parts))


def describe_error(e):
    return "%s: %s | args=%r" % (type(e).__name__, e, e.args)


def all_subsets(universe):
    for size in range(len(universe) + 1):
        for subset in itertools.combinations(universe, size):
            yield list(subset)


SUBSETS = list(all_subsets(UNIVERSE))


def truth_table(expression, checker="check"):
    bits = []
    for subset in SUBSETS:
        try:
            value = getattr(expression, checker)(subset)
            if value is True:
                bits.append("1")
            elif value is False:
                bits.append("0")
            else:
                bits.append("<%r>" % (value,))
        except Exception as e:  # pylint: disable=broad-except
            bits.append("<%s>" % describe_error(e))
    return "".join(bits)


def tree_repr(expression):
    """Structure of the parsed tree (class names and operand texts)."""
    if isinstance(expression, (And, Or)):
        return "%s(%s)" % (type(expression).__name__,
                           ", ".join(tree_repr(t) for t in expression.terms))
    if isinstance(expression, Not):
        return "Not(%s)" % tree_repr(expression.term)
    if isinstance(expression, (Literal, Matcher)):
        return "%s<%s>" % (type(expression).__name__, expression.name)
    return "%s<>" % type(expression).__name__


def observe(text, protocol=None, label=None):
    label = label or "EXPR"
    pname = getattr(protocol, "name", None)
    try:
        expression = make_tag_expression(text, protocol)
    except Exception as e:  # pylint: disable=broad-except
        out(label, repr(text), pname, "=> RAISES", describe_error(e))
        return None
    try:
        text1 = str(expression)
        text2 = expression.to_string()
        text3 = expression.to_string(pretty=False)
        text4 = "{0}".format(expression)
    except Exception as e:  # pylint: disable=broad-except
        out(label, repr(text), pname, "=> STR RAISES", describe_error(e))
        return expression
    out(label, repr(text), pname, "=>", type(expression).__name__,
        "tree=" + (tree_repr(expression) if isinstance(expression, Expression)
                   else "n/a"),
        "str=%r" % text1, "pretty=%r" % text2, "plain=%r" % text3,
        "fmt=%r" % text4, "repr=%r" % (expression,))
    table = truth_table(expression)
    out("  TABLE", table)
    if isinstance(expression, Expression):
        out("  EVAL-SAME", truth_table(expression, "evaluate") == table)
        # -- ROUND-TRIP: printing and re-parsing
        for kind, printed in (("str", text1), ("pretty", text2)):
            try:
                again = make_tag_expression(printed, TagExpressionProtocol.V2)
                out("  REPARSE", kind, "same-table=%s" % (truth_table(again) == table),
                    "tree=" + tree_repr(again), "str=%r" % str(again))
            except Exception as e:  # pylint: disable=broad-except
                out("  REPARSE", kind, "RAISES", describe_error(e))
    return expression


# -----------------------------------------------------------------------------
# EXPRESSION GENERATORS
# -----------------------------------------------------------------------------
def gen_trees(depth, operands):
    if depth == 0:
        for operand in operands:
            yield ("lit", operand)
        return
    for tree in gen_trees(depth - 1, operands):
        yield tree
    subtrees = list(gen_trees(depth - 1, operands))
    for sub in subtrees:
        yield ("not", sub)
    for lhs in subtrees:
        for rhs in subtrees:
            yield ("and", lhs, rhs)
            yield ("or", lhs, rhs)


def render(tree, style):
    """style: 0=plain minimal parens, 1=@-prefix, 2=redundant parens+spaces."""
    kind = tree[0]
    if kind == "lit":
        name = tree[1]
        if style == 1:
            name = "@" + name
        if style == 2:
            return "( %s )" % name
        return name
    if kind == "not":
        inner = render(tree[1], style)
        if style == 2:
            return "not  ( %s )" % inner
        return "not (%s)" % inner
    lhs = render(tree[1], style)
    rhs = render(tree[2], style)
    if style == 2:
        return "((%s)  %s  (%s))" % (lhs, kind, rhs)
    return "(%s %s %s)" % (lhs, kind, rhs)


def random_tree(rng, depth):
    if depth == 0 or rng.random() < 0.25:
        return ("lit", rng.choice(OPERANDS))
    choice = rng.choice(["not", "and", "or", "and", "or"])
    if choice == "not":
        return ("not", random_tree(rng, depth - 1))
    return (choice, random_tree(rng, depth - 1), random_tree(rng, depth - 1))


# -----------------------------------------------------------------------------
# SECTIONS
# -----------------------------------------------------------------------------
def section_fixed():
    out("== SECTION: fixed expressions, all protocols")
    texts = [
        "", " ", "  ", "a", "@a", "not a", "not @a", "a and b", "a or b",
        "@a and @b", "@a or not @b", "not not a", "not (a)", "not (a and b)",
        "not (a or b)", "not a*", "not (a* or ?)", "(a)", "((a))",
        "a and b or a.b", "a or b and a.b", "a and (b or a.b)",
        "(a and b) or (a-b and not k=v)", "a*", "*", "?", "??", "[ab]",
        "[!a]", "a.*", "*.b", "*=v", "k=*", "A", "a? or A",
        "a   and    b", "  a and b  ", "a  and  b", "(  a  )", "( a and b )",
        "not(a)", "a and(b)", "(a)and(b)", "@foo.bar and not @a-b",
        "a b", "a and", "and a", "or", "not", "(", ")", "( a", "a )", "()",
        "a and or b", "a not b", "not and a", "a (b)", "(a) b",
        "a, b", "~a", "-a", "~@a", "-@a", "a ~b", "@a,@b", "~a and b",
        "-a or b", "not ~a", "a@b", "@", "@@a", "a and @", "a\\ b",
        "a\\(b\\)", "not a\\*", "\\", "a\\",
        "a or b or a.b", "a and b and a.b", "a and b and not a.b",
        "not a and not b", "not a or not b", "never", "true", "True",
        u"ä or a", "a\tand\tb", "a\nor\nb",
    ]
    for text in texts:
        for protocol in PROTOCOLS:
            observe(text, protocol)


def section_sequences():
    out("== SECTION: list-of-terms form")
    sequences = [
        [], (), ["a"], ("a",), ["a", "b"], ("a", "b"), ["@a", "@b"],
        ["a or b", "a.b"], ["a or b", "not a.b"], ["not a", "not b"],
        ["a*", "?"], ["a", "", "b"], [""], ["", ""], ["a,b", "c"],
        ["~a", "b"], ["-a"], ["@a,@b", "~@a.b"], ["a  or  b", "  A  "],
        ["(a", "b)"], ["a)", "(b"], ["a and", "b"], ["@a", "@k=v", "@a-b"],
        [1, 2], ["a", None], [["a"], "b"], ["a", u"b"], ["{0}"], ["{", "}"],
        ["%s", "a"],
    ]
    for sequence in sequences:
        for protocol in PROTOCOLS:
            observe(sequence, protocol, label="SEQ")
    out("== SECTION: bad types")
    for bad in [None, 1, 1.5, {"a": 1}, set(["a"]), b"a and b", object, True]:
        for protocol in PROTOCOLS:
            observe(bad, protocol, label="BAD")
        try:
            _parse_tag_expression_v2(bad)
            out("  V2-DIRECT ok")
        except Exception as e:  # pylint: disable=broad-except
            out("  V2-DIRECT RAISES", type(e).__name__, e.args[:1])


def section_exhaustive():
    out("== SECTION: exhaustive trees depth<=2 over small alphabet, 3 renderings")
    operands = ["a", "a.b", "a*", "?"]
    count = 0
    for tree in gen_trees(2, operands):
        tables = []
        printed = []
        for style in (0, 1, 2):
            text = render(tree, style)
            expression = make_tag_expression(text, TagExpressionProtocol.V2)
            table = truth_table(expression)
            tables.append(table)
            printed.append((str(expression), expression.to_string(),
                            tree_repr(expression)))
            again = make_tag_expression(expression.to_string(),
                                        TagExpressionProtocol.V2)
            again2 = make_tag_expression(str(expression),
                                         TagExpressionProtocol.V2)
            assert_same = (truth_table(again) == table,
                           truth_table(again2) == table)
            if assert_same != (True, True):
                out("ROUNDTRIP-DIFF", text, assert_same)
        count += 1
        out("TREE", render(tree, 0), "|", printed[0][0], "|", printed[0][1],
            "|", printed[0][2], "| same-renderings=%s" % (len(set(tables)) == 1),
            "same-printed=%s" % (len(set(printed)) == 1), "|", tables[0])
    out("TREES", count)


def section_random():
    out("== SECTION: random larger trees")
    rng = random.Random(20240707)
    for index in range(150):
        tree = random_tree(rng, 5)
        style = index % 3
        text = render(tree, style)
        protocol = PROTOCOLS[index % 3]
        observe(text, protocol, label="RND%03d" % index)
    out("== SECTION: random list-of-terms")
    for index in range(40):
        terms = [render(random_tree(rng, 2), rng.choice([0, 1, 2]))
                 for _ in range(rng.randint(1, 4))]
        if index % 2:
            terms = tuple(terms)
        observe(terms, PROTOCOLS[index % 3], label="RSEQ%02d" % index)


def section_model():
    out("== SECTION: model classes, operand factory")
    for text in OPERANDS + ["", "*", "a[", "a]", "[", "]", "[]", "[a", "a\\*",
                            "!", "a!", "{a,b}", "a b", u"ä*"]:
        operand = TagExpressionParser.make_operand(text)
        out("OPERAND", repr(text), type(operand).__name__, repr(operand),
            "str=%r" % str(operand), "name=%r" % operand.name,
            "wild=%r" % Matcher.contains_wildcards(text),
            truth_table(operand))
    for bad in [None, 1]:
        try:
            out("OPERAND", repr(bad), repr(TagExpressionParser.make_operand(bad)))
        except Exception as e:  # pylint: disable=broad-except
            out("OPERAND", repr(bad), "RAISES", type(e).__name__)

    class Recorder(object):
        """Iterable that records how far it was consumed."""
        def __init__(self, values):
            self.values = values
            self.seen = []

        def __iter__(self):
            for value in self.values:
                self.seen.append(value)
                yield value

    for pattern in ["a*", "?", "*.b", "[ab]", "zzz*", "A*", "", "*"]:
        matcher = Matcher(pattern)
        for values in (["x", "ab", "a.b", "b"], [], ["A"], ["", "a"], ("a", "b"),
                       set(["a"]), "ab", {"ab": 1}):
            recorder = Recorder(values)
            result = matcher.evaluate(recorder)
            out("MATCHER", repr(pattern), repr(sorted(values) if isinstance(values, set) else values),
                repr(result), "consumed=%r" % (recorder.seen,))
        gen = (x for x in ["q", "a1", "a2", "a3"])
        out("MATCHER-GEN", repr(pattern), matcher.evaluate(gen), "rest=%r" % list(gen))
        for badvalues in (None, 1, [1], [None], [b"a"]):
            try:
                out("MATCHER-BAD", repr(pattern), repr(badvalues),
                    repr(matcher.evaluate(badvalues)))
            except Exception as e:  # pylint: disable=broad-except
                out("MATCHER-BAD", repr(pattern), repr(badvalues), "RAISES",
                    type(e).__name__)
    for pattern in [None, 1, b"a*"]:
        matcher = Matcher(pattern)
        try:
            out("MATCHER-BADPAT", repr(pattern), repr(str(matcher)) if pattern == "x" else "",
                repr(matcher), matcher.evaluate(["a"]))
        except Exception as e:  # pylint: disable=broad-except
            out("MATCHER-BADPAT", repr(pattern), "RAISES", type(e).__name__)
        try:
            out("MATCHER-BADPAT-EMPTY", repr(pattern), matcher.evaluate([]))
        except Exception as e:  # pylint: disable=broad-except
            out("MATCHER-BADPAT-EMPTY", repr(pattern), "RAISES", type(e).__name__)

    a, b, m = Literal("a"), Literal("b"), Matcher("a*")
    handmade = [
        Not(a), Not(m), Not(Not(a)), Not(And(a, b)), Not(Or(a, m)), Not(And()),
        Not(Or()), Not(True_()), Not(Never()), Never(), True_(), And(), Or(),
        And(a), Or(a), And(a, Not(b), m), Or(Not(And(a, b)), Not(Not(m))),
        Not(And(Not(a))), Not(Literal("x y")), Not(Literal("")),
        And(Not(Or(a, b)), Or(Not(a), Not(Matcher("?")))),
        Not("plain-text"), Not(None), Not(42),
    ]
    for expression in handmade:
        try:
            out("MODEL", repr(expression), "str=%r" % str(expression),
                "pretty=%r" % expression.to_string(),
                "pretty1=%r" % expression.to_string(True),
                "pretty0=%r" % expression.to_string(0),
                "plain=%r" % expression.to_string(pretty=False),
                "prettyNone=%r" % expression.to_string(None),
                "prettyStr=%r" % expression.to_string("no"))
        except Exception as e:  # pylint: disable=broad-except
            out("MODEL", "RAISES", describe_error(e))
        try:
            out("  TABLE", truth_table(expression))
        except Exception as e:  # pylint: disable=broad-except
            out("  TABLE RAISES", describe_error(e))
    out("PATCHED", Expression.check.__name__, Expression.to_string.__name__,
        Not.__str__.__name__, Not.check is Expression.check,
        Matcher.check is Expression.check,
        isinstance(Matcher.__dict__["contains_wildcards"], staticmethod),
        isinstance(TagExpressionParser.__dict__["make_operand"], classmethod))

    class MyParser(TagExpressionParser):
        made = []

        @classmethod
        def make_operand(cls, text):
            cls.made.append(text)
            return super(MyParser, cls).make_operand(text)

    expression = MyParser.parse("a and b* or not ?")
    out("SUBPARSER", MyParser.made, tree_repr(expression))


def sel_text(selector):
    if isinstance(selector, TagExpressionProtocol):
        return str(selector)
    return repr(selector)


def section_protocol():
    out("== SECTION: TagExpressionProtocol")
    out("CHOICES", TagExpressionProtocol.choices())
    out("MEMBERS", [m.name for m in TagExpressionProtocol],
        sorted(TagExpressionProtocol.__members__))
    for name in ["v1", "V1", "v2", "V2", "auto_detect", "AUTO_DETECT", "Auto_Detect",
                 "strict", "STRICT", "default", "DEFAULT", "", "v3", "any", " v1",
                 "_current", "parse"]:
        try:
            out("FROM_NAME", repr(name), TagExpressionProtocol.from_name(name))
        except Exception as e:  # pylint: disable=broad-except
            out("FROM_NAME", repr(name), "RAISES", describe_error(e))
    for bad in [None, 1]:
        try:
            out("FROM_NAME", repr(bad), TagExpressionProtocol.from_name(bad))
        except Exception as e:  # pylint: disable=broad-except
            out("FROM_NAME", repr(bad), "RAISES", type(e).__name__)

    out("HAS-CURRENT-INITIALLY", "_current" in TagExpressionProtocol.__dict__)
    out("CURRENT", TagExpressionProtocol.current())
    probes = ["a b", "a and b", "~a", "a,b", "a*", "a", "", ["a", "b"], ["a or b", "c"]]

    def probe_all():
        for text in probes:
            try:
                expression = make_tag_expression(text)
                out("    PROBE", repr(text), type(expression).__module__.split(".")[-1],
                    type(expression).__name__, repr(str(expression)))
            except Exception as e:  # pylint: disable=broad-except
                out("    PROBE", repr(text), "RAISES", describe_error(e))

    probe_all()
    for selector in ["v1", TagExpressionProtocol.V2, "strict", "auto_detect", "V2",
                     TagExpressionProtocol.V1, TagExpressionProtocol.DEFAULT,
                     "bogus", None, 1, TagExpressionProtocol.STRICT,
                     TagExpressionProtocol.AUTO_DETECT]:
        try:
            result = TagExpressionProtocol.use(selector)
            out("USE", sel_text(selector), "->", repr(result),
                "current=%s" % TagExpressionProtocol.current(),
                "attr=%s" % TagExpressionProtocol.__dict__.get("_current"))
        except Exception as e:  # pylint: disable=broad-except
            out("USE", sel_text(selector), "RAISES", describe_error(e),
                "current=%s" % TagExpressionProtocol.current())
        probe_all()

    out("== SECTION: auto-detect selection")
    texts = ["", "a", "@a", "a b", "@a @b", "a and b", "a or b", "not a", "(a)",
             "a(b", "a)b", "~a", "-a", "a,b", "a, b", "a ,b", ",", "~", "-",
             "a~b", "a-b", "a -b", "a*", "a?", "[a]", "~a*", "-a?", "~a and b",
             "-a (b)", "~a b", "a,b and c", "a,b*", "and", "And", "AND", "nota",
             "android", "a.and", "x not", "(", ")", "a,b c", "~a,~b", "@a,@b @c",
             "a  b", "not -a", "@a-b", "@-a", "--a", "a* b", "a,b)", "\\(", "a\\ b"]
    for text in texts:
        for form in (text, text.split(), tuple(text.split())):
            try:
                func = _select_tag_expression_parser4auto(form)
                out("SELECT", repr(form), func.__name__)
            except Exception as e:  # pylint: disable=broad-except
                out("SELECT", repr(form), "RAISES", describe_error(e))
    for bad in [None, 1, {"a": 1}, b"a", [1], ["a", None]]:
        try:
            out("SELECT", repr(bad), _select_tag_expression_parser4auto(bad).__name__)
        except Exception as e:  # pylint: disable=broad-except
            out("SELECT", repr(bad), "RAISES", type(e).__name__, e.args[:1])
    for helper_name, args in [
        ("_any_word_is_keyword", (["a", "and"], ["and", "or"])),
        ("_any_word_is_keyword", (["a", "android"], ["and", "or"])),
        ("_any_word_is_keyword", ([], ["and"])),
        ("_any_word_is_keyword", (["a"], [])),
        ("_any_word_contains_keyword", (["a,b"], [","])),
        ("_any_word_contains_keyword", (["a", "b"], [","])),
        ("_any_word_contains_keyword", ([], [","])),
        ("_any_word_contains_keyword", (["a"], [])),
        ("_any_word_contains_wildcards", (["a", "b*"],)),
        ("_any_word_contains_wildcards", (["a", "b"],)),
        ("_any_word_contains_wildcards", ([],)),
        ("_any_word_starts_with", (["a", "~b"], ["~", "-"])),
        ("_any_word_starts_with", (["a", "b-"], ["~", "-"])),
        ("_any_word_starts_with", (["-a"], ["~", "-"])),
        ("_any_word_starts_with", ([], ["~", "-"])),
        ("_any_word_starts_with", (["a"], [])),
        ("_any_word_starts_with", ([""], ["~"])),
    ]:
        helper = getattr(_builder, helper_name, None)
        if helper is None:
            continue
        result = helper(*args)
        out("HELPER", helper_name, args, repr(result))


def section_configuration():
    out("== SECTION: Configuration.setup_tag_expression / {config.tags}")
    UNSET = object()
    config_tags_values = [None, "", "a", "@a", "not a", "a and b", "a or b",
                          "not (a or b)", "a* and not ?", "@a.b or @k=v",
                          ["a", "b"], ["a or b", "not a.b"], "a b", "~a", "a,b",
                          "not a*", "(a or b) and not (a.b and A)"]
    tags_values = [
        None, "", "{config.tags}", "not {config.tags}", "{config.tags} and A",
        "({config.tags}) and A", "not ({config.tags}) or ab",
        "{config.tags} or {config.tags}", "A", "{config.tag}", "{config.tags",
        ["{config.tags}"], ["{config.tags}", "A"], ["A", "not {config.tags}"],
        ["A", "ab"], ["not ({config.tags})", "{config.tags} or ab", "A"],
        [], ("A", "ab"), ("{config.tags}", "A"), ("A", "{config.tags}"), (),
        ["A", 1], [1, "{config.tags}"], ["{config.tags}", None], 42,
    ]
    protocols = [UNSET, TagExpressionProtocol.V2, TagExpressionProtocol.AUTO_DETECT,
                 "v2", "v1"]
    for protocol in protocols:
        for config_tags in config_tags_values:
            for tags in tags_values:
                for via_param in (False, True):
                    if via_param and not tags:
                        continue
                    config = Configuration(command_args=[], load_config=False)
                    if protocol is not UNSET:
                        config.tag_expression_protocol = protocol
                    config.config_tags = (list(config_tags)
                                          if isinstance(config_tags, list) else config_tags)
                    tags_in = list(tags) if isinstance(tags, list) else tags
                    tags_id = id(tags_in)
                    head = "CONFIG proto=%s config_tags=%r tags=%r param=%s" % (
                        getattr(protocol, "name", protocol if protocol is not UNSET else "unset"),
                        config_tags, tags, via_param)
                    old_tags = config.tags
                    old_expr = config.tag_expression
                    try:
                        if via_param:
                            result = config.setup_tag_expression(tags_in)
                        else:
                            config.tags = tags_in
                            old_tags = tags_in
                            result = config.setup_tag_expression()
                    except Exception as e:  # pylint: disable=broad-except
                        out(head, "=> RAISES", describe_error(e),
                            "tags_in_after=%r" % (tags_in,),
                            "config.tags-unchanged=%s" % (config.tags is old_tags),
                            "expr-unchanged=%s" % (config.tag_expression is old_expr),
                            "current=%s" % TagExpressionProtocol.current())
                        continue
                    expression = config.tag_expression
                    out(head, "=>", repr(result), "config.tags=%r" % (config.tags,),
                        "same-object=%s" % (id(config.tags) == tags_id),
                        "tags_in_after=%r" % (tags_in,),
                        "expr=%s:%r" % (type(expression).__name__, str(expression)),
                        "current=%s" % TagExpressionProtocol.current())
                    out("  TABLE", truth_table(expression))

    out("== SECTION: Configuration via command line")
    arg_sets = [
        [], ["--tags=a"], ["--tags=a and b"], ["--tags=not @a", "--tags=@b or @A"],
        ["--tags={config.tags} and A"], ["--tags", "a*", "--tags", "not ?"],
        ["--tags=~a"], ["--tags=a,b", "--tags=A"], ["--tag-expression-protocol=v2", "--tags=a b"],
        ["--tag-expression-protocol=strict", "--tags=(a or b) and not a.b"],
        ["--tag-expression-protocol=v1", "--tags=a,b"],
        ["--tag-expression-protocol=auto_detect", "--tags=~a and b"],
        ["--tags=a and"], ["--wip"], ["--wip", "--tags=a"],
    ]
    for args in arg_sets:
        for config_tags in (None, "a or b", "not a*"):
            try:
                config = Configuration(command_args=list(args), load_config=False,
                                       config_tags=config_tags)
                expression = config.tag_expression
                out("CMDLINE", args, "config_tags=%r" % (config_tags,), "=>",
                    "tags=%r" % (config.tags,),
                    "proto=%s" % config.tag_expression_protocol,
                    "expr=%s:%r" % (type(expression).__name__, str(expression)),
                    "current=%s" % TagExpressionProtocol.current())
                out("  TABLE", truth_table(expression))
            except SystemExit as e:
                out("CMDLINE", args, "config_tags=%r" % (config_tags,), "SystemExit", e.code)
            except Exception as e:  # pylint: disable=broad-except
                out("CMDLINE", args, "config_tags=%r" % (config_tags,), "RAISES",
                    describe_error(e))


def main():
    section_protocol()      # -- FIRST: observes initial state of TagExpressionProtocol
    TagExpressionProtocol.use(TagExpressionProtocol.DEFAULT)
    section_model()
    section_fixed()
    section_sequences()
    section_exhaustive()
    section_random()
    section_configuration()
    TagExpressionProtocol.use(TagExpressionProtocol.DEFAULT)
    out("== DONE")


if __name__ == "__main__":
    main()
