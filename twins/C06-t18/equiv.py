# -*- coding: UTF-8 -*-
"""Equivalence transcript for property C06 (ScenarioOutline expansion).

Exercises ScenarioOutline.scenarios / ScenarioOutlineBuilder through the
parser and the public model API and prints a canonical transcript.
"""
from __future__ import print_function, unicode_literals
import sys
sys.path.insert(0, "/tmp/wtW/C06")

import contextlib
import io
import os
import subprocess
import tempfile
import shutil

import six
from behave import model
from behave.model import (ScenarioOutline, ScenarioOutlineBuilder, Examples,
                          Table, Row, Step, Tag, Scenario, Background)
from behave.model_core import Status
from behave.parser import parse_feature

assert model.__file__.startswith("/tmp/wtW/C06/"), model.__file__

OUT = []


def emit(*parts):
    OUT.append(u" ".join(six.text_type(p) for p in parts))


@contextlib.contextmanager
def captured_stdout():
    old = sys.stdout
    buf = io.StringIO() if six.PY3 else io.BytesIO()
    sys.stdout = buf
    try:
        yield buf
    finally:
        sys.stdout = old


def outcome(func, *args, **kwargs):
    try:
        return "OK %r" % (func(*args, **kwargs),)
    except Exception as e:     # pylint: disable=broad-except
        return "EXC %s: %s" % (e.__class__.__name__, e)


def dump_table(table, indent):
    if table is None:
        emit(indent, "table: None")
        return
    emit(indent, "table: line=%r headings=%r modified=%r" %
         (table.line, table.headings, table.modified))
    for row in table.rows:
        emit(indent, "  row line=%r cells=%r headings_shared=%r" %
             (row.line, row.cells, row.headings is table.headings))


def dump_step(step, indent):
    emit(indent, "step %r %r %r line=%r status=%s" %
         (step.keyword, step.step_type, step.name, step.line, step.status))
    emit(indent, "  text=%r" % (step.text,))
    dump_table(step.table, indent + "  ")


def dump_scenario(scenario, indent="    "):
    emit(indent, "SCENARIO name=%r" % scenario.name)
    emit(indent, "  keyword=%r line=%r filename=%r location=%s" %
         (scenario.keyword, scenario.line, scenario.filename, scenario.location))
    emit(indent, "  tags=%r tag_types=%r" %
         (scenario.tags, sorted(set(type(t).__name__ for t in scenario.tags))))
    emit(indent, "  tag_lines=%r" % ([getattr(t, "line", "-") for t in scenario.tags],))
    emit(indent, "  effective_tags=%r" % (sorted(scenario.effective_tags),))
    emit(indent, "  description=%r" % (scenario.description,))
    row = getattr(scenario, "_row", None)
    if row is not None:
        emit(indent, "  _row: id=%r index=%r line=%r cells=%r" %
             (row.id, row.index, row.line, row.cells))
    emit(indent, "  parent=%r feature=%r background=%r" %
         (scenario.parent, scenario.feature, scenario.background))
    own_background_steps = scenario._background_steps
    emit(indent, "  own_background_steps=%s" %
         ("None" if own_background_steps is None else len(own_background_steps)))
    if own_background_steps is not None:
        for step in own_background_steps:
            dump_step(step, indent + "    B:")
    for step in scenario.steps:
        dump_step(step, indent + "    ")
    emit(indent, "  all_steps=%r" % ([s.name for s in scenario.all_steps],))


def dump_outline_template(outline, indent="  "):
    emit(indent, "TEMPLATE name=%r line=%r tags=%r" %
         (outline.name, outline.line, outline.tags))
    for step in outline.steps:
        dump_step(step, indent + "  T:")
    for example in outline.examples:
        emit(indent, "  EXAMPLES name=%r line=%r tags=%r index=%r" %
             (example.name, example.line, example.tags, example.index))
        dump_table(example.table, indent + "    ")
        if example.table is not None:
            for row in example.table.rows:
                emit(indent, "      row.id=%r row.index=%r" %
                     (getattr(row, "id", "<unset>"), getattr(row, "index", "<unset>")))


def outlines_of(feature):
    for run_item in feature.run_items:
        if isinstance(run_item, ScenarioOutline):
            yield run_item
        elif hasattr(run_item, "run_items"):   # Rule
            for item in run_item.run_items:
                if isinstance(item, ScenarioOutline):
                    yield item


def expand_and_dump(title, text, schemas=(None,)):
    emit("=" * 70)
    emit("FEATURE-CASE:", title)
    for schema in schemas:
        emit("-" * 50)
        emit("schema=%r" % (schema,))
        feature = parse_feature(text, filename="case.feature")
        for outline in outlines_of(feature):
            if schema is not None:
                outline.annotation_schema = schema
            emit("  OUTLINE %r expected_count=%r modified_any=%r status_before=%s" %
                 (outline.name, outline._expected_scenarios_count(),
                  outline._is_any_example_table_modified(),
                  outline.compute_status()))
            emit("  duration_before=%r cached_before=%r" %
                 (outline.duration, len(outline._scenarios)))
            dump_outline_template(outline, "  BEFORE:")
            with captured_stdout() as buf:
                try:
                    scenarios = outline.scenarios
                except Exception as e:  # pylint: disable=broad-except
                    emit("  EXPANSION-EXC %s: %s" % (e.__class__.__name__, e))
                    emit("  stdout=%r" % buf.getvalue())
                    continue
            emit("  stdout=%r" % buf.getvalue())
            emit("  count=%d modified_any_after=%r" %
                 (len(scenarios), outline._is_any_example_table_modified()))
            for scenario in scenarios:
                dump_scenario(scenario)
            dump_outline_template(outline, "  AFTER:")
            # -- CACHING: second access gives the very same objects.
            again = outline.scenarios
            emit("  cache: same_list=%r same_items=%r iter_same=%r" %
                 (again is scenarios,
                  all(a is b for a, b in zip(again, scenarios)),
                  [s for s in outline] == list(scenarios)))
            emit("  status_after=%s duration_after=%r" %
                 (outline.compute_status(), outline.duration))
    return feature


# ---------------------------------------------------------------------------
# CASES: parsed features
# ---------------------------------------------------------------------------
FEATURE_BASIC = u'''
@feature_tag
Feature: Basic

  Background: Setup
    Given a background step

  @outline_tag @param.<name> @size:<size> @unknown.<nope>
  Scenario Outline: Greet <name> with <size>
    Some description <name>
    second line
    Given a person "<name>" of size <size>
    When text with placeholders:
      """
      Hello <name>, your size is <size>.
      No <nope> here and plain text.
      """
    Then table with placeholders:
      | col_<name> | fixed | <size> |
      | <name>     | x     | <size> |
      | <size><name> | <nope> | plain |
    But a plain step without placeholders

    @ex1 @row.<name>
    Examples: Alpha <size>
      | name  | size |
      | Alice | 1    |
      | Bob   | 22   |

    Examples: Beta
      | size | name |
      | XL   | Zoe  |

    @ex3
    Examples:
      | size | name | other |

    @ex4a @ex4b
    Examples: Delta
      | name | size | unused |
      |      | 0    | u1     |
      | Ünï  | çé   | <name> |
      | <size> | name | size |
      | a b  | c,d  | <size><name> |
'''

FEATURE_PARAM_BACKGROUND = u'''
Feature: Parametrized background

  Background:
    Given a background step with <param>
    And a plain background step
      | h_<param> |
      | <param>   |

  Scenario Outline: Use <param>
    Given an outline step <param>

    Examples: E-<param>-<row.id>-<examples.index>
      | param |
      | one   |
      | two   |

    Examples:
      | param |
      | three |

  Scenario Outline: No placeholders at all
    Given a fixed step
    When another fixed step
      """
      fixed text
      """

    Examples:
      | whatever |
      | 1        |
      | 2        |
'''

FEATURE_NO_EXAMPLES = u'''
Feature: No examples
  Scenario Outline: Lonely <x>
    Given a step <x>
'''

FEATURE_NO_TABLE = u'''
Feature: No table
  Scenario Outline: Syndrome <x>
    Given a step <x>

    Examples: Without table

    Examples: With table
      | x |
      | 1 |

    Examples: Again without table
'''

FEATURE_SPECIAL_PLACEHOLDERS = u'''
Feature: Special placeholders
  @t.<row.id> @e.<examples.index>.<row.index> @n.<examples.name> @x.<a>
  Scenario Outline: Special <row.id> <row.index> <examples.index> <examples.name> <a>
    Given step <row.id> and <examples.name> and <a> and <b>
    When docstring:
      """
      <row.id> <a> <b> <examples.name>
      """

    @E.<a>
    Examples: First <a>
      | a   | b   |
      | <b> | val |
      | val | <a> |
      | x y | "q" |

    Examples: Second
      | b | a |
      | 1 | 2 |
'''

FEATURE_RULE = u'''
Feature: With rule
  Rule: R1
    Background:
      Given rule background <v>

    @rt
    Scenario Outline: In rule <v>
      Given step <v>

      Examples:
        | v |
        | 1 |
        | 2 |
'''

SCHEMAS = (
    None,
    u"{name} -- @{row.id} {examples.name}",
    u"{name} -*- {examples.name}@{row.id}",
    u"{examples.index}.{row.index}: {name}",
    u"{name}",
    u"{row.name}/{row.id}/{row.index}/{examples.id}/{examples.index}/{examples.name}",
    u"fixed",
)

expand_and_dump("basic", FEATURE_BASIC, SCHEMAS)
expand_and_dump("param-background", FEATURE_PARAM_BACKGROUND, SCHEMAS[:3])
expand_and_dump("no-examples", FEATURE_NO_EXAMPLES)
expand_and_dump("no-table", FEATURE_NO_TABLE, SCHEMAS[:2])
expand_and_dump("special-placeholders", FEATURE_SPECIAL_PLACEHOLDERS, SCHEMAS[:4])
expand_and_dump("rule", FEATURE_RULE)
expand_and_dump("bad-schema", FEATURE_NO_TABLE, (u"{name} {nope}", u"{row.nope}", u"{0}"))

# ---------------------------------------------------------------------------
# CASES: table API modifications => rebuild
# ---------------------------------------------------------------------------
emit("=" * 70)
emit("TABLE-API")
feature = parse_feature(FEATURE_BASIC, filename="api.feature")
outline = list(outlines_of(feature))[0]
first = outline.scenarios
emit("initial", len(first), [s.name for s in first])
emit("unmodified same:", outline.scenarios is first)

outline.examples[0].table.add_row([u"Carol", u"333"])
emit("after add_row modified=%r" % outline._is_any_example_table_modified())
second = outline.scenarios
emit("rebuilt:", second is not first, len(second))
for scenario in second:
    dump_scenario(scenario)
emit("stable:", outline.scenarios is second)

outline.examples[1].table.add_column(u"nope", values=[u"NOPE"])
third = outline.scenarios
emit("after add_column:", third is not second, len(third))
for scenario in third:
    dump_scenario(scenario)

outline.examples[2].table.add_row([u"S", u"N", u"O"], line=99)
outline.examples[3].table.add_column(u"extra", default_value=u"dflt")
fourth = outline.scenarios
emit("after add_row+add_column:", len(fourth), [(s.name, s.line, s.tags) for s in fourth])

outline.examples[3].table.remove_column(u"name")
fifth = outline.scenarios
emit("after remove_column:", len(fifth), [(s.name, s.line) for s in fifth])
for scenario in fifth[-2:]:
    dump_scenario(scenario)

outline.examples[0].table.clear()
sixth = outline.scenarios
emit("after clear:", len(sixth), [(s.name, s.line) for s in sixth])
emit("flags:", [e.table.modified for e in outline.examples])

outline.examples.append(Examples("api.feature", 200, u"Examples", u"Appended",
                                 tags=[Tag(u"app", 199)],
                                 table=Table([u"name", u"size"],
                                             rows=[[u"N1", u"S1"], [u"N2", u"S2"]],
                                             line=201)))
seventh = outline.scenarios
emit("after append examples:", len(seventh), [(s.name, s.line, s.tags) for s in seventh])
outline.examples.append(Examples("api.feature", 300, u"Examples", u"NoTable"))
emit("after append no-table (not modified):", outline.scenarios is seventh,
     outline._expected_scenarios_count())
outline.examples[0].table.modified = True
with captured_stdout() as buf:
    eighth = outline.scenarios
emit("rebuild with no-table:", len(eighth), repr(buf.getvalue()))
emit("indexes:", [e.index for e in outline.examples])
dump_outline_template(outline, "  FINAL:")

# -- outline without any examples: manual
manual = ScenarioOutline("m.feature", 1, u"Scenario Outline", u"M <a>",
                         steps=[Step("m.feature", 2, u"Given", "given", u"s <a>")])
emit("manual no examples:", manual.scenarios, manual._scenarios,
     manual._is_any_example_table_modified(), manual._expected_scenarios_count(),
     manual.compute_status())
manual.examples.append(Examples("m.feature", 5, u"Examples", u"",
                                table=Table([u"a"], rows=[[u"1"], [u"2"]], line=6)))
emit("manual status not built:", manual.compute_status(), manual.duration)
for scenario in manual.scenarios:
    dump_scenario(scenario)
emit("manual reset/status:", manual.reset(), manual.compute_status())

# ---------------------------------------------------------------------------
# CASES: direct builder calls
# ---------------------------------------------------------------------------
emit("=" * 70)
emit("DIRECT")
B = ScenarioOutlineBuilder
row_ab = Row([u"a", u"b"], [u"1", u"<a>"], line=7)
row_ba = Row([u"b", u"a"], [u"<a>", u"1"], line=7)
row_empty = Row([], [], line=1)
row_dup = Row([u"a", u"a"], [u"first", u"second"], line=3)


class DictLike(object):
    def __init__(self, pairs, truth=True):
        self.pairs = pairs
        self.truth = truth
        self.log = []

    def __bool__(self):
        self.log.append("bool")
        return self.truth
    __nonzero__ = __bool__

    def items(self):
        self.log.append("items")
        return iter(self.pairs)


texts = [u"", u"plain", u"<a>", u"<b>", u"<a><b>", u"<b><a>", u"a<b", u"a>b<",
         u"< a >", u"<<a>>", u"<A>", u"x <a> y <a> z", u"<c>", u"<row.id>",
         u"><", u"<>", u"<a", u"a>"]
providers = [
    ("none", None, None),
    ("row_ab", row_ab, None),
    ("row_ba", row_ba, None),
    ("row_empty+params", row_empty, {u"a": u"P"}),
    ("row_dup", row_dup, None),
    ("row+params", row_ab, {u"c": u"<a>", u"a": u"late", u"row.id": u"1.2"}),
    ("params-only", None, {u"a": u"<b>", u"b": u"<a>"}),
    ("empty-params", row_ab, {}),
    ("dict-row", {u"a": u"D"}, {u"b": u"E"}),
    ("empty-key", {u"": u"EMPTY"}, None),
]
for label, row, params in providers:
    for text in texts:
        emit("render", label, repr(text), "=>", outcome(B.render_template, text, row, params))
emit("render kw:", outcome(B.render_template, u"<a>", params={u"a": u"K"}))
emit("render kw2:", outcome(B.render_template, text=u"<a>", row=row_ab))
emit("render None text:", outcome(B.render_template, None, row_ab))
emit("render int value:", outcome(B.render_template, u"<a>", {u"a": 1}))
emit("render int value no-ph:", outcome(B.render_template, u"plain", {u"a": 1}))
emit("render int name:", outcome(B.render_template, u"<1>", {1: u"one"}))
emit("render none value:", outcome(B.render_template, u"<a> <b>", {u"b": u"B", u"a": None}))
emit("render list row:", outcome(B.render_template, u"<a>", [(u"a", u"1")]))
emit("render bad params:", outcome(B.render_template, u"<a>", row_ab, 5))
emit("render via instance:", outcome(B().render_template, u"<a>", row_ab))
for truth1 in (True, False):
    for truth2 in (True, False):
        d1 = DictLike([(u"a", u"<b>")], truth1)
        d2 = DictLike([(u"b", u"2")], truth2)
        emit("render dictlike", truth1, truth2,
             outcome(B.render_template, u"<a>/<b>", d1, d2), d1.log, d2.log)
d1 = DictLike([(u"a", u"1")], True)
d2 = DictLike([(u"b", u"2")], True)
emit("render dictlike no-ph", outcome(B.render_template, u"plain", d1, d2), d1.log, d2.log)
d1 = DictLike([(u"a", 1)], True)
d2 = DictLike([(u"b", u"2")], True)
emit("render dictlike exc", outcome(B.render_template, u"<a><b>", d1, d2), d1.log, d2.log)

emit("-- tags")
tag_sets = [
    None, [], [u"plain"], [u"<a>"], [u"t.<a>", u"t.<b>"], [u"<c>"], [u"x<c>y", u"keep"],
    [u"with space <a>"], [u"<b>.<a>"], [Tag(u"lined.<a>", 12), Tag(u"lined", 13)],
    [u"a<b"], [u">a<"], [u"use.with_<a>=<b>"], [u"<row.id>"],
]
for tags in tag_sets:
    for label, row, params in [("row_ab", row_ab, None),
                               ("row_ba+params", row_ba, {u"row.id": u"9.9", u"c": u"sp ace"}),
                               ("row_empty", row_empty, None)]:
        with captured_stdout() as buf:
            result = outcome(B.make_row_tags, tags, row, params)
        emit("tags", label, repr(tags), "=>", result, repr(buf.getvalue()))
emit("tags tuple:", outcome(B.make_row_tags, (u"<a>", u"q"), row_ab))
emit("tags int:", outcome(B.make_row_tags, [1], row_ab))
result = B.make_row_tags([Tag(u"l.<a>", 5), Tag(u"plain", 6)], row_ab)
emit("tags types:", [type(t).__name__ for t in result], [getattr(t, "line", None) for t in result])
emit("is_parametrized_tag:", [(t, B.is_parametrized_tag(t)) for t in texts])

emit("-- steps")


def make_step(name, text=None, table=None):
    step = Step("d.feature", 10, u"Given", "given", name)
    if text is not None:
        step.text = model.Text(text) if hasattr(model, "Text") else text
    step.table = table
    return step


shared_cells = [u"<a>", u"<b>", u"x"]
step_cases = [
    ("plain", make_step(u"plain")),
    ("name", make_step(u"use <a> and <b> and <c>")),
    ("text", make_step(u"s", text=u"doc <a>\n<b> <c>\n")),
    ("empty-text", make_step(u"s", text=u"")),
    ("table", make_step(u"s <a>", table=Table([u"h<a>", u"<b>"],
                                               rows=[[u"<a>", u"<b>"], [u"<b><a>", u"p"]], line=11))),
    ("empty-table", make_step(u"s", table=Table([u"<a>"], line=11))),
    ("no-headings", make_step(u"s", table=Table([], line=11))),
    ("aliased-cells", make_step(u"s", table=Table([u"c1", u"c2", u"c3"],
                                                   rows=[shared_cells, shared_cells], line=20))),
    ("text+table", make_step(u"<b>", text=u"<a>", table=Table([u"<a>"], rows=[[u"<b>"]], line=1))),
]
for label, step in step_cases:
    for rlabel, row, params in [("row_ab", row_ab, None),
                                ("row_ba", row_ba, {u"c": u"C"}),
                                ("row_dup", row_dup, None),
                                ("row_empty", row_empty, {u"a": u"only-params"})]:
        try:
            new_step = B.make_step_for_row(step, row, params)
        except Exception as e:      # pylint: disable=broad-except
            emit("step", label, rlabel, "EXC %s: %s" % (e.__class__.__name__, e))
            continue
        emit("step", label, rlabel, "new is not old:", new_step is not step,
             "type:", type(new_step).__name__, "text-type:", type(new_step.text).__name__)
        dump_step(new_step, "    new:")
        dump_step(step, "    old:")
        if new_step.table is not None:
            emit("    table copied:", new_step.table is not step.table,
                 "headings copied:", new_step.table.headings is not step.table.headings)
            if len(new_step.table.rows) == 2:
                emit("    alias kept:", new_step.table.rows[0].cells is new_step.table.rows[1].cells)
class NotAStep(object):
    def __repr__(self):
        return "<NotAStep>"


emit("step not-a-step:", outcome(B.has_parametrized_steps, [NotAStep()]))
emit("step dict-row:", B.make_step_for_row(step_cases[4][1], {u"a": u"DA"}).table.rows[0].cells)
emit("step int-value:", outcome(B.make_step_for_row, step_cases[4][1], {u"a": 1}))
emit("step int-value-name-only:", outcome(B.make_step_for_row, step_cases[0][1], {u"a": 1}))
emit("step int-value-empty-table:", outcome(
    lambda: B.make_step_for_row(step_cases[6][1], {u"a": 1}).name))

emit("-- names")
example = Examples("d.feature", 30, u"Examples", u"Ex <a> <row.id>")
example.index = 4
row_ab.index = 2
row_ab.id = "4.2"
for schema in SCHEMAS:
    builder = B(schema)
    full = {u"examples.index": u"4", u"row.index": u"2", u"row.id": u"4.2"}
    for params in (None, {}, dict(full), dict(full, **{u"row.id": u"custom"}),
                   dict(full, **{u"examples.name": u"ignored", u"a": u"shadow"})):
        before = None if params is None else dict(params)
        emit("name", repr(schema), repr(before), "=>",
             outcome(builder.make_scenario_name, u"Outline <a>/<b>/<row.index>/<examples.index>",
                     example, row_ab, params),
             "params-after:", None if params is None else sorted(params.items()))
plain_example = Examples("d.feature", 40, u"Examples", u"Plain")
plain_example.index = 7
for schema in SCHEMAS:
    emit("name plain", repr(schema), "=>",
         outcome(B(schema).make_scenario_name, u"No placeholders", plain_example, row_ab))
emit("name empty-example-name:", outcome(B().make_scenario_name, u"N", Examples("f", 1, u"Examples", u""),
                                         row_ab))
emit("builder default schema:", B().annotation_schema, B(u"").annotation_schema == u"",
     ScenarioOutline.annotation_schema)

emit("-- build_scenarios direct")
outline = ScenarioOutline("b.feature", 1, u"Scenario Outline", u"O <a>", tags=[u"t<a>"],
                          steps=[make_step(u"s <a> <row.id>")],
                          examples=[
                              Examples("b.feature", 5, u"Examples", u"E1", tags=[u"e1"],
                                       table=Table([u"a"], rows=[[u"1"], [u"2"]], line=6)),
                              Examples("b.feature", 10, u"Examples", u"E2"),
                              Examples("b.feature", 12, u"Examples", u"E3", tags=[u"e3"],
                                       table=Table([u"a"], rows=[], line=13)),
                              Examples("b.feature", 15, u"Examples", u"E4",
                                       table=Table([u"x", u"a"], rows=[[u"X", u"4"]], line=16)),
                          ])
with captured_stdout() as buf:
    built = B(u"{name}|{row.id}|{examples.name}|{examples.index}").build_scenarios(outline)
emit("stdout:", repr(buf.getvalue()))
emit("type:", type(built).__name__, len(built))
for scenario in built:
    dump_scenario(scenario)
emit("not cached by builder:", outline._scenarios)
emit("flags:", [None if e.table is None else e.table.modified for e in outline.examples],
     [e.index for e in outline.examples])


class ExplodingBuilder(ScenarioOutlineBuilder):
    calls = []

    def make_scenario_for(self, example, row, scenario_template, params):
        self.calls.append((example.index, row.id, row.index, sorted(params.items())))
        if row.id == "4.1":
            raise RuntimeError("boom at %s" % row.id)
        return super(ExplodingBuilder, self).make_scenario_for(example, row, scenario_template, params)


for e in outline.examples:
    if e.table is not None:
        e.table.modified = True
    e.index = None
with captured_stdout() as buf:
    emit("exploding:", outcome(ExplodingBuilder().build_scenarios, outline)[:60])
emit("stdout:", repr(buf.getvalue()))
emit("calls:", ExplodingBuilder.calls)
emit("flags after exc:", [None if e.table is None else e.table.modified for e in outline.examples],
     [e.index for e in outline.examples])

# ---------------------------------------------------------------------------
# CASES: python -m behave (dry-run and real run)
# ---------------------------------------------------------------------------
emit("=" * 70)
emit("SUBPROCESS")
workdir = tempfile.mkdtemp(prefix="c06_equiv_")
try:
    os.makedirs(os.path.join(workdir, "features", "steps"))
    with io.open(os.path.join(workdir, "features", "steps", "steps.py"), "w", encoding="utf-8") as f:
        f.write(u'''# -*- coding: UTF-8 -*-
from behave import step

@step(u'a person "{name}" of size {size}')
def step_person(ctx, name, size):
    pass

@step(u'text with placeholders:')
def step_text(ctx):
    print(u"TEXT:%s" % ctx.text)

@step(u'table with placeholders:')
def step_table(ctx):
    print(u"TABLE:%r %r" % (ctx.table.headings, [r.cells for r in ctx.table]))

@step(u'a plain step without placeholders')
def step_plain(ctx):
    pass

@step(u'a background step')
def step_background(ctx):
    pass
''')
    with io.open(os.path.join(workdir, "features", "environment.py"), "w", encoding="utf-8") as f:
        f.write(u'''# -*- coding: UTF-8 -*-
from __future__ import print_function
def before_scenario(ctx, scenario):
    print(u"HOOK before_scenario %s %r line=%s" % (scenario.name, sorted(scenario.tags), scenario.line))
''')
    with io.open(os.path.join(workdir, "features", "basic.feature"), "w", encoding="utf-8") as f:
        f.write(FEATURE_BASIC.replace(u'"<name>" of size <size>', u'"<name>." of size <size>.'))
    env = dict(os.environ)
    env["PYTHONPATH"] = "/tmp/wtW/C06"
    env["PYTHONIOENCODING"] = "utf-8"
    for extra in (["--dry-run"], [], ["--tags=ex4a"], ["--tags=param.Bob"], ["-n", "Zoe"],
                  ["--scenario-outline-annotation-schema", "{name} <{row.id}>", "--dry-run"]):
        cmd = [sys.executable, "-m", "behave", "-f", "plain", "--no-timings", "--no-capture",
               "--no-color"] + extra + ["features/basic.feature"]
        proc = subprocess.Popen(cmd, cwd=workdir, env=env, stdout=subprocess.PIPE,
                                stderr=subprocess.STDOUT)
        output = proc.communicate()[0].decode("utf-8")
        emit("CMD", extra, "rc=%s" % proc.returncode)
        for line in output.splitlines():
            if line.startswith("Took "):
                continue
            emit("  |", line.replace(workdir, "<WORKDIR>"))
finally:
    shutil.rmtree(workdir, ignore_errors=True)

text = u"\n".join(OUT) + u"\n"
if six.PY2:
    sys.stdout.write(text.encode("utf-8"))
else:
    sys.stdout.buffer.write(text.encode("utf-8"))
