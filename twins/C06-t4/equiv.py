# -*- coding: UTF-8 -*-
"""Equivalence transcript for property C06 (Scenario Outline expansion).

Prints a canonical transcript of what the scenario-outline expansion code
produces for a handful of representative and boundary feature files, plus a
few direct calls to the ScenarioOutlineBuilder helpers and one end-to-end
`python -m behave` run.  Run on the clean tree and on the patched tree;
the two transcripts must be identical.
"""
from __future__ import print_function
import sys
sys.path.insert(0, "/tmp/wtT/C06")

import os
import re
import shutil
import subprocess
import tempfile

import behave
from behave import parser
from behave.model import (ScenarioOutline, ScenarioOutlineBuilder, Examples,
                          Table, Row, Step, Tag, Scenario)

assert behave.__file__.startswith("/tmp/wtT/C06/"), behave.__file__
WORKTREE = "/tmp/wtT/C06"


def out(*args):
    print(*args)


# ---------------------------------------------------------------------------
# DUMP HELPERS
# ---------------------------------------------------------------------------
def dump_table(table, indent):
    if table is None:
        out("%stable: None" % indent)
        return
    out("%stable: headings=%r line=%r" % (indent, table.headings, table.line))
    for row in table.rows:
        out("%s  row line=%r cells=%r headings_shared=%r" % (
            indent, row.line, row.cells, row.headings is table.headings))


def dump_step(step, indent):
    out("%sstep %s|%s|%r line=%r status=%s" % (
        indent, step.keyword, step.step_type, step.name, step.line,
        step.status.name))
    out("%s  text: %r" % (indent, step.text))
    dump_table(step.table, indent + "  ")


def dump_scenario(scenario, indent="  "):
    out("%sSCENARIO %s name=%r" % (indent, type(scenario).__name__,
                                   scenario.name))
    out("%s  keyword=%r filename=%r line=%r" % (
        indent, scenario.keyword, scenario.filename, scenario.line))
    out("%s  location=%s" % (indent, scenario.location))
    out("%s  tags=%r tag_types=%r" % (
        indent, list(scenario.tags),
        sorted(set(type(t).__name__ for t in scenario.tags))))
    out("%s  tag_lines=%r" % (
        indent, [getattr(t, "line", None) for t in scenario.tags]))
    out("%s  description=%r" % (indent, scenario.description))
    row = getattr(scenario, "_row", None)
    if row is not None:
        out("%s  _row cells=%r id=%r index=%r line=%r" % (
            indent, row.cells, getattr(row, "id", None),
            getattr(row, "index", None), row.line))
    out("%s  background is template's: %r" % (
        indent, scenario.background is scenario.parent.background
        if getattr(scenario, "parent", None) is not None else None))
    raw_bg_steps = getattr(scenario, "_background_steps", "<no-attr>")
    if raw_bg_steps == "<no-attr>" or raw_bg_steps is None:
        out("%s  _background_steps: %r" % (indent, raw_bg_steps))
    else:
        out("%s  _background_steps: %d" % (indent, len(raw_bg_steps)))
    for step in scenario.background_steps:
        dump_step(step, indent + "  BG ")
    for step in scenario.steps:
        dump_step(step, indent + "  ")


def dump_outline(outline):
    out("OUTLINE name=%r line=%r tags=%r" % (
        outline.name, outline.line, list(outline.tags)))
    for example in outline.examples:
        out("  EXAMPLES name=%r line=%r tags=%r index=%r" % (
            example.name, example.line, list(example.tags), example.index))
        if example.table is not None:
            out("    modified=%r headings=%r" % (example.table.modified,
                                                 example.table.headings))
            for row in example.table.rows:
                out("    row cells=%r line=%r id=%r index=%r" % (
                    row.cells, row.line, getattr(row, "id", None),
                    getattr(row, "index", None)))
    out("  TEMPLATE steps:")
    for step in outline.steps:
        dump_step(step, "    ")


def expand_and_dump(title, text, filename="test.feature"):
    out("=" * 70)
    out("CASE: %s" % title)
    try:
        feature = parser.parse_feature(text, filename=filename)
    except Exception as e:  # pylint: disable=broad-except
        out("PARSE-EXCEPTION: %s: %s" % (type(e).__name__, e))
        return None
    outlines = [s for s in feature.walk_scenarios(with_outlines=True)
                if isinstance(s, ScenarioOutline)]
    for outline in outlines:
        out("-- BEFORE expansion")
        dump_outline(outline)
        out("  cache-before: %r" % (outline._scenarios,))
        try:
            scenarios = outline.scenarios
        except Exception as e:  # pylint: disable=broad-except
            out("EXPAND-EXCEPTION: %s: %s" % (type(e).__name__, e))
            continue
        out("-- EXPANDED count=%d" % len(scenarios))
        for scenario in scenarios:
            dump_scenario(scenario)
        out("-- AFTER expansion (template must be unchanged)")
        dump_outline(outline)
        again = outline.scenarios
        out("  cached: same-list=%r same-items=%r" % (
            again is scenarios,
            all(a is b for a, b in zip(again, scenarios))))
        # -- independence of rows: steps are distinct objects
        step_ids = set()
        for scenario in scenarios:
            for step in scenario.steps:
                step_ids.add(id(step))
        total_steps = sum(len(s.steps) for s in scenarios)
        out("  distinct step objects: %r" % (len(step_ids) == total_steps))
        template_ids = set(id(s) for s in outline.steps)
        out("  no template step reused: %r" % (not (step_ids & template_ids)))
    out("  feature.walk_scenarios: %r" % (
        [s.name for s in feature.walk_scenarios()],))
    return feature


# ---------------------------------------------------------------------------
# CASES
# ---------------------------------------------------------------------------
FEATURE_BASIC = u'''
Feature: Basic
  Scenario Outline: Use <name> and <size>
    Given a <name> of <size>
    When nothing with placeholders happens
    Then <name> is <name> and <unknown> stays

    Examples: First
      | name  | size |
      | Alice | 10   |
      | Bob   | 20   |

    @ex2 @more
    Examples: Second <name>
      | name    | size |
      | Charly  | 30   |
'''

FEATURE_TAGS = u'''
@feature_tag
Feature: Tags
  @fixed @param.<name> @row_<row.id> @ex_<examples.index>_<row.index> @unknown.<nope> @with.<text>
  Scenario Outline: Tagged <name> -- <row.id> / <examples.name> / <examples.index>
    Given a step with "<text>"

    @e1
    Examples: E-<name>-<row.index>
      | name | text        |
      | a b  | hello world |
      | x    | y,z         |

    Examples:
      | name | text |
      | q    | <name> |
'''

FEATURE_TEXT_TABLE = u'''
Feature: Text and Table
  Background:
    Given a background step
    And a background for <user>

  Scenario Outline: DocString and table for <user>
    Given a doc string:
      """
      Hello <user>, you are <age> years old.
      No placeholder here. <other> and < user > stay.
      """
    And a table:
      | <user> col | fixed | <age> |
      | <user>     | abc   | <age><age> |
      | plain      | <x>   | <user>-<age> |
    When a step without args for <age>

    Examples: People
      | user  | age |
      | Alice | 12  |
      | Bob   | 99  |
'''

FEATURE_CHAINED = u'''
Feature: Values that look like placeholders
  Scenario Outline: Chain <a> <b> <c>
    Given a "<a>" and "<b>" and "<c>"
    And text:
      """
      <a>|<b>|<c>
      """
    And table:
      | h<a> | <b> |
      | <a>  | <c> |

    Examples:
      | a   | b   | c   |
      | <b> | <c> | end |
      | <c> | <a> | <b> |
      | 1   | 2   | 3   |
'''

FEATURE_EMPTY = u'''
Feature: Boundary
  Scenario Outline: No rows <x>
    Given a <x>

    Examples: Empty
      | x |

  Scenario Outline: No placeholders at all
    Given a plain step
    Examples: Two rows
      | x |
      | 1 |
      | 2 |

  Scenario Outline: Empty cells <x>|<y>|
    Given a "<x>" and "<y>"
    Examples:
      | x | y |
      |   | v |
      | w |   |
'''

FEATURE_BG_PLAIN = u'''
Feature: Background without placeholders
  Background:
    Given a plain background step
  Scenario Outline: SO <n>
    Given number <n>
    Examples:
      | n |
      | 1 |
      | 2 |
'''

FEATURE_RULE = u'''
Feature: With Rule
  Rule: R1
    Background:
      Given rule bg <v>
    @so_tag
    Scenario Template: Tpl <v>
      Given value <v>
      Examples: Ex
        | v |
        | 7 |
'''


def case_modified_table():
    out("=" * 70)
    out("CASE: table modification triggers rebuild")
    feature = parser.parse_feature(FEATURE_BASIC, filename="mod.feature")
    outline = [s for s in feature.scenarios
               if isinstance(s, ScenarioOutline)][0]
    out("  any-modified before: %r" % outline._is_any_example_table_modified())
    out("  expected count: %r" % outline._expected_scenarios_count())
    first = outline.scenarios
    out("  names-1: %r" % [s.name for s in first])
    out("  any-modified after build: %r" %
        outline._is_any_example_table_modified())
    out("  flags: %r" % [e.table.modified for e in outline.examples])
    second = outline.scenarios
    out("  cached identical: %r" % (second is first))
    # -- modify SECOND examples table only
    outline.examples[1].table.add_row([u"Dora", u"40"])
    out("  flags after add_row: %r" % [e.table.modified
                                       for e in outline.examples])
    out("  any-modified: %r" % outline._is_any_example_table_modified())
    third = outline.scenarios
    out("  rebuilt new list: %r" % (third is not first))
    out("  names-3: %r" % [s.name for s in third])
    out("  lines-3: %r" % [s.line for s in third])
    out("  flags after rebuild: %r" % [e.table.modified
                                       for e in outline.examples])
    # -- add column, first table
    outline.examples[0].table.add_column(u"extra", [u"E1", u"E2"])
    outline.steps[0].name = u"a <name> of <size> with <extra>"
    fourth = outline.scenarios
    out("  names-4: %r" % [s.name for s in fourth])
    out("  step0-4: %r" % [s.steps[0].name for s in fourth])
    # -- example without table among others
    no_table = Examples(u"mod.feature", 99, u"Examples", u"NoTable")
    outline.examples.insert(0, no_table)
    out("  any-modified w/ no-table example (unmodified): %r" %
        outline._is_any_example_table_modified())
    out("  cached w/ no-table: %r" % (outline.scenarios is fourth))
    outline.examples[2].table.modified = True
    out("  any-modified: %r" % outline._is_any_example_table_modified())
    fifth = outline.scenarios
    out("  names-5: %r" % [s.name for s in fifth])
    out("  indexes-5: %r" % [e.index for e in outline.examples])
    out("  ids-5: %r" % [(s._row.id, s._row.index) for s in fifth])
    # -- only example without table
    outline2 = ScenarioOutline(u"x.feature", 1, u"Scenario Outline", u"O2",
                               examples=[Examples(u"x.feature", 3, u"Examples",
                                                  u"NT")])
    out("  only no-table: any-modified=%r scenarios=%r count=%r" % (
        outline2._is_any_example_table_modified(), outline2.scenarios,
        outline2._expected_scenarios_count()))
    outline3 = ScenarioOutline(u"x.feature", 1, u"Scenario Outline", u"O3")
    out("  no examples: any-modified=%r scenarios=%r" % (
        outline3._is_any_example_table_modified(), outline3.scenarios))
    # -- truthy/non-bool modified flag
    table = Table([u"n"], [[u"1"]], line=5)
    outline4 = ScenarioOutline(u"x.feature", 1, u"Scenario Outline",
                               u"O4 <n>", steps=[],
                               examples=[Examples(u"x.feature", 4, u"Examples",
                                                  u"E", table=table)])
    table.modified = 0
    out("  modified=0: %r %r" % (outline4._is_any_example_table_modified(),
                                 outline4.scenarios))
    table.modified = "yes"
    out("  modified='yes': %r %r" % (
        outline4._is_any_example_table_modified(),
        [s.name for s in outline4.scenarios]))
    out("  modified after: %r" % (table.modified,))


def case_direct_helpers():
    out("=" * 70)
    out("CASE: direct helper calls")
    render = ScenarioOutlineBuilder.render_template
    headings = [u"name", u"x y", u"<", u""]
    row = Row(headings, [u"Alice", u"<name>", u"lt", u"empty"], line=7)
    texts = [u"", u"plain", u"<name>", u"<name", u"name>", u"> <", u"<>",
             u"<name><name>", u"<x y>/<name>", u"<<>", u"<<name>>",
             u"<NAME>", u"<p1> <p2> <name>", u"a < b > c"]
    for text in texts:
        out("  render(%r, row) -> %r" % (text, render(text, row)))
        out("  render(%r, row, params) -> %r" % (
            text, render(text, row, {"p1": u"P1", "name": u"Override",
                                     "p2": u"<name>"})))
        out("  render(%r) -> %r" % (text, render(text)))
        out("  render(%r, None, params) -> %r" % (
            text, render(text, None, {"name": u"N"})))
        out("  render(%r, {}, {}) -> %r" % (text, render(text, {}, {})))
    same = u"no placeholder text"
    out("  identity kept: %r" % (render(same, row) is same))
    empty_row = Row([], [], line=1)
    out("  empty row: %r" % render(u"<name>", empty_row, {"name": u"P"}))
    for bad in (None, 42):
        try:
            out("  render(%r) -> %r" % (bad, render(bad, row)))
        except Exception as e:  # pylint: disable=broad-except
            out("  render(%r) raises %s" % (bad, type(e).__name__))
    try:
        out("  non-text value -> %r" % render(u"<n>", {"n": 1}))
    except Exception as e:  # pylint: disable=broad-except
        out("  non-text value raises %s" % type(e).__name__)

    # -- make_row_tags
    make_row_tags = ScenarioOutlineBuilder.make_row_tags
    tags = [Tag(u"fixed", 3), Tag(u"p.<name>", 3), Tag(u"u.<nope>", 3),
            Tag(u"q.<x y>", 3), Tag(u"half<name", 3), u"plain_string",
            Tag(u"r.<row.id>", 4)]
    for params in (None, {}, {"row.id": u"1.2", "nope": u"yes now"}):
        result = make_row_tags(tags, row, params)
        out("  make_row_tags(params=%r) -> %r types=%r" % (
            params, result, [type(t).__name__ for t in result]))
    out("  make_row_tags([]) -> %r" % make_row_tags([], row))
    out("  make_row_tags(None) -> %r" % make_row_tags(None, row))
    out("  template tags untouched: %r" % tags)

    # -- make_step_for_row
    table = Table([u"<name>", u"k"], [[u"<name>", u"<x y>"],
                                      [u"v", u"<<>"]], line=20)
    step = Step(u"s.feature", 10, u"Given", u"given", u"hello <name> <p>",
                text=u"text <name> <p>", table=table)
    new_step = ScenarioOutlineBuilder.make_step_for_row(step, row, {"p": u"PP"})
    dump_step(step, "  TEMPLATE ")
    dump_step(new_step, "  NEW ")
    out("  deep copy: step=%r table=%r rows=%r" % (
        new_step is not step, new_step.table is not step.table,
        all(a is not b for a, b in zip(new_step.table.rows, step.table.rows))))
    step2 = Step(u"s.feature", 11, u"When", u"when", u"no args <name>")
    new_step2 = ScenarioOutlineBuilder.make_step_for_row(step2, row)
    dump_step(new_step2, "  NEW2 ")
    step3 = Step(u"s.feature", 12, u"Then", u"then", u"empty <name>", text=u"",
                 table=Table([u"a"], [], line=30))
    new_step3 = ScenarioOutlineBuilder.make_step_for_row(step3, row)
    dump_step(new_step3, "  NEW3 ")
    try:
        ScenarioOutlineBuilder.make_step_for_row(step, {"name": 1})
        out("  non-text value: no error")
    except Exception as e:  # pylint: disable=broad-except
        out("  non-text value raises %s" % type(e).__name__)
    dump_step(step, "  TEMPLATE-AFTER-ERROR ")

    # -- has_parametrized_steps / is_parametrized_step
    out("  has_parametrized_steps: %r %r %r" % (
        ScenarioOutlineBuilder.has_parametrized_steps([step, step2]),
        ScenarioOutlineBuilder.has_parametrized_steps([]),
        ScenarioOutlineBuilder.has_parametrized_steps(
            [Step(u"f", 1, u"Given", u"given", u"plain")])))
    try:
        ScenarioOutlineBuilder.has_parametrized_steps([u"not a step"])
    except TypeError as e:
        out("  TypeError: %s" % e)

    # -- builder with custom annotation schema
    text = FEATURE_BASIC
    feature = parser.parse_feature(text, filename="schema.feature")
    outline = feature.scenarios[0]
    for schema in (u"{name}", u"{name} [{examples.index}/{row.index}]",
                   u"{row.id}:{examples.name}:{examples.id}:{name}"):
        builder = ScenarioOutlineBuilder(schema)
        scenarios = builder.build_scenarios(outline)
        out("  schema %r -> %r" % (schema, [s.name for s in scenarios]))
        out("    lines=%r flags=%r" % (
            [s.line for s in scenarios],
            [e.table.modified for e in outline.examples]))
    outline.annotation_schema = u"<<{name}>>"
    outline.examples[0].table.modified = True
    out("  outline.annotation_schema -> %r" % [s.name
                                               for s in outline.scenarios])

    # -- No-table syndrome through build_scenarios (prints an error line)
    outline.examples.insert(1, Examples(u"schema.feature", 50, u"Examples",
                                        u"Broken"))
    builder = ScenarioOutlineBuilder()
    scenarios = builder.build_scenarios(outline)
    out("  with no-table: %r" % [s.name for s in scenarios])
    out("  with no-table tags: %r" % [list(s.tags) for s in scenarios])
    out("  example indexes: %r" % [e.index for e in outline.examples])


STEPS_PY = u'''
from behave import given, when, then, step

@step(u'{anything}')
def step_anything(context, anything):
    if "FAIL" in anything:
        assert False, "requested failure: %s" % anything
    context.config.userdata.setdefault("log", [])
'''

ENVIRONMENT_PY = u'''
from __future__ import print_function

def before_scenario(context, scenario):
    print("HOOK before_scenario: %s @%s tags=%s" % (
        scenario.name, scenario.line, ",".join(scenario.tags)))

def after_scenario(context, scenario):
    print("HOOK after_scenario: %s status=%s" % (
        scenario.name, scenario.status.name))

def before_step(context, step):
    print("HOOK before_step: %s %s" % (step.keyword, step.name))
    if step.text:
        print("HOOK   text: %r" % step.text)
    if step.table:
        print("HOOK   table: %r %r" % (step.table.headings,
                                        [r.cells for r in step.table]))
'''

FEATURE_RUN = u'''
Feature: Run it
  Background:
    Given a background for <user>

  @so @user.<user>
  Scenario Outline: Run <user> -- <outcome>
    Given a user <user>
      """
      Doc for <user>
      """
    When the outcome is <outcome>
      | key    | value     |
      | <user> | <outcome> |
    Then done

    @good
    Examples: Good
      | user  | outcome |
      | Alice | OK      |
      | Bob   | OK      |

    @bad
    Examples: Bad
      | user   | outcome |
      | Charly | FAIL    |
      | Dora   | OK      |
'''


def run_behave(workdir, args):
    env = dict(os.environ)
    env["PYTHONPATH"] = WORKTREE
    env["PYTHONDONTWRITEBYTECODE"] = "1"
    env.pop("BEHAVE_ARGS", None)
    proc = subprocess.Popen([sys.executable, "-m", "behave"] + args,
                            cwd=workdir, env=env, stdout=subprocess.PIPE,
                            stderr=subprocess.STDOUT)
    output = proc.communicate()[0].decode("utf-8")
    output = output.replace(workdir, "<WORKDIR>")
    output = re.sub(r"Took \d+min \d+\.\d+s", "Took <T>", output)
    output = re.sub(r"Took \d+m\d+\.\d+s", "Took <T>", output)
    output = re.sub(r"\d+\.\d+s\b", "<T>s", output)
    output = re.sub(r'"duration": [0-9.e-]+', '"duration": 0', output)
    return proc.returncode, output


def case_end_to_end():
    out("=" * 70)
    out("CASE: end-to-end behave runs")
    workdir = tempfile.mkdtemp(prefix="c06_equiv_")
    try:
        os.makedirs(os.path.join(workdir, "features", "steps"))
        with open(os.path.join(workdir, "features", "steps", "steps.py"),
                  "w") as f:
            f.write(STEPS_PY)
        with open(os.path.join(workdir, "features", "environment.py"),
                  "w") as f:
            f.write(ENVIRONMENT_PY)
        with open(os.path.join(workdir, "features", "run.feature"), "w") as f:
            f.write(FEATURE_RUN)
        runs = [
            ["-f", "plain", "--no-timings", "--no-capture", "--no-color"],
            ["-f", "pretty", "--no-timings", "--no-color", "--no-capture",
             "--tags=@bad"],
            ["-f", "plain", "--no-timings", "--no-color", "--no-capture",
             "--tags=@user.Bob"],
            ["-f", "plain", "--no-timings", "--no-color", "--no-capture",
             "features/run.feature:20"],
            ["-f", "plain", "--no-timings", "--no-color", "--no-capture",
             "-n", "Run Dora"],
            ["-f", "json.pretty", "--no-color", "--no-capture", "--dry-run"],
            ["-f", "steps.usage", "--no-color", "--dry-run"],
        ]
        for args in runs:
            code, output = run_behave(workdir, args)
            out("-- behave %s" % " ".join(args))
            out("   exit code: %s" % code)
            for line in output.splitlines():
                out("   | " + line.rstrip())
    finally:
        shutil.rmtree(workdir, ignore_errors=True)


def main():
    expand_and_dump("basic, two examples blocks", FEATURE_BASIC)
    expand_and_dump("parametrized tags and names", FEATURE_TAGS)
    expand_and_dump("doc string, step table, parametrized background",
                    FEATURE_TEXT_TABLE)
    expand_and_dump("values that look like placeholders (order of "
                    "substitution)", FEATURE_CHAINED)
    expand_and_dump("boundary: empty table, no placeholders, empty cells",
                    FEATURE_EMPTY)
    expand_and_dump("background without placeholders", FEATURE_BG_PLAIN)
    expand_and_dump("rule with scenario template", FEATURE_RULE)
    case_modified_table()
    case_direct_helpers()
    case_end_to_end()
    out("DONE")


if __name__ == "__main__":
    main()
