# -*- coding: UTF-8 -*-
"""Equivalence transcript for C13-t22 (Context.add_cleanup with layer=...,
Context._select_stack_frame_by_layer)."""
from __future__ import print_function
import sys
sys.path.insert(0, "/tmp/wtX/C13")
import contextlib
import io
import os
import random
import re
import shutil
import subprocess
import tempfile

from behave.runner import Context, scoped_context_layer
from behave.fixture import use_fixture, fixture


class Config(object):
    verbose = False


class FakeRunner(object):
    def __init__(self):
        self.config = Config()
        self.captured = None
        self.formatters = []


LOG = []


class Cleanup(object):
    """Callable cleanup with a name; optionally raises."""
    def __init__(self, name, fails=False):
        self.__name__ = name
        self.fails = fails

    def __call__(self, *args, **kwargs):
        LOG.append("%s%r%r" % (self.__name__, args, sorted(kwargs.items())))
        if self.fails:
            raise RuntimeError("OOPS in %s" % self.__name__)


class EqualToAll(object):
    """Cleanup that compares equal to anything (duplicate detection)."""
    __name__ = "equal_to_all"

    def __eq__(self, other):
        return True

    def __ne__(self, other):
        return False

    __hash__ = None

    def __call__(self):
        LOG.append("equal_to_all()")


def make_func(name, fails=False):
    def func(*args, **kwargs):
        LOG.append("%s%r%r" % (name, args, sorted(kwargs.items())))
        if fails:
            raise ValueError("BAD %s" % name)
    func.__name__ = name
    return func


def handler(context, cleanup_func, exception):
    name = getattr(cleanup_func, "__name__", None) or "?"
    LOG.append("ERROR-HANDLER %s %s:%s" % (name, exception.__class__.__name__,
                                           exception))


def describe_frames(context):
    parts = []
    for frame in context._stack:
        names = [getattr(f, "__name__", "?") for f in frame.get("@cleanups", [])]
        parts.append("%s%r" % (frame.get("@layer", None), names))
    return " | ".join(parts)


def attempt(label, func, *args, **kwargs):
    try:
        result = func(*args, **kwargs)
        print("  %s -> %r" % (label, result))
    except BaseException as e:      # pylint: disable=broad-except
        print("  %s RAISED %s: %s" % (label, e.__class__.__name__, e))


def flush_log():
    for line in LOG:
        print("    LOG %s" % line)
    del LOG[:]


def pop(context):
    attempt("pop", context._pop)
    flush_log()
    print("    FRAMES %s" % describe_frames(context))
    print("    cleanup_errors=%r" % context.cleanup_errors)


def scripted():
    print("== scripted")
    context = Context(FakeRunner())
    context.on_cleanup_error = handler
    c1 = make_func("c1")
    c2 = make_func("c2", fails=True)
    c3 = Cleanup("c3")
    c4 = Cleanup("c4", fails=True)
    attempt("add c1 (testrun, current)", context.add_cleanup, c1)
    attempt("add c1 again", context.add_cleanup, c1)
    attempt("add c1 layer=testrun", context.add_cleanup, c1, layer="testrun")
    attempt("add c1 with args", context.add_cleanup, c1, 1, 2, key="v")
    attempt("add c1 with args again", context.add_cleanup, c1, 3)
    attempt("add layer=feature (missing)", context.add_cleanup, c3, layer="feature")
    attempt("add layer=unknown", context.add_cleanup, c3, layer="unknown")
    attempt("add not callable", context.add_cleanup, 42)
    print("    FRAMES %s" % describe_frames(context))
    context._push("feature")
    attempt("add c2 layer=testrun", context.add_cleanup, c2, layer="testrun")
    attempt("add c3 layer=feature", context.add_cleanup, c3, layer="feature")
    attempt("add c3 layer=feature, args", context.add_cleanup, c3, "x", layer="feature")
    attempt("add c4 layer=''", context.add_cleanup, c4, layer="")
    attempt("add c4 layer=None", context.add_cleanup, c4, layer=None)
    attempt("add c3 layer=scenario (missing)", context.add_cleanup, c3, layer="scenario")
    attempt("add c3 layer=rule (missing)", context.add_cleanup, c3, layer="rule")
    print("    FRAMES %s" % describe_frames(context))
    context._push()     # -- UNNAMED LAYER
    attempt("add c3 in unnamed", context.add_cleanup, c3)
    attempt("add equal_to_all (dup of c3)", context.add_cleanup, EqualToAll())
    attempt("add c4 layer=feature", context.add_cleanup, c4, 1, layer="feature")
    context._push("scenario")
    attempt("add equal_to_all in empty", context.add_cleanup, EqualToAll())
    attempt("add c1 kwargs-only", context.add_cleanup, c1, a=1, b=2)
    attempt("add c2 layer=scenario", context.add_cleanup, c2, layer="scenario")
    attempt("add c1 layer=feature", context.add_cleanup, c1, layer="feature")
    attempt("add c1 layer=testrun kw", context.add_cleanup, c1, layer="testrun", z=0)
    print("    FRAMES %s" % describe_frames(context))
    for layer in ("testrun", "feature", "rule", "scenario", "", None, 0, "Feature"):
        try:
            frame = context._select_stack_frame_by_layer(layer)
            index = [i for i, f in enumerate(context._stack) if f is frame]
            print("  select %r -> frame index %r" % (layer, index))
        except LookupError as e:
            print("  select %r RAISED LookupError: %s" % (layer, e))
    # -- TWO frames with the same layer name: innermost wins.
    context._push("feature")
    frame = context._select_stack_frame_by_layer("feature")
    print("  select duplicate 'feature' -> index %r" % (
        [i for i, f in enumerate(context._stack) if f is frame],))
    attempt("add c3 layer=feature (inner)", context.add_cleanup, c3, 9, layer="feature")
    print("    FRAMES %s" % describe_frames(context))
    for _ in range(4):
        pop(context)
    attempt("do_cleanups(root)", context._do_cleanups)
    flush_log()


@fixture
def gen_fixture(context, name, fail_setup=False, fail_cleanup=False):
    LOG.append("setup %s" % name)
    if fail_setup:
        raise RuntimeError("SETUP-FAILED %s" % name)
    yield name
    LOG.append("cleanup %s" % name)
    if fail_cleanup:
        raise RuntimeError("CLEANUP-FAILED %s" % name)


def randomized(seed, length):
    print("== random seed=%d" % seed)
    rnd = random.Random(seed)
    context = Context(FakeRunner())
    if seed % 3 == 0:
        context.on_cleanup_error = handler
    elif seed % 3 == 1:
        context.on_cleanup_error = Context.ignore_cleanup_error
    if seed % 4 == 3:
        context.fail_on_cleanup_errors = False
    layers = ["testrun", "feature", "rule", "scenario"]
    funcs = [make_func("f%d" % i, fails=(i % 3 == 0)) for i in range(6)]
    counter = 0
    for _ in range(length):
        choice = rnd.random()
        depth = len(context._stack)
        if choice < 0.15 and depth < 4:
            print("  push %s" % layers[depth])
            context._push(layers[depth])
        elif choice < 0.30 and depth > 1:
            # -- print_cleanup_error() prints tracebacks: keep the first line.
            buf = io.StringIO()
            with contextlib.redirect_stdout(buf):
                try:
                    context._pop()
                    outcome = "ok"
                except Exception as e:      # pylint: disable=broad-except
                    outcome = "RAISED %s: %s" % (e.__class__.__name__, e)
            print("  pop %s" % outcome)
            for line in buf.getvalue().splitlines():
                if line.startswith("CLEANUP-ERROR"):
                    print("    OUT %s" % line)
            flush_log()
            print("    FRAMES %s" % describe_frames(context))
            print("    cleanup_errors=%r" % context.cleanup_errors)
        elif choice < 0.50:
            func = rnd.choice(funcs)
            attempt("add %s" % func.__name__, context.add_cleanup, func)
        elif choice < 0.65:
            func = rnd.choice(funcs)
            counter += 1
            attempt("add %s args" % func.__name__, context.add_cleanup, func,
                    counter, tag=counter)
        elif choice < 0.85:
            func = rnd.choice(funcs)
            layer = rnd.choice(layers)
            counter += 1
            if rnd.random() < 0.5:
                attempt("add %s layer=%s" % (func.__name__, layer),
                        context.add_cleanup, func, layer=layer)
            else:
                attempt("add %s(%d) layer=%s" % (func.__name__, counter, layer),
                        context.add_cleanup, func, counter, layer=layer)
        else:
            counter += 1
            attempt("use_fixture g%d" % counter, use_fixture, gen_fixture,
                    context, "g%d" % counter,
                    fail_setup=rnd.random() < 0.2,
                    fail_cleanup=rnd.random() < 0.3)
        # -- every step: state of the stack
    print("  FINAL FRAMES %s" % describe_frames(context))
    while len(context._stack) > 1:
        buf = io.StringIO()
        with contextlib.redirect_stdout(buf):
            try:
                context._pop()
                outcome = "ok"
            except Exception as e:      # pylint: disable=broad-except
                outcome = "RAISED %s: %s" % (e.__class__.__name__, e)
        print("  final pop %s" % outcome)
        flush_log()
    buf = io.StringIO()
    with contextlib.redirect_stdout(buf):
        try:
            context._do_cleanups()
            outcome = "ok"
        except Exception as e:      # pylint: disable=broad-except
            outcome = "RAISED %s: %s" % (e.__class__.__name__, e)
    print("  root cleanups %s, cleanup_errors=%r" % (outcome, context.cleanup_errors))
    flush_log()


FEATURE = u'''
@tag_f
Feature: F1
  Scenario: S1
    Given a step registers cleanups at "scenario"
    And a step registers cleanups at "feature"
    And a step registers cleanups at "testrun"
    When a step registers cleanups at "rule"
    Then the scenario continues

  Rule: R1
    Scenario: S2
      Given a step registers cleanups at "rule"
      And a step registers cleanups at "feature"
      And a step registers a failing cleanup at "rule"

    Scenario: S3
      Given a step registers a failing cleanup at "scenario"
      And a step registers cleanups at "nowhere"

Feature: F2
  Scenario: S4
    Given a step registers a failing cleanup at "feature"
'''

STEPS = u'''
from behave import given, when, then

def note(name):
    print("CLEANUP-CALLED %s" % name)

def bad(name):
    print("CLEANUP-CALLED %s" % name)
    raise RuntimeError("CLEANUP-BAD %s" % name)

@given(u'a step registers cleanups at "{layer}"')
@when(u'a step registers cleanups at "{layer}"')
def step_register(context, layer):
    name = "%s@%s" % (context.scenario.name, layer)
    context.add_cleanup(note, name + "#1", layer=layer)
    context.add_cleanup(note, name + "#2", layer=layer)
    context.add_cleanup(note, name + "#current")

@given(u'a step registers a failing cleanup at "{layer}"')
def step_register_bad(context, layer):
    name = "%s@%s" % (context.scenario.name, layer)
    context.add_cleanup(note, name + "#before", layer=layer)
    context.add_cleanup(bad, name + "#bad", layer=layer)
    context.add_cleanup(note, name + "#after", layer=layer)

@then(u'the scenario continues')
def step_continue(context):
    pass
'''

ENVIRONMENT = u'''
def note(name):
    print("CLEANUP-CALLED %s" % name)

def before_all(context):
    context.add_cleanup(note, "before_all#current")
    context.add_cleanup(note, "before_all#testrun", layer="testrun")

def before_feature(context, feature):
    context.add_cleanup(note, "before_feature %s#feature" % feature.name, layer="feature")
    context.add_cleanup(note, "before_feature %s#testrun" % feature.name, layer="testrun")

def before_scenario(context, scenario):
    context.add_cleanup(note, "before_scenario %s#scenario" % scenario.name, layer="scenario")
    context.add_cleanup(note, "before_scenario %s#feature" % scenario.name, layer="feature")

def after_scenario(context, scenario):
    context.add_cleanup(note, "after_scenario %s" % scenario.name)
'''


def real_run():
    print("== real run")
    workdir = tempfile.mkdtemp(prefix="c13t22_")
    try:
        os.makedirs(os.path.join(workdir, "features", "steps"))
        parts = FEATURE.split("\nFeature: F2")
        with io.open(os.path.join(workdir, "features", "f1.feature"), "w",
                     encoding="utf-8") as f:
            f.write(parts[0])
        with io.open(os.path.join(workdir, "features", "f2.feature"), "w",
                     encoding="utf-8") as f:
            f.write(u"Feature: F2" + parts[1])
        with io.open(os.path.join(workdir, "features", "steps", "steps.py"), "w",
                     encoding="utf-8") as f:
            f.write(STEPS)
        with io.open(os.path.join(workdir, "features", "environment.py"), "w",
                     encoding="utf-8") as f:
            f.write(ENVIRONMENT)
        env = dict(os.environ)
        env["PYTHONPATH"] = "/tmp/wtX/C13"
        env["PYTHONDONTWRITEBYTECODE"] = "1"
        for fmt in ("plain", "json"):
            proc = subprocess.Popen(
                [sys.executable, "-m", "behave", "-f", fmt, "--no-timings",
                 "--no-capture", "--no-color", "features"],
                cwd=workdir, env=env, stdout=subprocess.PIPE,
                stderr=subprocess.STDOUT)
            output = proc.communicate()[0].decode("utf-8")
            output = output.replace(workdir, "<WORKDIR>")
            output = re.sub(r"Took \d+m[\d.]+s", "Took <T>", output)
            output = re.sub(r'"duration": [\d.e+-]+', '"duration": <T>', output)
            output = re.sub(r'line \d+, in', 'line <N>, in', output)
            print("-- format=%s returncode=%s" % (fmt, proc.returncode))
            print(output)
    finally:
        shutil.rmtree(workdir, ignore_errors=True)


if __name__ == "__main__":
    scripted()
    for seed in range(16):
        randomized(seed, 70)
    real_run()
